/-
  SqLemmas/SliceLemmas.lean — C14 [B]: what `xs[a:b]` selects.  `sliceIndices` transcribes `slice.indices`; for every slice
  form that carries bounds (`[a:b]`, `[a:]`, `[:b]`, `[:]`, `[a::]`, `[:b:]` — the grammar spells a step only as `[::k]`, without
  bounds) the selected elements are one contiguous segment of the list.
-/
import Sq.Prim
namespace Sq

/-- where a slice bound lands on a list of `n` elements: counted from the end when negative, clamped to `0 .. n` -/
def sliceBound (n : Nat) (x : Option Int) (dflt : Nat) : Nat :=
  match x with
  | none => dflt
  | some i => if i < 0 then (i + n).toNat else min i.toNat n

theorem sliceBound_le (n : Nat) (x : Option Int) (d : Nat) (hd : d ≤ n) : sliceBound n x d ≤ n := by
  unfold sliceBound
  cases x with
  | none => exact hd
  | some i => simp only; split <;> omega

/-- the bound `slice.indices` computes (step 1) is `sliceBound`, as an integer -/
theorem sliceBound_some (n : Nat) (x : Int) (d : Nat) :
    (if x < 0 then max (x + (n : Int)) 0 else min x (n : Int)) = ((sliceBound n (some x) d : Nat) : Int) := by
  unfold sliceBound
  simp only; split <;> omega

/-- picking `c` consecutive positions from `s` on is dropping `s` elements and taking `c` -/
theorem pick_consecutive {α : Type} (xs : List α) (s c : Nat) :
    pick xs ((List.range c).map (fun k => s + k)) = (xs.drop s).take c := by
  induction c with
  | zero => simp [pick]
  | succ c ih =>
    rw [List.range_succ, List.map_append, List.take_add_one]
    unfold pick at ih ⊢
    rw [List.filterMap_append, ih]
    congr 1
    rw [List.getElem?_drop]
    simp only [List.map_cons, List.map_nil, List.filterMap_cons, List.filterMap_nil]
    cases xs[s + c]? <;> rfl

/-- **`xs[a:b]` is a contiguous segment**: the elements from the (normalised, clamped) lower bound up to the upper bound,
    in order; empty when the bounds cross -/
theorem slice_is_segment {α : Type} (xs : List α) (a b : Option Int) :
    ∃ idx, sliceIndices xs.length a b none = .ok idx ∧
      pick xs idx = (xs.drop (sliceBound xs.length a 0)).take (sliceBound xs.length b xs.length - sliceBound xs.length a 0) := by
  refine ⟨(List.range (if ((sliceBound xs.length a 0 : Nat) : Int) < ((sliceBound xs.length b xs.length : Nat) : Int)
      then ((((sliceBound xs.length b xs.length : Nat) : Int) - ((sliceBound xs.length a 0 : Nat) : Int) - 1) / 1 + 1).toNat else 0)).map
      (fun (k : Nat) => (((sliceBound xs.length a 0 : Nat) : Int) + 1 * (k : Int)).toNat), ?_, ?_⟩
  · unfold sliceIndices
    simp only [Option.getD_none, show ¬ ((1 : Int) = 0) by decide, if_false, show ¬ ((1 : Int) < 0) by decide,
      show ((1 : Int) > 0) by decide, if_true]
    cases a <;> cases b <;> simp only [sliceBound_some _ _ 0] <;> rfl
  · generalize sliceBound xs.length a 0 = A
    generalize sliceBound xs.length b xs.length = B
    have hf : (fun (k : Nat) => ((A : Int) + 1 * (k : Int)).toNat) = (fun k => A + k) := by
      funext k; omega
    rw [hf, pick_consecutive]
    congr 1
    split <;> omega

theorem filterMap_congr' {α β : Type} (f g : α → Option β) (l : List α) (h : ∀ x, x ∈ l → f x = g x) :
    l.filterMap f = l.filterMap g := by
  induction l with
  | nil => rfl
  | cons a r ih =>
    simp only [List.filterMap_cons, h a (List.mem_cons_self ..)]
    rw [ih (fun x hx => h x (List.mem_cons_of_mem _ hx))]

theorem pick_reversed {α : Type} (xs : List α) :
    pick xs ((List.range xs.length).map (fun k => xs.length - 1 - k)) = xs.reverse := by
  have h2 := pick_consecutive xs.reverse 0 xs.length
  simp only [List.drop_zero, Nat.zero_add] at h2
  rw [List.take_of_length_le (by simp)] at h2
  rw [← h2]
  unfold pick
  rw [List.filterMap_map, List.filterMap_map]
  apply filterMap_congr'
  intro k hk
  have hk' : k < xs.length := List.mem_range.mp hk
  simp only [Function.comp]
  rw [List.getElem?_reverse hk']

/-- **`xs[::-1]` is `xs` reversed** -/
theorem slice_reverse {α : Type} (xs : List α) :
    ∃ idx, sliceIndices xs.length none none (some (-1)) = .ok idx ∧ pick xs idx = xs.reverse := by
  refine ⟨(List.range xs.length).map (fun k => xs.length - 1 - k), ?_, pick_reversed xs⟩
  unfold sliceIndices
  simp only [Option.getD_some, show ¬ ((-1 : Int) = 0) by decide, if_false, show ((-1 : Int) < 0) by decide, if_true,
    show ¬ ((-1 : Int) > 0) by decide]
  have hc : (if (xs.length : Int) - 1 > -1 then (((xs.length : Int) - 1 - -1 - 1) / - -1 + 1).toNat else 0) = xs.length := by
    have e : (- -1 : Int) = 1 := by decide
    rw [e, Int.ediv_one]
    split <;> omega
  have hf : (fun (k : Nat) => ((xs.length : Int) - 1 + -1 * (k : Int)).toNat) = (fun k => xs.length - 1 - k) := by
    funext k; omega
  rw [hc, hf]

/-! ### the step-only form `[::k]` -/

theorem step_count (n k : Nat) (hk : 0 < k) :
    (if (0 : Int) < (n : Int) then (((n : Int) - 0 - 1) / (k : Int) + 1).toNat else 0) = (n + k - 1) / k := by
  split
  · rename_i h
    have hn : 0 < n := by omega
    have e : ((n : Int) - 0 - 1) = ((n - 1 : Nat) : Int) := by omega
    have e3 : ((n : Int) - 0 - 1) / (k : Int) = (((n - 1) / k : Nat) : Int) := by rw [e, Int.natCast_ediv]
    have e2 : n + k - 1 = (n - 1) + k := by omega
    have e4 : (n + k - 1) / k = (n - 1) / k + 1 := by rw [e2, Nat.add_div_right _ hk]
    rw [e3, e4]
    generalize (n - 1) / k = q
    omega
  · rename_i h
    have hn : n = 0 := by omega
    subst hn
    have : (0 + k - 1) / k = 0 := Nat.div_eq_of_lt (by omega)
    omega

/-- **`xs[::k]`, `k > 0`, selects positions `0, k, 2k, …` below the length** — `⌈n / k⌉` of them, all inside the list -/
theorem slice_step_indices (n k : Nat) (hk : 0 < k) :
    sliceIndices n none none (some (k : Int)) = .ok ((List.range ((n + k - 1) / k)).map (fun j => j * k)) ∧
    ∀ i, i ∈ (List.range ((n + k - 1) / k)).map (fun j => j * k) → i < n := by
  constructor
  · unfold sliceIndices
    have h0 : ¬ ((k : Int) = 0) := by omega
    have h1 : ¬ ((k : Int) < 0) := by omega
    have h2 : (k : Int) > 0 := by omega
    simp only [Option.getD_some, h0, h1, h2, if_false, if_true]
    rw [step_count n k hk]
    congr 1
    apply List.map_congr_left
    intro j _
    have : (0 : Int) + (k : Int) * (j : Int) = ((j * k : Nat) : Int) := by
      rw [Int.zero_add, Int.mul_comm]; exact (Int.natCast_mul j k).symm
    rw [this]; rfl
  · intro i hi
    obtain ⟨j, hj, rfl⟩ := List.mem_map.mp hi
    have hj' : j < (n + k - 1) / k := List.mem_range.mp hj
    have h3 : (j + 1) * k ≤ n + k - 1 := (Nat.le_div_iff_mul_le hk).mp hj'
    rw [Nat.add_mul] at h3
    omega

/-- the elements `xs[::k]` returns: as many as there are multiples of `k` below the length, the `j`-th being `xs[j * k]` -/
theorem slice_step_elems {α : Type} (xs : List α) (k : Nat) (hk : 0 < k) :
    (pick xs ((List.range ((xs.length + k - 1) / k)).map (fun j => j * k))).length = (xs.length + k - 1) / k ∧
    ∀ j, j < (xs.length + k - 1) / k →
      (pick xs ((List.range ((xs.length + k - 1) / k)).map (fun j => j * k)))[j]? = xs[j * k]? := by
  have hb := (slice_step_indices xs.length k hk).2
  generalize (xs.length + k - 1) / k = c at hb ⊢
  have hp : ∀ c', c' ≤ c → (pick xs ((List.range c').map (fun j => j * k))).length = c' ∧
      ∀ j, j < c' → (pick xs ((List.range c').map (fun j => j * k)))[j]? = xs[j * k]? := by
    intro c'
    induction c' with
    | zero => intro _; simp [pick]
    | succ m ih =>
      intro hm
      obtain ⟨l1, l2⟩ := ih (by omega)
      have hin : m * k < xs.length := hb _ (List.mem_map.mpr ⟨m, List.mem_range.mpr (by omega), rfl⟩)
      have e : pick xs ((List.range (m + 1)).map (fun j => j * k)) =
          pick xs ((List.range m).map (fun j => j * k)) ++ [xs[m * k]] := by
        unfold pick
        rw [List.range_succ, List.map_append, List.filterMap_append]
        simp [List.getElem?_eq_getElem hin]
      rw [e]
      refine ⟨by simp [l1], ?_⟩
      intro j hj
      rcases Nat.lt_or_ge j m with h | h
      · rw [List.getElem?_append_left (by omega)]; exact l2 j h
      · have : j = m := by omega
        subst this
        rw [List.getElem?_append_right (by omega), l1]
        simp [List.getElem?_eq_getElem hin]
  exact hp c (Nat.le_refl _)

/-- a zero step is refused (`ValueError: slice step cannot be zero`) -/
theorem slice_step_zero (n : Nat) (a b : Option Int) : sliceIndices n a b (some 0) = .error .valueError := by
  unfold sliceIndices; simp

/-! ### negative steps `[::-k]` -/

theorem neg_step_count (n k : Nat) (hk : 0 < k) :
    (if (n : Int) - 1 > -1 then (((n : Int) - 1 - -1 - 1) / - -(k : Int) + 1).toNat else 0) = (n + k - 1) / k := by
  have e0 : (- -(k : Int)) = (k : Int) := Int.neg_neg _
  rw [e0]
  have := step_count n k hk
  rw [← this]
  have e1 : ((n : Int) - 1 - -1 - 1) = ((n : Int) - 0 - 1) := by omega
  rw [e1]
  by_cases h : (0 : Int) < (n : Int)
  · have h' : (n : Int) - 1 > -1 := by omega
    simp only [h, h', if_true]
  · have h' : ¬ ((n : Int) - 1 > -1) := by omega
    simp only [h, h', if_false]

/-- **`xs[::-k]`, `k > 0`, selects positions `n-1, n-1-k, n-1-2k, …`** — `⌈n / k⌉` of them, all inside the list -/
theorem slice_neg_step_indices (n k : Nat) (hk : 0 < k) :
    sliceIndices n none none (some (-(k : Int))) = .ok ((List.range ((n + k - 1) / k)).map (fun j => n - 1 - j * k)) ∧
    (∀ j, j < (n + k - 1) / k → j * k < n) := by
  constructor
  · unfold sliceIndices
    have h0 : ¬ (-(k : Int) = 0) := by omega
    have h1 : (-(k : Int) < 0) := by omega
    have h2 : ¬ (-(k : Int) > 0) := by omega
    simp only [Option.getD_some, h0, h1, h2, if_false, if_true]
    rw [neg_step_count n k hk]
    congr 1
    apply List.map_congr_left
    intro j _
    have e : -(k : Int) * (j : Int) = -(((j * k : Nat)) : Int) := by
      rw [Int.neg_mul, Int.mul_comm, Int.natCast_mul]
    rw [e]
    generalize j * k = m
    omega
  · intro j hj'
    have h3 : (j + 1) * k ≤ n + k - 1 := (Nat.le_div_iff_mul_le hk).mp hj'
    rw [Nat.add_mul] at h3
    omega

/-- the elements `xs[::-k]` returns: the `j`-th is `xs[n - 1 - j * k]` -/
theorem slice_neg_step_elems {α : Type} (xs : List α) (k : Nat) (hk : 0 < k) :
    (pick xs ((List.range ((xs.length + k - 1) / k)).map (fun j => xs.length - 1 - j * k))).length = (xs.length + k - 1) / k ∧
    ∀ j, j < (xs.length + k - 1) / k →
      (pick xs ((List.range ((xs.length + k - 1) / k)).map (fun j => xs.length - 1 - j * k)))[j]? = xs[xs.length - 1 - j * k]? := by
  have hb := (slice_neg_step_indices xs.length k hk).2
  generalize (xs.length + k - 1) / k = c at hb ⊢
  have hp : ∀ c', c' ≤ c → (pick xs ((List.range c').map (fun j => xs.length - 1 - j * k))).length = c' ∧
      ∀ j, j < c' → (pick xs ((List.range c').map (fun j => xs.length - 1 - j * k)))[j]? = xs[xs.length - 1 - j * k]? := by
    intro c'
    induction c' with
    | zero => intro _; simp [pick]
    | succ m ih =>
      intro hm
      obtain ⟨l1, l2⟩ := ih (by omega)
      have hin0 : m * k < xs.length := hb m (by omega)
      have hin : xs.length - 1 - m * k < xs.length := by omega
      have e : pick xs ((List.range (m + 1)).map (fun j => xs.length - 1 - j * k)) =
          pick xs ((List.range m).map (fun j => xs.length - 1 - j * k)) ++ [xs[xs.length - 1 - m * k]] := by
        unfold pick
        rw [List.range_succ, List.map_append, List.filterMap_append]
        simp [List.getElem?_eq_getElem hin]
      rw [e]
      refine ⟨by simp [l1], ?_⟩
      intro j hj
      rcases Nat.lt_or_ge j m with h | h
      · rw [List.getElem?_append_left (by omega)]; exact l2 j h
      · have : j = m := by omega
        subst this
        rw [List.getElem?_append_right (by omega), l1]
        simp [List.getElem?_eq_getElem hin]
  exact hp c (Nat.le_refl _)

/-! ### length of any slice (C03: a slice is no way around the cap) -/

theorem cnt_le (d s : Int) (n : Nat) (hs : 0 < s) (hd : d ≤ n) : ((d - 1) / s + 1).toNat ≤ n := by
  rcases Int.lt_or_le (d - 1) 0 with h | h
  · have : (d - 1) / s < 0 := Int.ediv_neg_of_neg_of_pos h hs
    omega
  · have := Int.ediv_le_self (b := s) h
    omega

theorem count_le (start stop step : Int) (n : Nat) (hz : step ≠ 0)
    (hpos : 0 < step → 0 ≤ start ∧ stop ≤ n) (hneg : step < 0 → start ≤ n - 1 ∧ -1 ≤ stop) :
    (if step > 0 then (if start < stop then ((stop - start - 1) / step + 1).toNat else 0)
      else (if start > stop then ((start - stop - 1) / (-step) + 1).toNat else 0)) ≤ n := by
  by_cases hp : step > 0
  · simp only [hp, if_true]
    obtain ⟨h1, h2⟩ := hpos hp
    split
    · have e : stop - start - 1 = (stop - start) - 1 := by omega
      rw [e]; exact cnt_le _ _ _ hp (by omega)
    · omega
  · simp only [hp, if_false]
    split
    · rename_i hgt
      obtain ⟨h1, h2⟩ := hneg (by omega)
      have e : start - stop - 1 = (start - stop) - 1 := by omega
      rw [e]; exact cnt_le _ _ _ (by omega) (by omega)
    · omega

/-- **a slice never selects more positions than the sequence has**, whatever the bounds and the step -/
theorem sliceIndices_length_le (n : Nat) (a b c : Option Int) (idx : List Nat)
    (h : sliceIndices n a b c = .ok idx) : idx.length ≤ n := by
  unfold sliceIndices at h
  simp only at h
  split at h
  · cases h
  · rename_i hz
    injection h with h
    subst h
    rw [List.length_map, List.length_range]
    refine count_le _ _ _ _ hz ?_ ?_
    · intro hp
      have hn' : ¬ (c.getD 1 < 0) := by omega
      simp only [hn', if_false]
      constructor
      · cases a <;> simp only <;> (try split) <;> omega
      · cases b <;> simp only <;> (try split) <;> omega
    · intro hneg
      simp only [hneg, if_true]
      constructor
      · cases a <;> simp only <;> (try split) <;> omega
      · cases b <;> simp only <;> (try split) <;> omega

/-- so the list a slice read builds is never longer than the list it was read from -/
theorem pick_slice_length_le {α : Type} (xs : List α) (a b c : Option Int) (idx : List Nat)
    (h : sliceIndices xs.length a b c = .ok idx) : (pick xs idx).length ≤ xs.length := by
  have h1 := sliceIndices_length_le _ _ _ _ _ h
  have h2 : (pick xs idx).length ≤ idx.length := by unfold pick; exact List.length_filterMap_le _ _
  omega

/-! ### every selected position is inside the sequence -/

theorem idx_in (start stop step : Int) (n k : Nat) (hz : step ≠ 0)
    (hpos : 0 < step → 0 ≤ start ∧ stop ≤ n) (hneg : step < 0 → start ≤ n - 1 ∧ -1 ≤ stop)
    (hk : k < (if step > 0 then (if start < stop then ((stop - start - 1) / step + 1).toNat else 0)
      else (if start > stop then ((start - stop - 1) / (-step) + 1).toNat else 0))) :
    0 ≤ start + step * (k : Int) ∧ start + step * (k : Int) < n := by
  by_cases hp : step > 0
  · simp only [hp, if_true] at hk
    obtain ⟨h1, h2⟩ := hpos hp
    split at hk
    · have hq : (k : Int) ≤ (stop - start - 1) / step := by omega
      have hm := (Int.le_ediv_iff_mul_le hp).mp hq
      rw [Int.mul_comm] at hm
      have h0 : 0 ≤ step * (k : Int) := Int.mul_nonneg (by omega) (by omega)
      omega
    · omega
  · simp only [hp, if_false] at hk
    have hn : step < 0 := by omega
    obtain ⟨h1, h2⟩ := hneg hn
    split at hk
    · have hq : (k : Int) ≤ (start - stop - 1) / (-step) := by omega
      have hm := (Int.le_ediv_iff_mul_le (by omega : 0 < -step)).mp hq
      rw [Int.mul_neg, Int.mul_comm] at hm
      have h0 : 0 ≤ (-step) * (k : Int) := Int.mul_nonneg (by omega) (by omega)
      rw [Int.neg_mul] at h0
      omega
    · omega

/-- **every position a slice selects lies inside the sequence**, whatever the bounds and the step -/
theorem sliceIndices_mem_lt (n : Nat) (a b c : Option Int) (idx : List Nat)
    (h : sliceIndices n a b c = .ok idx) : ∀ i, i ∈ idx → i < n := by
  unfold sliceIndices at h
  simp only at h
  split at h
  · cases h
  · rename_i hz
    injection h with h
    subst h
    intro i hi
    obtain ⟨k, hk, rfl⟩ := List.mem_map.mp hi
    have hk' := List.mem_range.mp hk
    have := idx_in _ _ _ n k hz ?_ ?_ hk'
    · omega
    · intro hp
      have hn' : ¬ (c.getD 1 < 0) := by omega
      simp only [hn', if_false]
      constructor
      · cases a <;> simp only <;> (try split) <;> omega
      · cases b <;> simp only <;> (try split) <;> omega
    · intro hneg
      simp only [hneg, if_true]
      constructor
      · cases a <;> simp only <;> (try split) <;> omega
      · cases b <;> simp only <;> (try split) <;> omega

/-- so `pick` drops nothing on the positions of a slice: the result has exactly as many elements as positions were selected -/
theorem pick_slice_length_eq {α : Type} (xs : List α) (a b c : Option Int) (idx : List Nat)
    (h : sliceIndices xs.length a b c = .ok idx) : (pick xs idx).length = idx.length := by
  have hb := sliceIndices_mem_lt _ _ _ _ _ h
  clear h
  induction idx with
  | nil => simp [pick]
  | cons i r ih =>
    have hi : i < xs.length := hb i (List.mem_cons_self ..)
    have := ih (fun j hj => hb j (List.mem_cons_of_mem _ hj))
    unfold pick at this ⊢
    simp [List.getElem?_eq_getElem hi, this]

/-- when every position is inside, the `j`-th element picked is the element at the `j`-th position -/
theorem pick_getElem {α : Type} (xs : List α) (idx : List Nat) (hb : ∀ i, i ∈ idx → i < xs.length)
    (j : Nat) (hj : j < idx.length) : (pick xs idx)[j]? = xs[idx[j]]? := by
  induction idx generalizing j with
  | nil => simp at hj
  | cons i r ih =>
    have hi : i < xs.length := hb i (List.mem_cons_self ..)
    have e : pick xs (i :: r) = xs[i] :: pick xs r := by
      unfold pick; simp [List.getElem?_eq_getElem hi]
    rw [e]
    cases j with
    | zero => simp [List.getElem?_eq_getElem hi]
    | succ j =>
      simp only [List.getElem?_cons_succ, List.getElem_cons_succ]
      exact ih (fun k hk => hb k (List.mem_cons_of_mem _ hk)) j (by simpa using hj)

/-- **the `j`-th element of any slice is the element at the `j`-th selected position** -/
theorem slice_getElem {α : Type} (xs : List α) (a b c : Option Int) (idx : List Nat)
    (h : sliceIndices xs.length a b c = .ok idx) (j : Nat) (hj : j < idx.length) :
    (pick xs idx)[j]? = xs[idx[j]]? :=
  pick_getElem xs idx (sliceIndices_mem_lt _ _ _ _ _ h) j hj

end Sq
