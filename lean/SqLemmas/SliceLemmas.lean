/-
  SqLemmas/SliceLemmas.lean — C14 [B]: what `xs[a:b]` selects.  `sliceIndices` transcribes `slice.indices`; for every slice
  form that carries bounds (`[a:b]`, `[a:]`, `[:b]`, `[:]`, `[a::]`, `[:b:]` — the grammar spells a step only as `[::k]`, without
  bounds) the selected elements are one contiguous segment of the list.
-/
import Sq.Prim
namespace Sq

/-- where a slice bound lands on a list of `n` elements: counted from the end when negative, clamped to `0 .. n` -/
def sliceBound (n : Nat) (x : Option Int) (dflt : Nat) : Nat :=
  match x with
  | none => dflt
  | some i => if i < 0 then (i + n).toNat else min i.toNat n

theorem sliceBound_le (n : Nat) (x : Option Int) (d : Nat) (hd : d ≤ n) : sliceBound n x d ≤ n := by
  unfold sliceBound
  cases x with
  | none => exact hd
  | some i => simp only; split <;> omega

/-- the bound `slice.indices` computes (step 1) is `sliceBound`, as an integer -/
theorem sliceBound_some (n : Nat) (x : Int) (d : Nat) :
    (if x < 0 then max (x + (n : Int)) 0 else min x (n : Int)) = ((sliceBound n (some x) d : Nat) : Int) := by
  unfold sliceBound
  simp only; split <;> omega

/-- picking `c` consecutive positions from `s` on is dropping `s` elements and taking `c` -/
theorem pick_consecutive {α : Type} (xs : List α) (s c : Nat) :
    pick xs ((List.range c).map (fun k => s + k)) = (xs.drop s).take c := by
  induction c with
  | zero => simp [pick]
  | succ c ih =>
    rw [List.range_succ, List.map_append, List.take_add_one]
    unfold pick at ih ⊢
    rw [List.filterMap_append, ih]
    congr 1
    rw [List.getElem?_drop]
    simp only [List.map_cons, List.map_nil, List.filterMap_cons, List.filterMap_nil]
    cases xs[s + c]? <;> rfl

/-- **`xs[a:b]` is a contiguous segment**: the elements from the (normalised, clamped) lower bound up to the upper bound,
    in order; empty when the bounds cross -/
theorem slice_is_segment {α : Type} (xs : List α) (a b : Option Int) :
    ∃ idx, sliceIndices xs.length a b none = .ok idx ∧
      pick xs idx = (xs.drop (sliceBound xs.length a 0)).take (sliceBound xs.length b xs.length - sliceBound xs.length a 0) := by
  refine ⟨(List.range (if ((sliceBound xs.length a 0 : Nat) : Int) < ((sliceBound xs.length b xs.length : Nat) : Int)
      then ((((sliceBound xs.length b xs.length : Nat) : Int) - ((sliceBound xs.length a 0 : Nat) : Int) - 1) / 1 + 1).toNat else 0)).map
      (fun (k : Nat) => (((sliceBound xs.length a 0 : Nat) : Int) + 1 * (k : Int)).toNat), ?_, ?_⟩
  · unfold sliceIndices
    simp only [Option.getD_none, show ¬ ((1 : Int) = 0) by decide, if_false, show ¬ ((1 : Int) < 0) by decide,
      show ((1 : Int) > 0) by decide, if_true]
    cases a <;> cases b <;> simp only [sliceBound_some _ _ 0] <;> rfl
  · generalize sliceBound xs.length a 0 = A
    generalize sliceBound xs.length b xs.length = B
    have hf : (fun (k : Nat) => ((A : Int) + 1 * (k : Int)).toNat) = (fun k => A + k) := by
      funext k; omega
    rw [hf, pick_consecutive]
    congr 1
    split <;> omega

theorem filterMap_congr' {α β : Type} (f g : α → Option β) (l : List α) (h : ∀ x, x ∈ l → f x = g x) :
    l.filterMap f = l.filterMap g := by
  induction l with
  | nil => rfl
  | cons a r ih =>
    simp only [List.filterMap_cons, h a (List.mem_cons_self ..)]
    rw [ih (fun x hx => h x (List.mem_cons_of_mem _ hx))]

theorem pick_reversed {α : Type} (xs : List α) :
    pick xs ((List.range xs.length).map (fun k => xs.length - 1 - k)) = xs.reverse := by
  have h2 := pick_consecutive xs.reverse 0 xs.length
  simp only [List.drop_zero, Nat.zero_add] at h2
  rw [List.take_of_length_le (by simp)] at h2
  rw [← h2]
  unfold pick
  rw [List.filterMap_map, List.filterMap_map]
  apply filterMap_congr'
  intro k hk
  have hk' : k < xs.length := List.mem_range.mp hk
  simp only [Function.comp]
  rw [List.getElem?_reverse hk']

/-- **`xs[::-1]` is `xs` reversed** -/
theorem slice_reverse {α : Type} (xs : List α) :
    ∃ idx, sliceIndices xs.length none none (some (-1)) = .ok idx ∧ pick xs idx = xs.reverse := by
  refine ⟨(List.range xs.length).map (fun k => xs.length - 1 - k), ?_, pick_reversed xs⟩
  unfold sliceIndices
  simp only [Option.getD_some, show ¬ ((-1 : Int) = 0) by decide, if_false, show ((-1 : Int) < 0) by decide, if_true,
    show ¬ ((-1 : Int) > 0) by decide]
  have hc : (if (xs.length : Int) - 1 > -1 then (((xs.length : Int) - 1 - -1 - 1) / - -1 + 1).toNat else 0) = xs.length := by
    have e : (- -1 : Int) = 1 := by decide
    rw [e, Int.ediv_one]
    split <;> omega
  have hf : (fun (k : Nat) => ((xs.length : Int) - 1 + -1 * (k : Int)).toNat) = (fun k => xs.length - 1 - k) := by
    funext k; omega
  rw [hc, hf]

end Sq
