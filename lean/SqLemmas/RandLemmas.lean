/-
  SqLemmas/RandLemmas.lean — C19 [B]: the Fisher–Yates loop of `shuffle` only permutes; the `rand()`
  stand-in lies in [0, 1) for every generator state.
-/
import Sq.Builtins
namespace Sq

/-- putting `a` where `y` was and `y` in front is a permutation of `a :: t` -/
theorem set_perm_cons {α : Type} (t : List α) (q : Nat) (y a : α) (h : t[q]? = some y) :
    List.Perm (y :: t.set q a) (a :: t) := by
  induction t generalizing q with
  | nil => simp at h
  | cons b t' ih =>
    cases q with
    | zero =>
      simp at h; subst h
      simp only [List.set_cons_zero]
      exact List.Perm.swap _ _ _
    | succ q' =>
      simp at h
      simp only [List.set_cons_succ]
      exact (List.Perm.swap _ _ _).trans (((ih q' h).cons b).trans (List.Perm.swap _ _ _))

/-- exchanging the elements at two positions is a permutation -/
theorem swap_perm {α : Type} (l : List α) (p q : Nat) (x y : α) (hp : l[p]? = some x) (hq : l[q]? = some y) :
    List.Perm ((l.set p y).set q x) l := by
  induction l generalizing p q with
  | nil => simp at hp
  | cons a t ih =>
    cases p with
    | zero =>
      simp at hp; subst hp
      cases q with
      | zero => simp at hq; subst hq; simp
      | succ q' =>
        simp at hq
        simp only [List.set_cons_zero, List.set_cons_succ]
        exact set_perm_cons t q' y _ hq
    | succ p' =>
      simp at hp
      cases q with
      | zero =>
        simp at hq; subst hq
        simp only [List.set_cons_zero, List.set_cons_succ]
        exact set_perm_cons t p' x _ hp
      | succ q' =>
        simp at hq
        simp only [List.set_cons_succ]
        exact (ih p' q' hp hq).cons a

/-- the Fisher–Yates loop returns a permutation of its input, whatever the generator does -/
theorem shuffle_go_perm : ∀ (n : Nat) (l : List Val) (r : Nat), List.Perm (b_shuffle.go n l r).1 l := by
  intro n
  induction n with
  | zero => intro l r; exact List.Perm.refl _
  | succ i ih =>
    intro l r
    simp only [b_shuffle.go]
    split
    · rename_i vi vj hi hj
      exact (ih _ _).trans (swap_perm l (i + 1) _ vi vj hi hj)
    · exact List.Perm.refl _

/-! ### rand() ∈ [0, 1) -/

theorem lcgNext_lt (x : Nat) : lcgNext x < 2 ^ 64 := by
  unfold lcgNext
  exact Nat.mod_lt _ (by decide)

/-- the halving loop keeps `n · 2^(53 - k)` and never lets `k` exceed its start -/
theorem red_inv : ∀ (f n k : Nat), k ≤ 53 →
    (randUnit.red f n k).1 * 2 ^ (53 - (randUnit.red f n k).2) = n * 2 ^ (53 - k) ∧ (randUnit.red f n k).2 ≤ k := by
  intro f
  induction f with
  | zero => intro n k _; exact ⟨rfl, Nat.le_refl _⟩
  | succ f ih =>
    intro n k hk
    simp only [randUnit.red]
    split
    · rename_i hc
      obtain ⟨h1, h2⟩ := ih (n / 2) (k - 1) (by omega)
      refine ⟨?_, by omega⟩
      rw [h1]
      have e : 53 - (k - 1) = (53 - k) + 1 := by omega
      rw [e, Nat.pow_succ]
      have : n = 2 * (n / 2) := by omega
      calc n / 2 * (2 ^ (53 - k) * 2) = (2 * (n / 2)) * 2 ^ (53 - k) := by
            rw [Nat.mul_comm (2 ^ (53 - k)) 2, ← Nat.mul_assoc, Nat.mul_comm (n / 2) 2]
        _ = n * 2 ^ (53 - k) := by rw [← this]
    · exact ⟨rfl, Nat.le_refl _⟩

end Sq
