/-
  SqLemmas/RandLemmas.lean — C19 [B]: the Fisher–Yates loop of `shuffle` only permutes; the `rand()`
  stand-in lies in [0, 1) for every generator state.
-/
import Sq.Builtins
namespace Sq

/-- putting `a` where `y` was and `y` in front is a permutation of `a :: t` -/
theorem set_perm_cons {α : Type} (t : List α) (q : Nat) (y a : α) (h : t[q]? = some y) :
    List.Perm (y :: t.set q a) (a :: t) := by
  induction t generalizing q with
  | nil => simp at h
  | cons b t' ih =>
    cases q with
    | zero =>
      simp at h; subst h
      simp only [List.set_cons_zero]
      exact List.Perm.swap _ _ _
    | succ q' =>
      simp at h
      simp only [List.set_cons_succ]
      exact (List.Perm.swap _ _ _).trans (((ih q' h).cons b).trans (List.Perm.swap _ _ _))

/-- exchanging the elements at two positions is a permutation -/
theorem swap_perm {α : Type} (l : List α) (p q : Nat) (x y : α) (hp : l[p]? = some x) (hq : l[q]? = some y) :
    List.Perm ((l.set p y).set q x) l := by
  induction l generalizing p q with
  | nil => simp at hp
  | cons a t ih =>
    cases p with
    | zero =>
      simp at hp; subst hp
      cases q with
      | zero => simp at hq; subst hq; simp
      | succ q' =>
        simp at hq
        simp only [List.set_cons_zero, List.set_cons_succ]
        exact set_perm_cons t q' y _ hq
    | succ p' =>
      simp at hp
      cases q with
      | zero =>
        simp at hq; subst hq
        simp only [List.set_cons_zero, List.set_cons_succ]
        exact set_perm_cons t p' x _ hp
      | succ q' =>
        simp at hq
        simp only [List.set_cons_succ]
        exact (ih p' q' hp hq).cons a

/-- the Fisher–Yates loop returns a permutation of its input, whatever the generator does -/
theorem shuffle_go_perm : ∀ (n : Nat) (l : List Val) (r : Nat), List.Perm (b_shuffle.go n l r).1 l := by
  intro n
  induction n with
  | zero => intro l r; exact List.Perm.refl _
  | succ i ih =>
    intro l r
    simp only [b_shuffle.go]
    split
    · rename_i vi vj hi hj
      exact (ih _ _).trans (swap_perm l (i + 1) _ vi vj hi hj)
    · exact List.Perm.refl _

/-! ### rand() ∈ [0, 1) -/

theorem lcgNext_lt (x : Nat) : lcgNext x < 2 ^ 64 := by
  unfold lcgNext
  exact Nat.mod_lt _ (by decide)

/-- the halving loop keeps `n · 2^(53 - k)` and never lets `k` exceed its start -/
theorem unitRed_inv : ∀ (f n k : Nat), k ≤ 53 →
    (unitRed f n k).1 * 2 ^ (53 - (unitRed f n k).2) = n * 2 ^ (53 - k) ∧ (unitRed f n k).2 ≤ k := by
  intro f
  induction f with
  | zero => intro n k _; exact ⟨rfl, Nat.le_refl _⟩
  | succ f ih =>
    intro n k hk
    simp only [unitRed]
    split
    · rename_i hc
      obtain ⟨h1, h2⟩ := ih (n / 2) (k - 1) (by omega)
      refine ⟨?_, by omega⟩
      rw [h1]
      have e : 53 - (k - 1) = (53 - k) + 1 := by omega
      rw [e, Nat.pow_succ]
      have : n = 2 * (n / 2) := by omega
      calc n / 2 * (2 ^ (53 - k) * 2) = (2 * (n / 2)) * 2 ^ (53 - k) := by
            rw [Nat.mul_comm (2 ^ (53 - k)) 2, ← Nat.mul_assoc, Nat.mul_comm (n / 2) 2]
        _ = n * 2 ^ (53 - k) := by rw [← this]
    · exact ⟨rfl, Nat.le_refl _⟩

theorem unitDec_range (x : Nat) (hx : x < 2 ^ 64) :
    ∃ (c k : Nat), unitDec x = { neg := false, coeff := c, exp := -(k : Int) } ∧ c < 10 ^ k := by
  unfold unitDec
  by_cases hm : x / 2048 = 0
  · simp only [hm, if_true]
    exact ⟨0 * 5 ^ 0, 0, rfl, by decide⟩
  · simp only [hm, if_false]
    obtain ⟨h1, h2⟩ := unitRed_inv 53 (x / 2048) 53 (Nat.le_refl _)
    generalize unitRed 53 (x / 2048) 53 = r at h1 h2
    obtain ⟨n, k⟩ := r
    refine ⟨n * 5 ^ k, k, rfl, ?_⟩
    simp only at h1 h2
    have hmlt : x / 2048 < 2 ^ 53 := by
      have e : (2 : Nat) ^ 64 = 2 ^ 53 * 2048 := by rfl
      rw [e] at hx
      exact Nat.div_lt_of_lt_mul (by rw [Nat.mul_comm]; exact hx)
    rw [Nat.sub_self, Nat.pow_zero, Nat.mul_one] at h1
    have hn : n < 2 ^ k := by
      have hpow : 2 ^ 53 = 2 ^ k * 2 ^ (53 - k) := by rw [← Nat.pow_add]; congr 1; omega
      rw [← h1, hpow] at hmlt
      exact Nat.lt_of_mul_lt_mul_right hmlt
    have : (10 : Nat) ^ k = 2 ^ k * 5 ^ k := by rw [← Nat.mul_pow]
    rw [this]
    exact Nat.mul_lt_mul_of_pos_right hn (Nat.pow_pos (by decide))

/-- **rand() ∈ [0, 1)** for every generator state: the result is the non-negative decimal
    `coeff · 10^(-k)` with `coeff < 10^k` -/
theorem randUnit_range (s : BState) :
    ∃ (c k : Nat) (s' : BState), randUnit s = .ok (.dec { neg := false, coeff := c, exp := -(k : Int) } true, s') ∧
      c < 10 ^ k ∧ s'.heap = s.heap := by
  obtain ⟨c, k, he, hlt⟩ := unitDec_range (lcgNext s.rng) (lcgNext_lt s.rng)
  refine ⟨c, k, { s with rng := lcgNext s.rng }, ?_, hlt, rfl⟩
  unfold randUnit
  simp only [ret]
  rw [he]

end Sq
