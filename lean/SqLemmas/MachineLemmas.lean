/-
  SqLemmas/MachineLemmas.lean — invariants of the evaluator machine used by the property files:
  the op counters move only in the charge step; an error passes every frame except `tryK`.
-/
import Sq.Machine
namespace Sq

/-- the op counters of all VM states -/
def opsOf (w : World) : List Nat := w.vms.map (·.ops)

theorem opsOf_setVM_scopes (w : World) (i : Nat) (vm : VM) (sc : List Nat) (h : w.vm? i = some vm) :
    opsOf (w.setVM i { vm with scopes := sc }) = opsOf w := by
  unfold opsOf World.setVM World.vm? at *
  simp only [List.map_set]
  apply List.ext_getElem?
  intro j
  by_cases hij : i = j
  · subst hij
    have hlt : i < w.vms.length := (List.getElem?_eq_some_iff.mp h).1
    have hv : w.vms[i] = vm := (List.getElem?_eq_some_iff.mp h).2
    simp [List.getElem?_set, hlt, hv]
  · simp [List.getElem?_set, hij]

theorem ofBR_ops (r : BR) (k : List Frame) (w : World) : opsOf (ofBR r k w).w = opsOf w := by
  unfold ofBR
  split <;> rfl

theorem sortFinish_ops (keys items : List Val) (rev dm : Bool) (k : List Frame) (w : World) :
    opsOf (sortFinish keys items rev dm k w).w = opsOf w := by
  unfold sortFinish
  split
  · rfl
  · split <;> rfl

/-- an iteration continuation that leaves the op counters alone -/
def IterOps (it : IterFn) : Prop := ∀ kind g src acc k w, opsOf (it kind g src acc k w).w = opsOf w

theorem callClosure_ops (ps : List Op) (body : Op) (vmi : Nat) (args : List Val) (k : List Frame) (w : World) :
    opsOf (callClosure ps body vmi args k w).w = opsOf w := by
  unfold callClosure
  split
  · rfl
  · split
    · rfl
    · rename_i vm hv
      simp only [Heap.alloc]
      exact opsOf_setVM_scopes { w with heap := _ } vmi vm _ hv

theorem callMap_ops (it : IterFn) (hit : IterOps it) (args : List Val) (k : List Frame) (w : World) :
    opsOf (callMap it args k w).w = opsOf w := by
  unfold callMap
  split
  · split
    · exact hit _ _ _ _ _ _
    · split
      · exact hit _ _ _ _ _ _
      · exact hit _ _ _ _ _ _
      · rfl
    · rfl
    · rfl
  · rfl

theorem callFilter_ops (it : IterFn) (hit : IterOps it) (args : List Val) (k : List Frame) (w : World) :
    opsOf (callFilter it args k w).w = opsOf w := by
  unfold callFilter
  split
  · split
    · split <;> rfl
    · rfl
    · rfl
  · split
    · split
      · exact hit _ _ _ _ _ _
      · rfl
    · rfl
    · rfl
  · rfl

theorem callReduce_ops (it : IterFn) (hit : IterOps it) (args : List Val) (k : List Frame) (w : World) :
    opsOf (callReduce it args k w).w = opsOf w := by
  unfold callReduce
  split
  · split
    · rfl
    · split
      · rfl
      · rfl
      · rfl
      · exact hit _ _ _ _ _ _
  · rfl

theorem callSorted_ops (it : IterFn) (hit : IterOps it) (args : List Val) (k : List Frame) (w : World) :
    opsOf (callSorted it args k w).w = opsOf w := by
  unfold callSorted
  split
  · split
    · rfl
    · simp only []
      split
      · rfl
      · rfl
      · split
        · exact sortFinish_ops _ _ _ _ _ _
        · rfl
        · split
          · exact hit _ _ _ _ _ _
          · split
            · exact sortFinish_ops _ _ _ _ _ _
            · rfl
  · rfl

theorem callProbe_ops (args : List Val) (k : List Frame) (w : World) : opsOf (callProbe args k w).w = opsOf w := by
  unfold callProbe
  split
  · simp only []
    split <;> rfl
  · rfl

/-- calling any function value, and continuing any iteration, never moves an op counter:
    the callee's body is charged later, when the machine reaches its `ev` steps -/
theorem call_ops : ∀ (fuel : Nat),
    (∀ f args k w, opsOf (callVal fuel f args k w).w = opsOf w) ∧ IterOps (iterNext fuel) := by
  intro fuel
  induction fuel with
  | zero => exact ⟨fun _ _ _ _ => rfl, fun _ _ _ _ _ _ => rfl⟩
  | succ fuel ih =>
    obtain ⟨ihc, ihi⟩ := ih
    constructor
    · intro f args k w
      unfold callVal
      split
      · exact callClosure_ops _ _ _ _ _ _
      · split
        · exact callMap_ops _ ihi _ _ _
        · split
          · rfl
          · split
            · exact callFilter_ops _ ihi _ _ _
            · split
              · exact callReduce_ops _ ihi _ _ _
              · split
                · exact callSorted_ops _ ihi _ _ _
                · exact ofBR_ops _ _ _
      · split
        · exact callProbe_ops _ _ _
        · split
          · split
            · exact ihc _ _ _ _
            · rfl
          · split
            · split
              · exact ihc _ _ _ _
              · rfl
            · rfl
      · rfl
      · rfl
    · intro kind g src acc k w
      unfold iterNext
      split
      · exact ihc _ _ _ _
      · split
        · rfl
        · rfl
        · rfl
        · exact sortFinish_ops _ _ _ _ _ _

theorem doCall_ops (n : Name) (args : List Val) (vmi : Nat) (k : List Frame) (w : World) :
    opsOf (doCall n args vmi k w).w = opsOf w := by
  unfold doCall
  split
  · rfl
  · split
    · rfl
    · exact (call_ops callFuel).1 _ _ _ _

/-- dispatching on a node kind moves no op counter -/
theorem enter_ops (op : Op) (vmi : Nat) (k : List Frame) (w : World) : opsOf (enter op vmi k w).w = opsOf w := by
  unfold enter
  split <;> first | rfl | (split <;> first | rfl | (split <;> rfl)) | exact doCall_ops _ _ _ _ _

theorem opsOf_heap (w : World) (h : Heap) : opsOf { w with heap := h } = opsOf w := rfl

theorem map_ops {α : Type} (e : R α) (f : α → Val × World) (w : World) (r : Val) (w' : World)
    (hf : ∀ x, opsOf (f x).2 = opsOf w) (h : e.map f = .ok (r, w')) : opsOf w' = opsOf w := by
  cases e with
  | error e => simp [Except.map] at h
  | ok x =>
    simp [Except.map] at h
    have := hf x
    rw [h] at this
    exact this

/-- applying a binary operator may allocate (list `+`) but moves no op counter -/
theorem applyBin_ops (w : World) (bk : BinK) (a b r : Val) (w' : World)
    (h : applyBin w bk a b = .ok (r, w')) : opsOf w' = opsOf w := by
  unfold applyBin at h
  cases bk <;> simp only [] at h
  · -- add
    split at h
    · simp at h
    · exact map_ops _ _ w r w' (fun _ => rfl) h
  · exact map_ops _ _ w r w' (fun _ => rfl) h
  · -- mul
    split at h
    · split at h <;> simp [U] at h
    · split at h
      · exact map_ops _ _ w r w' (fun _ => rfl) h
      · simp [U] at h
  · -- pow
    split at h
    · simp at h
    · split at h
      · simp at h
      · exact map_ops _ _ w r w' (fun _ => rfl) h
  all_goals first
    | exact map_ops _ _ w r w' (fun _ => rfl) h
    | (simp [U] at h)

/-- a value returned to a frame moves no op counter -/
theorem resume_ops (fr : Frame) (v : Val) (k : List Frame) (w : World) : opsOf (resume fr v k w).w = opsOf w := by
  cases fr with
  | codeK rest vm => cases rest <;> rfl
  | binL bk b vm =>
    unfold resume
    cases bk <;> simp only [] <;> first | rfl | (split <;> rfl)
  | binR bk va =>
    unfold resume
    simp only []
    split
    · rename_i r w' happ
      exact applyBin_ops w bk va v r w' happ
    · rfl
  | unK uk =>
    unfold resume
    simp only []
    split <;> rfl
  | assignK n vm =>
    unfold resume
    simp only []
    split
    · rfl
    · split
      · rfl
      · split <;> rfl
  | shortK n sk vm =>
    unfold resume
    simp only []
    split
    · rfl
    · split
      · rfl
      · split
        · rfl
        · split
          · rfl
          · split <;> rfl
  | ifK a b vm =>
    unfold resume
    simp only []
    split <;> rfl
  | sliceK done todo vm =>
    unfold resume
    simp only []
    split
    · rfl
    · split
      · rfl
      · split <;> rfl
  | argsK n done todo vm =>
    unfold resume
    simp only []
    split
    · rfl
    · exact doCall_ops _ _ _ _ _
  | dictK done todo vm =>
    unfold resume
    simp only []
    split
    · rfl
    · split <;> rfl
  | popScopeK vm =>
    unfold resume
    simp only []
    split
    · rfl
    · rename_i vmv hv
      exact opsOf_setVM_scopes w vm vmv _ hv
  | iterK kind g src cur acc =>
    unfold resume
    simp only []
    exact (call_ops callFuel).2 _ _ _ _ _ _
  | tryK => rfl
  | astK n rest main vm =>
    unfold resume
    simp only []
    split
    · rfl
    · split
      · rfl
      · split <;> rfl

/-- an error passing a frame moves no op counter -/
theorem unwind_ops (fr : Frame) (e : PyErr) (k : List Frame) (w : World) : opsOf (unwind fr e k w).w = opsOf w := by
  unfold unwind
  split
  · split
    · rfl
    · rename_i vmv hv
      exact opsOf_setVM_scopes w _ vmv _ hv
  · split <;> rfl
  · rfl

end Sq
