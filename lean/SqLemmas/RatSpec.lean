/-
  SqLemmas/RatSpec.lean — C08 [B]: the arithmetic of the model stated against ℚ.
  `toRat d = (-1)^neg · coeff · 10^exp` is the rational a decimal denotes.  The exact intermediate results denote the exact
  sum / product / quotient (`addExact_toRat`, `mulExact_toRat`, `toRat_div`, `divPre_exact_toRat`), `fix` moves the value by at
  most half a unit of the result's last place (`fix_half_ulp`), hence `+ - * /` return the real result rounded once
  (`add_half_ulp` … `div_half_ulp`), and the comparisons are the order of ℚ (`cmp_toRat`).
  This is the only file of the library that imports Mathlib modules (field_simp / linarith / ordered-field lemmas over ℚ);
  the model (lean/Sq) stays import-free.
-/
import Sq.Dec
import SqLemmas.DivLemmas
import SqLemmas.FixLemmas
import SqLemmas.QuantLemmas
import Mathlib.Tactic.FieldSimp
import Mathlib.Tactic.Ring
import Mathlib.Tactic.Linarith
import Mathlib.Tactic.Positivity
import Mathlib.Tactic.NormNum
import Mathlib.Tactic.Push
import Mathlib.Algebra.Order.Field.Rat
import Mathlib.Algebra.Order.Field.Power
namespace Sq.Dec

/-- the sign factor -/
def sgn (neg : Bool) : ℚ := if neg then -1 else 1

/-- the rational number a decimal denotes: (-1)^neg · coeff · 10^exp -/
def toRat (d : Dec) : ℚ := sgn d.neg * (d.coeff : ℚ) * (10 : ℚ) ^ d.exp

theorem sgn_abs (n : Bool) : |sgn n| = 1 := by cases n <;> simp [sgn]
theorem sgn_xor (a b : Bool) : sgn (a != b) = sgn a * sgn b := by cases a <;> cases b <;> simp [sgn]
theorem sgn_not (a : Bool) : sgn (!a) = - sgn a := by cases a <;> simp [sgn]

theorem ten_ne : (10 : ℚ) ≠ 0 := by norm_num
theorem zpow10_pos (e : Int) : (0 : ℚ) < 10 ^ e := by positivity

/-- moving `j` places: c · 10^(e + j) = (c · 10^j) · 10^e -/
theorem zpow_add_nat (e : Int) (j : Nat) : (10 : ℚ) ^ (e + j) = 10 ^ j * 10 ^ e := by
  rw [zpow_add₀ ten_ne, zpow_natCast, mul_comm]

theorem mulExact_toRat (a b : Dec) : (mulExact a b).toRat = a.toRat * b.toRat := by
  simp only [toRat, mulExact, sgn_xor, Nat.cast_mul, zpow_add₀ ten_ne]
  ring

theorem negate_toRat (a : Dec) : (negate a).toRat = - a.toRat := by
  simp only [toRat, negate, sgn_not]; ring

/-- scaling to a lower exponent keeps the value -/
theorem scaled_toRat (neg : Bool) (c : Nat) (x e : Int) (h : e ≤ x) :
    (((if neg then -1 else 1) * ((c * 10 ^ (x - e).toNat : Nat) : Int) : Int) : ℚ) * 10 ^ e = sgn neg * c * 10 ^ x := by
  obtain ⟨j, hj⟩ : ∃ j : Nat, x = e + j := ⟨(x - e).toNat, by omega⟩
  subst hj
  have : (e + (j : Int) - e).toNat = j := by omega
  rw [this, zpow_add_nat]
  cases neg <;> simp [sgn] <;> ring

theorem addExact_toRat (a b : Dec) : (addExact a b).toRat = a.toRat + b.toRat := by
  have ha := scaled_toRat a.neg a.coeff a.exp (min a.exp b.exp) (min_le_left _ _)
  have hb := scaled_toRat b.neg b.coeff b.exp (min a.exp b.exp) (min_le_right _ _)
  unfold addExact
  simp only []
  generalize ((if a.neg then -1 else 1) * ((a.coeff * 10 ^ (a.exp - min a.exp b.exp).toNat : Nat) : Int)) = ca at *
  generalize ((if b.neg then -1 else 1) * ((b.coeff * 10 ^ (b.exp - min a.exp b.exp).toNat : Nat) : Int)) = cb at *
  unfold toRat at *
  rw [← ha, ← hb, ← add_mul]
  split
  · rename_i h0
    have : ((ca : ℚ) + cb) = 0 := by exact_mod_cast h0
    simp [this]
  · rename_i hne
    simp only []
    congr 1
    by_cases hneg : ca + cb < 0
    · simp only [hneg, decide_true, sgn, if_true]
      have : ((ca + cb).natAbs : ℚ) = -((ca + cb : Int) : ℚ) := by
        rw [Nat.cast_natAbs, abs_of_neg hneg]; push_cast; ring
      rw [this]; push_cast; ring
    · simp only [hneg, decide_false, sgn]
      have : ((ca + cb).natAbs : ℚ) = ((ca + cb : Int) : ℚ) := by
        rw [Nat.cast_natAbs, abs_of_nonneg (by omega)]
      rw [this]; push_cast; simp

theorem toRat_zero (d : Dec) (h : d.coeff = 0) : d.toRat = 0 := by simp [toRat, h]

/-- **`fix` in ℚ**: the result differs from the exact argument by at most half a unit of its own last place -/
theorem fix_half_ulp (d r : Dec) (h : fix d = .ok r) : |r.toRat - d.toRat| ≤ (1 / 2) * 10 ^ r.exp := by
  by_cases hnz : d.coeff = 0
  · have hr : r.coeff = 0 := by
      unfold fix at h; simp only [hnz, if_true] at h
      cases h; rfl
    rw [toRat_zero d hnz, toRat_zero r hr]; simp; positivity
  · obtain ⟨hs, j, he, ⟨h1, h2⟩, _⟩ := fix_nearest d r h hnz
    unfold toRat
    rw [hs, he, zpow_add_nat]
    have e : sgn d.neg * (r.coeff : ℚ) * (10 ^ j * 10 ^ d.exp) - sgn d.neg * (d.coeff : ℚ) * 10 ^ d.exp
        = sgn d.neg * (((r.coeff : ℚ) * 10 ^ j - d.coeff) * 10 ^ d.exp) := by ring
    rw [e, abs_mul, sgn_abs, one_mul, abs_mul, abs_of_pos (zpow10_pos d.exp)]
    have hq1 : (2 : ℚ) * d.coeff ≤ 2 * (r.coeff * 10 ^ j) + 10 ^ j := by exact_mod_cast h1
    have hq2 : (2 : ℚ) * (r.coeff * 10 ^ j) ≤ 2 * d.coeff + 10 ^ j := by exact_mod_cast h2
    have : |(r.coeff : ℚ) * 10 ^ j - d.coeff| ≤ (1 / 2) * 10 ^ j := by
      rw [abs_le]; constructor <;> linarith
    calc |(r.coeff : ℚ) * 10 ^ j - d.coeff| * 10 ^ d.exp ≤ ((1 / 2) * 10 ^ j) * 10 ^ d.exp :=
          mul_le_mul_of_nonneg_right this (le_of_lt (zpow10_pos _))
      _ = 1 / 2 * (10 ^ j * 10 ^ d.exp) := by ring

/-- **`+`, `-`, `*` in ℚ**: the result is the real sum / difference / product, rounded once, to within half an ulp -/
theorem add_half_ulp (a b r : Dec) (h : Dec.add a b = .ok r) : |r.toRat - (a.toRat + b.toRat)| ≤ (1 / 2) * 10 ^ r.exp := by
  rw [← addExact_toRat]; exact fix_half_ulp _ r h
theorem sub_half_ulp (a b r : Dec) (h : Dec.sub a b = .ok r) : |r.toRat - (a.toRat - b.toRat)| ≤ (1 / 2) * 10 ^ r.exp := by
  have : a.toRat - b.toRat = (addExact a (negate b)).toRat := by rw [addExact_toRat, negate_toRat]; ring
  rw [this]; exact fix_half_ulp _ r h
theorem mul_half_ulp (a b r : Dec) (h : Dec.mul a b = .ok r) : |r.toRat - a.toRat * b.toRat| ≤ (1 / 2) * 10 ^ r.exp := by
  rw [← mulExact_toRat]; exact fix_half_ulp _ r h

/-- `a / b = ± (divNum / divDen) · 10^divExp`: the scaled integers `__truediv__` divides denote the true quotient -/
theorem toRat_div (a b : Dec) (hb : b.coeff ≠ 0) :
    a.toRat / b.toRat = sgn (a.neg != b.neg) * ((divNum a b : ℚ) / (divDen a b : ℚ)) * (10 : ℚ) ^ (divExp a b) := by
  have hb' : (b.coeff : ℚ) ≠ 0 := by exact_mod_cast hb
  have h10 := ten_ne
  have hsb : sgn b.neg ≠ 0 := by cases b.neg <;> simp [sgn]
  have hss : sgn a.neg / sgn b.neg = sgn a.neg * sgn b.neg := by cases a.neg <;> cases b.neg <;> simp [sgn]
  have key : ((a.coeff : ℚ) * (10:ℚ) ^ a.exp) / ((b.coeff : ℚ) * (10:ℚ) ^ b.exp) =
      ((divNum a b : ℚ) / (divDen a b : ℚ)) * (10:ℚ) ^ (divExp a b) := by
    unfold divNum divDen divExp
    by_cases h : divShift a b ≥ 0
    · simp only [h, if_true]
      obtain ⟨n, hn⟩ := Int.eq_ofNat_of_zero_le h
      rw [hn]
      simp only [Int.toNat_natCast, Nat.cast_mul, Nat.cast_pow, Nat.cast_ofNat]
      rw [zpow_sub₀ h10, zpow_sub₀ h10, zpow_natCast]
      field_simp
    · simp only [h, if_false]
      have : ∃ n : Nat, divShift a b = -(n : Int) := ⟨(-(divShift a b)).toNat, by omega⟩
      obtain ⟨n, hn⟩ := this
      rw [hn]
      simp only [neg_neg, Int.toNat_natCast, Nat.cast_mul, Nat.cast_pow, Nat.cast_ofNat]
      rw [sub_neg_eq_add, zpow_add₀ h10, zpow_sub₀ h10, zpow_natCast]
      field_simp
  unfold toRat
  rw [sgn_xor, ← hss]
  rw [show sgn a.neg * (a.coeff : ℚ) * 10 ^ a.exp / (sgn b.neg * (b.coeff : ℚ) * 10 ^ b.exp)
      = (sgn a.neg / sgn b.neg) * (((a.coeff : ℚ) * 10 ^ a.exp) / ((b.coeff : ℚ) * 10 ^ b.exp)) by field_simp]
  rw [key]; ring

/-- `roundRat n d` is within ½ of the rational `n / d` -/
theorem roundRat_half (n d : Nat) (hd : 0 < d) : |(roundRat n d : ℚ) - (n : ℚ) / d| ≤ 1 / 2 := by
  obtain ⟨⟨h1, h2⟩, _⟩ := roundRat_nearest n d hd
  have hdq : (0 : ℚ) < d := by exact_mod_cast hd
  have q1 : (2 : ℚ) * n ≤ 2 * (roundRat n d * d) + d := by exact_mod_cast h1
  have q2 : (2 : ℚ) * (roundRat n d * d) ≤ 2 * n + d := by exact_mod_cast h2
  have hn : (n : ℚ) = ((n : ℚ) / d) * d := by field_simp
  generalize (n : ℚ) / d = x at *
  rw [hn] at q1 q2
  have a1 : (2 * x) * d ≤ (2 * (roundRat n d : ℚ) + 1) * d := by linarith
  have a2 : (2 * (roundRat n d : ℚ)) * d ≤ (2 * x + 1) * d := by linarith
  have b1 := le_of_mul_le_mul_right a1 hdq
  have b2 := le_of_mul_le_mul_right a2 hdq
  rw [abs_le]; constructor <;> linarith

theorem stripTo_value (fuel c : Nat) (e ideal : Int) :
    ((stripTo fuel c e ideal).1 : ℚ) * 10 ^ (stripTo fuel c e ideal).2 = (c : ℚ) * 10 ^ e := by
  induction fuel generalizing c e with
  | zero => rfl
  | succ n ih =>
    unfold stripTo
    split
    · rename_i h
      rw [ih]
      have hc : c = 10 * (c / 10) := by omega
      have : (c : ℚ) = 10 * ((c / 10 : Nat) : ℚ) := by exact_mod_cast hc
      rw [this, zpow_add₀ ten_ne]
      simp only [zpow_one]; ring
    · rfl

/-- the number `divPre` hands to `fix` for an EXACT division denotes the true quotient -/
theorem divPre_exact_toRat (a b : Dec) (hb : b.coeff ≠ 0) (hr : a.coeff = 0 ∨ divNum a b % divDen a b = 0) :
    (divPre a b).toRat = a.toRat / b.toRat := by
  by_cases ha : a.coeff = 0
  · unfold divPre
    simp only [ha, if_true]
    simp [toRat, ha]
  · have hr : divNum a b % divDen a b = 0 := hr.resolve_left ha
    rw [toRat_div a b hb]
    have hden := divDen_pos a b hb
    have hq : ((divNum a b : ℚ) / (divDen a b : ℚ)) = ((divNum a b / divDen a b : Nat) : ℚ) := by
      have hd : divNum a b = divDen a b * (divNum a b / divDen a b) := by
        have := Nat.div_add_mod (divNum a b) (divDen a b); omega
      have hdq : (divDen a b : ℚ) ≠ 0 := by exact_mod_cast (Nat.pos_iff_ne_zero.mp hden)
      rw [div_eq_iff hdq]
      exact_mod_cast (by rw [Nat.mul_comm]; exact hd)
    rw [hq]
    have e1 : (if (ndigits b.coeff : Int) - (ndigits a.coeff : Int) + prec + 1 ≥ 0
        then a.coeff * 10 ^ ((ndigits b.coeff : Int) - (ndigits a.coeff : Int) + prec + 1).toNat else a.coeff) = divNum a b := rfl
    have e2 : (if (ndigits b.coeff : Int) - (ndigits a.coeff : Int) + prec + 1 ≥ 0
        then b.coeff else b.coeff * 10 ^ (-((ndigits b.coeff : Int) - (ndigits a.coeff : Int) + prec + 1)).toNat) = divDen a b := rfl
    have e3 : a.exp - b.exp - ((ndigits b.coeff : Int) - (ndigits a.coeff : Int) + prec + 1) = divExp a b := rfl
    unfold divPre
    simp only [ha, if_false, e1, e2, e3, hr, ne_eq, not_true_eq_false]
    unfold toRat
    simp only []
    rw [mul_assoc, mul_assoc, stripTo_value]

/-- rounding the quotient at digit position `k` of exponent `E`: within half a unit of that place -/
theorem round_at_place (sg : Bool) (N D k : Nat) (E : Int) (hD : 0 < D) :
    |sgn sg * (roundRat N (D * 10 ^ k) : ℚ) * 10 ^ (E + k) - sgn sg * ((N : ℚ) / D) * 10 ^ E| ≤ (1 / 2) * 10 ^ (E + k) := by
  have hp : 0 < D * 10 ^ k := Nat.mul_pos hD (Nat.pow_pos (by decide))
  have hh := roundRat_half N (D * 10 ^ k) hp
  have hDq : (D : ℚ) ≠ 0 := by exact_mod_cast (Nat.pos_iff_ne_zero.mp hD)
  have hk : ((10 : ℚ) ^ k) ≠ 0 := by positivity
  have e : sgn sg * (roundRat N (D * 10 ^ k) : ℚ) * 10 ^ (E + k) - sgn sg * ((N : ℚ) / D) * 10 ^ E
      = sgn sg * (((roundRat N (D * 10 ^ k) : ℚ) - (N : ℚ) / ((D * 10 ^ k : Nat) : ℚ)) * 10 ^ (E + k)) := by
    rw [zpow_add_nat]; push_cast; field_simp
  rw [e, abs_mul, sgn_abs, one_mul, abs_mul, abs_of_pos (zpow10_pos _)]
  exact mul_le_mul_of_nonneg_right hh (le_of_lt (zpow10_pos _))

/-- **`/` in ℚ**: whenever `a / b` returns `r`, `r` is within half a unit of its last place of the TRUE quotient -/
theorem div_half_ulp (a b r : Dec) (h : Dec.div a b = .ok r) : |r.toRat - a.toRat / b.toRat| ≤ (1 / 2) * 10 ^ r.exp := by
  have hb : b.coeff ≠ 0 := by
    intro hb; unfold Dec.div at h; simp only [hb, if_true] at h; split at h <;> cases h
  by_cases hex : a.coeff = 0 ∨ divNum a b % divDen a b = 0
  · rw [← divPre_exact_toRat a b hb hex]
    unfold Dec.div at h; simp only [hb, if_false] at h
    exact fix_half_ulp _ r h
  · have ha : a.coeff ≠ 0 := fun h0 => hex (Or.inl h0)
    have hr : divNum a b % divDen a b ≠ 0 := fun h0 => hex (Or.inr h0)
    obtain ⟨hs, k, hk, hc⟩ := div_correctly_rounded a b r ha hb hr h
    have hden := divDen_pos a b hb
    rw [toRat_div a b hb]
    rcases hc with ⟨hco, hexp, _⟩ | ⟨hR, hco, hexp⟩
    · unfold toRat; rw [hs, hco, hexp]
      exact round_at_place _ _ _ k _ hden
    · have hb2 := round_at_place (a.neg != b.neg) (divNum a b) (divDen a b) k (divExp a b) hden
      rw [hR] at hb2
      have ev : r.toRat = sgn (a.neg != b.neg) * ((10 ^ 28 : Nat) : ℚ) * 10 ^ (divExp a b + k) := by
        unfold toRat; rw [hs, hco, hexp, zpow_add₀ ten_ne]; push_cast; ring
      rw [ev]
      refine le_trans hb2 ?_
      rw [hexp, zpow_add₀ ten_ne (divExp a b + k) 1]
      have := zpow10_pos (divExp a b + k)
      simp only [zpow_one]; linarith

/-- **comparisons in ℚ**: `<`, `==`, `<=` on decimals are the order of the denoted rationals -/
theorem cmp_toRat (a b : Dec) :
    (Dec.lt a b = true ↔ a.toRat < b.toRat) ∧ (Dec.eq a b = true ↔ a.toRat = b.toRat) ∧ (Dec.le a b = true ↔ a.toRat ≤ b.toRat) := by
  have ha := scaled_toRat a.neg a.coeff a.exp (min a.exp b.exp) (min_le_left _ _)
  have hb := scaled_toRat b.neg b.coeff b.exp (min a.exp b.exp) (min_le_right _ _)
  unfold Dec.lt Dec.eq Dec.le cmp
  simp only []
  generalize ((if a.neg then -1 else 1) * ((a.coeff * 10 ^ (a.exp - min a.exp b.exp).toNat : Nat) : Int)) = ca at *
  generalize ((if b.neg then -1 else 1) * ((b.coeff * 10 ^ (b.exp - min a.exp b.exp).toNat : Nat) : Int)) = cb at *
  unfold toRat
  rw [← ha, ← hb]
  have hp := zpow10_pos (min a.exp b.exp)
  have l1 : (ca : ℚ) * 10 ^ min a.exp b.exp < cb * 10 ^ min a.exp b.exp ↔ ca < cb := by
    rw [mul_lt_mul_iff_left₀ hp]; exact Int.cast_lt
  have l2 : (ca : ℚ) * 10 ^ min a.exp b.exp = cb * 10 ^ min a.exp b.exp ↔ ca = cb := by
    rw [mul_left_inj' (ne_of_gt hp)]; exact Int.cast_inj
  have l3 : (ca : ℚ) * 10 ^ min a.exp b.exp ≤ cb * 10 ^ min a.exp b.exp ↔ ca ≤ cb := by
    rw [mul_le_mul_iff_left₀ hp]; exact Int.cast_le
  rw [l1, l2, l3]
  refine ⟨?_, ?_, ?_⟩
  · rw [beq_iff_eq, Int.compare_eq_lt]
  · rw [beq_iff_eq, Int.compare_eq_eq]
  · rw [bne_iff_ne, ne_eq, Int.compare_eq_gt]; omega

/-- **half-even rescaling in ℚ**: the result has exactly the exponent asked for, differs from the argument by at most
    half a unit of that place, and is the argument itself when no digit has to go -/
theorem rescale_half_ulp (a : Dec) (e : Int) :
    |(rescale a e .halfEven).toRat - a.toRat| ≤ (1 / 2) * 10 ^ e ∧ (e ≤ a.exp → (rescale a e .halfEven).toRat = a.toRat) := by
  obtain ⟨hs, he, hc⟩ := rescale_cases a e
  generalize rescale a e .halfEven = r at hs he hc
  rcases hc with ⟨hz, hrz⟩ | ⟨_, hge, hco⟩ | ⟨_, hlt, hco⟩
  · rw [toRat_zero a hz, toRat_zero r hrz]
    refine ⟨?_, fun _ => rfl⟩
    simp; positivity
  · have hexp : a.exp = e + ((a.exp - e).toNat : Nat) := by omega
    have heq : r.toRat = a.toRat := by
      unfold toRat
      rw [hs, he, hco]
      conv_rhs => rw [hexp, zpow_add_nat]
      push_cast; ring
    refine ⟨?_, fun _ => heq⟩
    rw [heq]; simp; positivity
  · have hexp : e = a.exp + ((e - a.exp).toNat : Nat) := by omega
    refine ⟨?_, fun hle => absurd hle (by omega)⟩
    generalize hj : (e - a.exp).toNat = j at hexp hco
    obtain ⟨⟨h1, h2⟩, _⟩ := roundDiv_nearest a.neg a.coeff j
    rw [← hco] at h1 h2
    unfold toRat
    rw [hs, he]
    conv_lhs => rw [hexp, zpow_add_nat]
    conv_rhs => rw [hexp, zpow_add_nat]
    have e1 : sgn a.neg * (r.coeff : ℚ) * (10 ^ j * 10 ^ a.exp) - sgn a.neg * (a.coeff : ℚ) * 10 ^ a.exp
        = sgn a.neg * (((r.coeff : ℚ) * 10 ^ j - a.coeff) * 10 ^ a.exp) := by ring
    rw [e1, abs_mul, sgn_abs, one_mul, abs_mul, abs_of_pos (zpow10_pos a.exp)]
    have hq1 : (2 : ℚ) * a.coeff ≤ 2 * (r.coeff * 10 ^ j) + 10 ^ j := by exact_mod_cast h1
    have hq2 : (2 : ℚ) * (r.coeff * 10 ^ j) ≤ 2 * a.coeff + 10 ^ j := by exact_mod_cast h2
    have : |(r.coeff : ℚ) * 10 ^ j - a.coeff| ≤ (1 / 2) * 10 ^ j := by
      rw [abs_le]; constructor <;> linarith
    calc |(r.coeff : ℚ) * 10 ^ j - a.coeff| * 10 ^ a.exp ≤ ((1 / 2) * 10 ^ j) * 10 ^ a.exp :=
          mul_le_mul_of_nonneg_right this (le_of_lt (zpow10_pos _))
      _ = 1 / 2 * (10 ^ j * 10 ^ a.exp) := by ring

/-- **rounding to a number of places in ℚ** (`round(x, n)` is `quantize x (-n)`) -/
theorem quantize_half_ulp (a r : Dec) (e : Int) (h : quantize a e = .ok r) :
    r.exp = e ∧ |r.toRat - a.toRat| ≤ (1 / 2) * 10 ^ e ∧ (e ≤ a.exp → r.toRat = a.toRat) := by
  rw [quantize_is_rescale a r e h]
  exact ⟨(rescale_cases a e).2.1, rescale_half_ulp a e⟩

/-- the integer an exponent-0 decimal denotes -/
theorem toInt_exp0 (d : Dec) (h : d.exp = 0) : ((toInt d : Int) : ℚ) = d.toRat := by
  unfold toInt toRat
  simp only [h, ge_iff_le, le_refl, if_true, Int.toNat_zero, pow_zero, mul_one, zpow_zero]
  cases d.neg <;> simp [sgn]

/-- **one-argument `round` in ℚ** (`int(x._rescale(0, half-even))`): the integer returned is within 1/2 of the argument -/
theorem toIntRound_half (a : Dec) : |((toIntRound a .halfEven : Int) : ℚ) - a.toRat| ≤ 1 / 2 := by
  unfold toIntRound
  rw [toInt_exp0 _ (rescale_cases a 0).2.1]
  simpa using (rescale_half_ulp a 0).1
end Sq.Dec
