/-
  SqLemmas/DenoteMono.lean — the compositional semantics is monotone in its fuel: more fuel never changes a verdict.
-/
import Sq.Denote
set_option autoImplicit false
namespace Sq.Den
open Sq

variable {B : List Nat}

theorem andThen_mono {r r' : Res} {g g' : Val → World → Res} {y : Out × World}
    (hr : ∀ x, r = some x → r' = some x) (hg : ∀ v w, g v w = some y → g' v w = some y)
    (h : andThen r g = some y) : andThen r' g' = some y := by
  rcases r with _ | ⟨o, w⟩
  · cases h
  · rw [hr _ rfl]
    cases o with
    | ret v => exact hg v w h
    | raise e => exact h

/-- more fuel never changes a verdict -/
structure Mono (B : List Nat) (f : Nat) : Prop where
  op : ∀ op vmi w r, evalOp B f op vmi w = some r → evalOp B (f + 1) op vmi w = some r
  lines : ∀ l rest vmi w r, evalLines B f l rest vmi w = some r → evalLines B (f + 1) l rest vmi w = some r
  list : ∀ ops vmi w r, evalList B f ops vmi w = some r → evalList B (f + 1) ops vmi w = some r
  call : ∀ tf fn args w r, applyVal B f tf fn args w = some r → applyVal B (f + 1) tf fn args w = some r
  start : ∀ tf st w r, startThen B f tf st w = some r → startThen B (f + 1) tf st w = some r
  iter : ∀ tf kind g src acc w r, iterate B f tf kind g src acc w = some r → iterate B (f + 1) tf kind g src acc w = some r

theorem mono_zero : Mono B 0 where
  op := fun _ _ _ _ h => by simp [evalOp] at h
  lines := fun _ _ _ _ _ h => by simp [evalLines] at h
  list := fun _ _ _ _ h => by simp [evalList] at h
  call := fun _ _ _ _ _ h => by simp [applyVal] at h
  start := fun _ _ _ _ h => by simp [startThen] at h
  iter := fun _ _ _ _ _ _ _ h => by simp [iterate] at h

variable {f : Nat}

theorem mono_lines (ih : Mono B f) : ∀ l rest vmi w r, evalLines B (f + 1) l rest vmi w = some r →
    evalLines B (f + 1 + 1) l rest vmi w = some r := by
  intro l rest vmi w r h
  rw [evalLines] at h ⊢
  refine andThen_mono (fun x hx => ih.op _ _ _ _ hx) ?_ h
  intro v w1 hg
  cases rest with
  | nil => exact hg
  | cons l' rest' => exact ih.lines _ _ _ _ _ hg

theorem mono_list (ih : Mono B f) : ∀ ops vmi w r, evalList B (f + 1) ops vmi w = some r →
    evalList B (f + 1 + 1) ops vmi w = some r := by
  intro ops vmi w r h
  cases ops with
  | nil => simp only [evalList] at h ⊢; exact h
  | cons a rest =>
    simp only [evalList] at h ⊢
    cases ha : evalOp B f a vmi w with
    | none => simp [ha] at h
    | some p =>
      rw [ih.op _ _ _ _ ha]
      obtain ⟨oa, wa⟩ := p
      cases oa with
      | raise e => simpa [ha] using h
      | ret v =>
        simp only [ha] at h ⊢
        cases hr : evalList B f rest vmi wa with
        | none => simp [hr] at h
        | some q =>
          rw [ih.list _ _ _ _ hr]
          simpa [hr] using h

theorem mono_iter (ih : Mono B f) : ∀ tf kind g src acc w r, iterate B (f + 1) tf kind g src acc w = some r →
    iterate B (f + 1 + 1) tf kind g src acc w = some r := by
  intro tf kind g src acc w r h
  cases tf with
  | zero => simp only [iterate] at h ⊢; exact h
  | succ tf =>
    simp only [iterate] at h ⊢
    cases hn : nextItem w.heap src with
    | none => simpa [hn] using h
    | some p =>
      simp only [hn] at h ⊢
      exact andThen_mono (fun x hx => ih.call _ _ _ _ _ hx) (fun v w1 hg => ih.iter _ _ _ _ _ _ _ hg) h

theorem mono_start (ih : Mono B f) : ∀ tf st w r, startThen B (f + 1) tf st w = some r →
    startThen B (f + 1 + 1) tf st w = some r := by
  intro tf st w r h
  cases st with
  | now o w' => simp only [startThen] at h ⊢; exact h
  | iter kind g src acc => simp only [startThen] at h ⊢; exact ih.iter _ _ _ _ _ _ _ h

theorem mono_call (ih : Mono B f) : ∀ tf fn args w r, applyVal B (f + 1) tf fn args w = some r →
    applyVal B (f + 1 + 1) tf fn args w = some r := by
  intro tf fn args w r h
  cases tf with
  | zero => rw [applyVal] at h ⊢; exact h
  | succ tf =>
    cases fn with
    | closure params body vmi =>
      simp only [applyVal] at h ⊢
      cases hb : bindParams params args [] with
      | none => simpa [hb] using h
      | some kvs =>
        simp only [hb] at h ⊢
        cases hv : w.vm? vmi with
        | none => simpa [hv] using h
        | some vm =>
          simp only [hv] at h ⊢
          split at h
          · cases h
          · rename_i o1 w1 hbody
            rw [ih.op _ _ _ _ hbody]
            exact h
    | builtin name =>
      simp only [applyVal] at h ⊢
      split
      · rename_i hm; simp only [hm, if_true] at h; exact ih.start _ _ _ _ h
      · rename_i hm
        simp only [hm] at h
        split
        · rename_i ht; simp only [ht, if_true] at h; exact h
        · rename_i ht
          simp only [ht] at h
          split
          · rename_i h1; simp only [h1, if_true] at h; exact ih.start _ _ _ _ h
          · rename_i h1
            simp only [h1] at h
            split
            · rename_i h2; simp only [h2, if_true] at h; exact ih.start _ _ _ _ h
            · rename_i h2
              simp only [h2] at h
              split
              · rename_i h3; simp only [h3, if_true] at h; exact ih.start _ _ _ _ h
              · rename_i h3; simp only [h3] at h; exact h
    | host id =>
      unfold applyVal at h ⊢
      simp only [] at h ⊢
      split
      · rename_i hp; simp only [hp, if_true] at h; exact h
      · rename_i hp
        simp only [hp] at h
        split
        · rename_i ha
          simp only [ha, if_true] at h
          cases args with
          | nil => exact h
          | cons g rest => exact ih.call _ _ _ _ _ h
        · rename_i ha
          simp only [ha] at h
          split
          · rename_i ht
            simp only [ht, if_true] at h
            cases args with
            | nil => exact h
            | cons g rest =>
              simp only [] at h ⊢
              cases hin : applyVal B f tf g rest w with
              | none => simp [hin] at h
              | some q =>
                rw [ih.call _ _ _ _ _ hin]
                simpa [hin] using h
          · rename_i ht; simp only [ht] at h; exact h
    | «opaque» s => simp only [applyVal] at h ⊢; exact h
    | none => simp only [applyVal] at h ⊢; exact h
    | bool b => simp only [applyVal] at h ⊢; exact h
    | dec d c => simp only [applyVal] at h ⊢; exact h
    | int i => simp only [applyVal] at h ⊢; exact h
    | str s => simp only [applyVal] at h ⊢; exact h
    | slice a b c => simp only [applyVal] at h ⊢; exact h
    | ref a => simp only [applyVal] at h ⊢; exact h
    | tuple vs => simp only [applyVal] at h ⊢; exact h

theorem mono_op (ih : Mono B f) : ∀ op vmi w r, evalOp B (f + 1) op vmi w = some r →
    evalOp B (f + 1 + 1) op vmi w = some r := by
  intro op vmi w0 r h
  unfold evalOp at h ⊢
  cases hc : charge w0 B vmi with
  | none => simpa [hc] using h
  | some p =>
    obtain ⟨w, lim⟩ := p
    cases lim with
    | some m => simpa [hc] using h
    | none =>
      simp only [hc] at h ⊢
      have hop := fun a w x hx => ih.op a vmi w x hx
      cases op with
      | noop => exact h
      | value l => exact h
      | code ls =>
        cases ls with
        | nil => exact h
        | cons l rest => exact ih.lines _ _ _ _ _ h
      | bin bk a b =>
        simp only [] at h ⊢
        refine andThen_mono (hop a w) ?_ h
        intro va w1 hg
        cases bk
        case and =>
          simp only [] at hg ⊢
          split
          · rename_i ht; simp only [ht, if_true] at hg; exact hop _ _ _ hg
          · rename_i ht; simp only [ht] at hg; exact hg
        case or =>
          simp only [] at hg ⊢
          split
          · rename_i ht; simp only [ht, if_true] at hg; exact hg
          · rename_i ht; simp only [ht] at hg; exact hop _ _ _ hg
        all_goals exact andThen_mono (hop b w1) (fun _ _ hx => hx) hg
      | unary uk a => exact andThen_mono (hop a w) (fun _ _ hx => hx) h
      | assign n a => exact andThen_mono (hop a w) (fun _ _ hx => hx) h
      | short n sk a => exact andThen_mono (hop a w) (fun _ _ hx => hx) h
      | name n => exact h
      | ifx c a b =>
        refine andThen_mono (hop c w) ?_ h
        intro vc w1 hg
        split
        · rename_i ht; simp only [ht, if_true] at hg; exact hop _ _ _ hg
        · rename_i ht; simp only [ht] at hg; exact hop _ _ _ hg
      | slice a b c =>
        refine andThen_mono (hop a w) ?_ h
        intro va w1 hg
        cases ca : safeCastInt va with
        | error e => simpa [ca] using hg
        | ok xa =>
          simp only [ca] at hg ⊢
          refine andThen_mono (hop b w1) ?_ hg
          intro vb w2 hg2
          cases cb : safeCastInt vb with
          | error e => simpa [cb] using hg2
          | ok xb =>
            simp only [cb] at hg2 ⊢
            exact andThen_mono (hop c w2) (fun _ _ hx => hx) hg2
      | call n args =>
        simp only [] at h ⊢
        cases hl : evalList B f args vmi w with
        | none => simp [hl] at h
        | some q =>
          rw [ih.list _ _ _ _ hl]
          obtain ⟨r1, w1⟩ := q
          cases r1 with
          | error e => simpa [hl] using h
          | ok vs =>
            simp only [hl] at h ⊢
            cases hv : w1.vm? vmi with
            | none => simpa [hv] using h
            | some vm =>
              simp only [hv] at h ⊢
              cases hlk : lookupName w1.heap vm.scopes n with
              | none => simpa [hlk] using h
              | some fn => simp only [hlk] at h ⊢; exact ih.call _ _ _ _ _ h
      | dict parts =>
        simp only [] at h ⊢
        cases hl : evalList B f parts vmi w with
        | none => simp [hl] at h
        | some q =>
          rw [ih.list _ _ _ _ hl]
          simpa [hl] using h
      | lambda ps body => exact h

theorem mono : ∀ f, Mono B f
  | 0 => mono_zero
  | f + 1 =>
    have ih := mono f
    { op := mono_op ih, lines := mono_lines ih, list := mono_list ih, call := mono_call ih,
      start := mono_start ih, iter := mono_iter ih }

/-- **more fuel never changes a verdict** -/
theorem evalOp_mono {f g : Nat} (hfg : f ≤ g) {op : Op} {vmi : Nat} {w : World} {r : Out × World}
    (h : evalOp B f op vmi w = some r) : evalOp B g op vmi w = some r := by
  induction hfg with
  | refl => exact h
  | step _ ih => exact (mono _).op _ _ _ _ ih

theorem applyVal_mono {f g : Nat} (hfg : f ≤ g) {tf : Nat} {fn : Val} {args : List Val} {w : World} {r : Out × World}
    (h : applyVal B f tf fn args w = some r) : applyVal B g tf fn args w = some r := by
  induction hfg with
  | refl => exact h
  | step _ ih => exact (mono _).call _ _ _ _ _ ih

theorem iterate_mono {f g : Nat} (hfg : f ≤ g) {tf : Nat} {kind : IterKind} {gv : Val} {src : IterSrc} {acc : List Val}
    {w : World} {r : Out × World}
    (h : iterate B f tf kind gv src acc w = some r) : iterate B g tf kind gv src acc w = some r := by
  induction hfg with
  | refl => exact h
  | step _ ih => exact (mono _).iter _ _ _ _ _ _ _ ih

theorem evalLines_mono {f g : Nat} (hfg : f ≤ g) {l : Op} {rest : List Op} {vmi : Nat} {w : World} {r : Out × World}
    (h : evalLines B f l rest vmi w = some r) : evalLines B g l rest vmi w = some r := by
  induction hfg with
  | refl => exact h
  | step _ ih => exact (mono _).lines _ _ _ _ _ ih

theorem evalList_mono {f g : Nat} (hfg : f ≤ g) {ops : List Op} {vmi : Nat} {w : World}
    {r : Except PyErr (List Val) × World}
    (h : evalList B f ops vmi w = some r) : evalList B g ops vmi w = some r := by
  induction hfg with
  | refl => exact h
  | step _ ih => exact (mono _).list _ _ _ _ ih
end Sq.Den
