/-
  SqLemmas/SetLen.lean — C03 [B]: a dict write adds at most one entry (kvSet / dictSetAux / dictSet).
-/
import Sq.Builtins
namespace Sq

theorem kvSet_length_le (kvs : List (Val × Val)) (n : Name) (v : Val) : (kvSet kvs n v).length ≤ kvs.length + 1 := by
  induction kvs with
  | nil => simp [kvSet]
  | cons p r ih =>
    obtain ⟨k, v'⟩ := p
    simp only [kvSet]
    split
    · simp
    · simp only [List.length_cons]; omega

theorem dictSetAux_length_le (h : Heap) : ∀ (kvs : List (Val × Val)) (k v : Val) (out : List (Val × Val)),
    dictSetAux h kvs k v = .ok out → out.length ≤ kvs.length + 1 := by
  intro kvs
  induction kvs with
  | nil => intro k v out ho; simp only [dictSetAux] at ho; cases ho; simp
  | cons p r ih =>
    intro k v out ho
    obtain ⟨k', v'⟩ := p
    simp only [dictSetAux] at ho
    split at ho
    · cases ho
    · cases ho; simp
    · cases hr : dictSetAux h r k v with
      | error e => rw [hr] at ho; cases ho
      | ok o =>
        rw [hr] at ho
        simp only [Except.map] at ho
        cases ho
        have := ih k v o hr
        simp only [List.length_cons]; omega

theorem dictSet_length_le (h : Heap) (kvs : List (Val × Val)) (k v : Val) (out : List (Val × Val))
    (ho : dictSet h kvs k v = .ok out) : out.length ≤ kvs.length + 1 := by
  unfold dictSet at ho
  split at ho
  · cases ho; exact kvSet_length_le _ _ _
  · exact dictSetAux_length_le h kvs k v out ho

end Sq
