/-
  SqLemmas/PlainMachine.lean — C02 [B] `plain_step`: one machine step from a configuration in which every value is plain
  data and the type object `dict` does not occur as a value (`PD`) leads to a configuration in which every value is
  plain data (`NP`): control, every continuation frame, iteration state, heap, regex answers, probe table.
  (The `dict` side condition is finding D15; everything else — the 42 table entries, lambdas, map / filter / reduce /
  sorted, host callbacks, assignments with their deep copies — is covered.)
-/
import SqLemmas.PlainAll
import Sq.Machine
import SqProps.C04
namespace Sq

/-- plain data that is not (and does not contain) the type object `dict` -/
inductive PD : Val → Prop
  | none : PD .none
  | bool {x} : PD (.bool x)
  | dec {d c} : PD (.dec d c)
  | int {i} : PD (.int i)
  | str {s} : PD (.str s)
  | slice {x y z} : PD (.slice x y z)
  | ref {a} : PD (.ref a)
  | builtin {n} : n ≠ "dict" → PD (.builtin n)
  | closure {ps body vm} : PD (.closure ps body vm)
  | host {i} : PD (.host i)
  | tuple {vs} : (∀ v, v ∈ vs → PD v) → PD (.tuple vs)

theorem PD.np : ∀ {v : Val}, PD v → NP v
  | _, .none => .none
  | _, .bool => .bool
  | _, .dec => .dec
  | _, .int => .int
  | _, .str => .str
  | _, .slice => .slice
  | _, .ref => .ref
  | _, .builtin _ => .builtin
  | _, .closure => .closure
  | _, .host => .host
  | _, .tuple h => .tuple (fun v hv => (h v hv).np)

theorem PD.not_dict {v : Val} (h : PD v) : v ≠ .builtin "dict" := by
  intro e; subst e; cases h with | builtin hn => exact hn rfl

def AllPD (vs : List Val) : Prop := ∀ v, v ∈ vs → PD v
theorem AllPD.np {vs : List Val} (h : AllPD vs) : AllNP vs := fun v hv => (h v hv).np
theorem AllPD.head_ne {vs : List Val} (h : AllPD vs) : vs.head? ≠ some (.builtin "dict") := by
  cases vs with
  | nil => simp
  | cons x r => simp; exact (h x (by simp)).not_dict

def ObjPD : HObj → Prop
  | .list xs => AllPD xs
  | .dict kvs => ∀ kv, kv ∈ kvs → PD kv.1 ∧ PD kv.2
def HeapPD (h : Heap) : Prop := ∀ a o, h.get? a = some o → ObjPD o
theorem HeapPD.np {h : Heap} (hh : HeapPD h) : HeapNP h := by
  intro a o hg
  have := hh a o hg
  cases o with
  | list xs => exact AllPD.np this
  | dict kvs => exact fun kv hkv => ⟨(this kv hkv).1.np, (this kv hkv).2.np⟩

/-! ### what "every value of the configuration" means -/

def SrcP (P : Val → Prop) : IterSrc → Prop
  | .live _ _ => True
  | .snap items => ∀ l, l ∈ items → ∀ v, v ∈ l → P v

def KindP (P : Val → Prop) : IterKind → Prop
  | .sortKeys items _ _ => ∀ v, v ∈ items → P v
  | _ => True

def FrameP (P : Val → Prop) : Frame → Prop
  | .binR _ va => P va
  | .argsK _ done _ _ => ∀ v, v ∈ done → P v
  | .dictK done _ _ => ∀ v, v ∈ done → P v
  | .iterK kind f src cur acc => KindP P kind ∧ P f ∧ SrcP P src ∧ P cur ∧ ∀ v, v ∈ acc → P v
  | _ => True

def CtlP (P : Val → Prop) : Ctl → Prop
  | .ret v => P v
  | .done v => P v
  | _ => True

def ProbesP (P : Val → Prop) (ps : List (Int × ProbeAct)) : Prop :=
  ∀ p, p ∈ ps → match p.2 with | .ret v => P v | .raise _ => True

def RxP (P : Val → Prop) (rx : List RxAns) : Prop :=
  ∀ a, a ∈ rx → match a with
    | .matched g0 gs => P g0 ∧ ∀ v, v ∈ gs → P v
    | .all items => ∀ v, v ∈ items → P v
    | _ => True

structure WorldNP (w : World) : Prop where
  heap : HeapNP w.heap
  rx : RxNP w.rx
  probes : ProbesP NP w.probes

structure WorldPD (w : World) : Prop where
  heap : HeapPD w.heap
  rx : RxP PD w.rx
  probes : ProbesP PD w.probes

structure CoreNP (c : Core) : Prop where
  ctl : CtlP NP c.ctl
  frames : ∀ fr, fr ∈ c.k → FrameP NP fr
  world : WorldNP c.w

structure CorePD (c : Core) : Prop where
  ctl : CtlP PD c.ctl
  frames : ∀ fr, fr ∈ c.k → FrameP PD fr
  world : WorldPD c.w

theorem RxP_np {rx : List RxAns} (h : RxP PD rx) : RxNP rx := by
  intro a ha
  have := h a ha
  cases a with
  | matched g0 gs => exact ⟨this.1.np, fun v hv => (this.2 v hv).np⟩
  | all items => exact fun v hv => (this v hv).np
  | noMatch => trivial
  | raised c => trivial

theorem WorldPD.np {w : World} (h : WorldPD w) : WorldNP w :=
  ⟨h.heap.np, RxP_np h.rx, fun p hp => by
    have := h.probes p hp
    cases hq : p.2 with
    | ret v => rw [hq] at this; exact this.np
    | raise e => trivial⟩

theorem FrameP_np {fr : Frame} (h : FrameP PD fr) : FrameP NP fr := by
  cases fr with
  | binR k va => exact PD.np h
  | argsK n done todo vm => exact fun v hv => (h v hv).np
  | dictK done todo vm => exact fun v hv => (h v hv).np
  | iterK kind f src cur acc =>
    obtain ⟨h1, h2, h3, h4, h5⟩ := h
    refine ⟨?_, h2.np, ?_, h4.np, fun v hv => (h5 v hv).np⟩
    · cases kind with
      | sortKeys items rev dm => exact fun v hv => (h1 v hv).np
      | map => trivial
      | filter => trivial
      | reduce => trivial
    · cases src with
      | live a i => trivial
      | snap items => exact fun l hl v hv => (h3 l hl v hv).np
  | _ => trivial

/-! ### sorting only rearranges -/

theorem mergeRuns_mem (h : Heap) : ∀ (f : Nat) (xs ys acc r : List (Val × Val)), mergeRuns h f xs ys acc = .ok r →
    ∀ p, p ∈ r → p ∈ acc ∨ p ∈ xs ∨ p ∈ ys := by
  intro f
  induction f with
  | zero =>
    intro xs ys acc r hr p hp
    simp [mergeRuns] at hr
    subst hr
    simp at hp
    rcases hp with h1 | h1 | h1
    · exact Or.inl h1
    · exact Or.inr (Or.inl h1)
    · exact Or.inr (Or.inr h1)
  | succ f ih =>
    intro xs ys acc r hr p hp
    cases xs with
    | nil =>
      simp [mergeRuns] at hr; subst hr; simp at hp
      rcases hp with h1 | h1
      · exact Or.inl h1
      · exact Or.inr (Or.inr h1)
    | cons x xs =>
      cases ys with
      | nil =>
        simp [mergeRuns] at hr; subst hr; simp at hp
        rcases hp with h1 | h1 | h1
        · exact Or.inl h1
        · exact Or.inr (Or.inl (by simp [h1]))
        · exact Or.inr (Or.inl (by simp [h1]))
      | cons y ys =>
        simp only [mergeRuns] at hr
        split at hr
        · cases hr
        · rcases ih _ _ _ _ hr p hp with h1 | h1 | h1
          · rcases List.mem_cons.mp h1 with e | e
            · exact Or.inr (Or.inr (by simp [e]))
            · exact Or.inl e
          · exact Or.inr (Or.inl h1)
          · exact Or.inr (Or.inr (by simp [h1]))
        · rcases ih _ _ _ _ hr p hp with h1 | h1 | h1
          · rcases List.mem_cons.mp h1 with e | e
            · exact Or.inr (Or.inl (by simp [e]))
            · exact Or.inl e
          · exact Or.inr (Or.inl (by simp [h1]))
          · exact Or.inr (Or.inr h1)

theorem sortPairsAux_mem (h : Heap) : ∀ (f : Nat) (xs r : List (Val × Val)), sortPairsAux h f xs = .ok r →
    ∀ p, p ∈ r → p ∈ xs := by
  intro f
  induction f with
  | zero => intro xs r hr p hp; simp [sortPairsAux] at hr; subst hr; exact hp
  | succ f ih =>
    intro xs r hr p hp
    simp only [sortPairsAux] at hr
    split at hr
    · cases hr; exact hp
    · split at hr
      · rename_i a b ha hb
        rcases mergeRuns_mem h _ _ _ _ _ hr p hp with h1 | h1 | h1
        · cases h1
        · exact List.mem_of_mem_take (ih _ _ ha p h1)
        · exact List.mem_of_mem_drop (ih _ _ hb p h1)
      · cases hr
      · cases hr

theorem sortedBy_mem {h : Heap} {keys items : List Val} {rev : Bool} {r : List Val}
    (hs : sortedBy h keys items rev = .ok r) : ∀ v, v ∈ r → v ∈ items := by
  unfold sortedBy at hs
  split at hs
  · cases hs
  · dsimp only at hs
    have key : ∀ (ps rr : List (Val × Val)), (∀ p, p ∈ ps → p ∈ keys.zip items) → sortPairs h ps = .ok rr →
        ∀ v, v ∈ rr.map (·.2) → v ∈ items := by
      intro ps rr hps hrr v hv
      obtain ⟨p, hp, e⟩ := List.mem_map.mp hv
      have := hps p (sortPairsAux_mem h _ ps rr hrr p hp)
      rw [← e]
      obtain ⟨k, x⟩ := p
      exact (List.of_mem_zip this).2
    split at hs
    · cases hq : sortPairs h (keys.zip items).reverse with
      | error e => rw [hq] at hs; cases hs
      | ok rr =>
        rw [hq] at hs
        simp [Except.map] at hs
        subst hs
        intro v hv
        exact key _ rr (fun p hp => List.mem_reverse.mp hp) hq v (List.mem_reverse.mp hv)
    · cases hq : sortPairs h (keys.zip items) with
      | error e => rw [hq] at hs; cases hs
      | ok rr =>
        rw [hq] at hs
        simp [Except.map] at hs
        subst hs
        exact key _ rr (fun p hp => hp) hq

/-! ### building plain configurations -/

abbrev FK (k : List Frame) : Prop := ∀ fr, fr ∈ k → FrameP NP fr

theorem fk_cons {fr : Frame} {k : List Frame} (hf : FrameP NP fr) (hk : FK k) : FK (fr :: k) := by
  intro x hx
  rcases List.mem_cons.mp hx with e | e
  · rw [e]; exact hf
  · exact hk x e

theorem fk_tail {fr : Frame} {k : List Frame} (hk : FK (fr :: k)) : FK k := fun x hx => hk x (by simp [hx])

theorem core_ret {v : Val} {k : List Frame} {w : World} (hv : NP v) (hk : FK k) (hw : WorldNP w) : CoreNP (mkRet v k w) :=
  ⟨hv, hk, hw⟩
theorem core_raise {e : PyErr} {k : List Frame} {w : World} (hk : FK k) (hw : WorldNP w) : CoreNP (mkRaise e k w) :=
  ⟨trivial, hk, hw⟩
theorem core_ev {op : Op} {vmi : Nat} {k : List Frame} {w : World} (hk : FK k) (hw : WorldNP w) :
    CoreNP { ctl := .ev op vmi, k := k, w := w } := ⟨trivial, hk, hw⟩

theorem world_heap {w : World} {h' : Heap} (hw : WorldNP w) (hh : HeapNP h') : WorldNP { w with heap := h' } :=
  ⟨hh, hw.rx, hw.probes⟩
theorem world_setVM {w : World} (hw : WorldNP w) (i : Nat) (vm : VM) : WorldNP (w.setVM i vm) :=
  ⟨hw.heap, hw.rx, hw.probes⟩
theorem world_log {w : World} (hw : WorldNP w) (l : List Event) : WorldNP { w with log := l } :=
  ⟨hw.heap, hw.rx, hw.probes⟩
theorem world_bstate {w : World} (hw : WorldNP w) : StNP w.bstate := ⟨hw.heap, hw.rx⟩
theorem world_withB {w : World} (hw : WorldNP w) {s : BState} (hs : StNP s) : WorldNP (w.withB s) :=
  ⟨hs.1, hs.2, hw.probes⟩

theorem ofBR_np {r : BR} {k : List Frame} {w : World} (hk : FK k) (hw : WorldNP w)
    (hr : ∀ v s', r = .ok (v, s') → NP v ∧ StNP s') : CoreNP (ofBR r k w) := by
  unfold ofBR
  split
  · rename_i v s' 
    obtain ⟨h1, h2⟩ := hr v s' rfl
    exact core_ret h1 hk (world_withB hw h2)
  · exact core_raise hk hw

theorem heap_listPD {h : Heap} (hh : HeapPD h) {a : Nat} {xs : List Val} (hg : h.get? a = some (.list xs)) : AllPD xs :=
  hh a _ hg

theorem bindParams_np : ∀ (ps : List Op) (args : List Val) (acc out : List (Val × Val)),
    (∀ kv, kv ∈ acc → NP kv.1 ∧ NP kv.2) → AllNP args → bindParams ps args acc = some out →
    ∀ kv, kv ∈ out → NP kv.1 ∧ NP kv.2 := by
  intro ps
  induction ps with
  | nil => intro args acc out ha _ h; simp [bindParams] at h; subst h; exact ha
  | cons p ps ih =>
    intro args acc out ha hargs h
    cases args with
    | nil => simp [bindParams] at h; subst h; exact ha
    | cons v vs =>
      simp only [bindParams] at h
      split at h
      · exact ih vs _ out (kvSet_np ha _ (allNP_head hargs)) (allNP_tail hargs) h
      · cases h

theorem sortFinish_np {keys items : List Val} {rev dm : Bool} {k : List Frame} {w : World} (hi : AllNP items)
    (hk : FK k) (hw : WorldNP w) : CoreNP (sortFinish keys items rev dm k w) := by
  unfold sortFinish
  split
  · exact core_raise hk hw
  · rename_i sorted hs
    have hsn : AllNP sorted := fun v hv => hi v (sortedBy_mem hs v hv)
    split
    · simp only [Heap.alloc]
      refine core_ret .ref hk (world_heap hw (heapNP_push hw.heap (o := .dict _) ?_))
      intro kv hkv
      obtain ⟨v, hv, e⟩ := List.mem_filterMap.mp hkv
      have hvn := hsn v hv
      split at e
      · injection e with e
        subst e
        cases hvn with | tuple hall => exact ⟨hall _ (by simp), hall _ (by simp)⟩
      · cases e
    · simp only [Heap.alloc]
      exact core_ret .ref hk (world_heap hw (heapNP_push hw.heap (o := .list _) hsn))

/-- an iteration continuation that keeps everything plain -/
def IterOK (it : IterFn) : Prop :=
  ∀ kind g src acc k w, KindP PD kind → PD g → SrcP PD src → AllPD acc → FK k → WorldPD w → CoreNP (it kind g src acc k w)

theorem callClosure_np (ps : List Op) (body : Op) (vmi : Nat) (args : List Val) (k : List Frame) (w : World)
    (ha : AllNP args) (hk : FK k) (hw : WorldNP w) : CoreNP (callClosure ps body vmi args k w) := by
  unfold callClosure
  split
  · exact core_raise hk hw
  · rename_i kvs hb
    split
    · exact core_raise hk hw
    · simp only [Heap.alloc]
      refine core_ev (fk_cons trivial hk) (world_setVM (world_heap hw (heapNP_push hw.heap (o := .dict kvs) ?_)) _ _)
      exact bindParams_np ps args [] kvs (fun kv h => by cases h) ha hb

theorem allPD_nil : AllPD [] := fun _ h => by cases h
theorem allPD_tail {v : Val} {vs : List Val} (h : AllPD (v :: vs)) : AllPD vs := fun x hx => h x (by simp [hx])
theorem allPD_head {v : Val} {vs : List Val} (h : AllPD (v :: vs)) : PD v := h v (by simp)
theorem allPD_cons {v : Val} {vs : List Val} (h : PD v) (hs : AllPD vs) : AllPD (v :: vs) := by
  intro x hx
  rcases List.mem_cons.mp hx with e | e
  · rw [e]; exact h
  · exact hs x e

theorem iterItems_pd {h : Heap} (hh : HeapPD h) {c : Val} (hc : PD c) {items : List Val}
    (hi : iterItems h c = .ok items) : AllPD items := by
  unfold iterItems at hi
  split at hi
  · cases hi
    intro v hv
    obtain ⟨ch, _, e⟩ := List.mem_map.mp hv
    rw [← e]; exact .str
  · cases hi; cases hc with | tuple hall => exact hall
  · split at hi
    · rename_i hg; cases hi; exact hh _ _ hg
    · rename_i hg; cases hi
      intro v hv
      obtain ⟨kv, hkv, e⟩ := List.mem_map.mp hv
      rw [← e]; exact (hh _ _ hg kv hkv).1
    · simp [U] at hi
  · simp [U] at hi
  · cases hi

theorem callMap_np (it : IterFn) (hit : IterOK it) (args : List Val) (k : List Frame) (w : World) (ha : AllPD args)
    (hk : FK k) (hw : WorldPD w) : CoreNP (callMap it args k w) := by
  unfold callMap
  split
  · rename_i c g
    have hg : PD g := ha g (by simp)
    split
    · refine hit _ _ _ _ _ _ trivial hg ?_ allPD_nil hk hw
      intro l hl v hv
      obtain ⟨ch, _, e⟩ := List.mem_map.mp hl
      rw [← e] at hv; simp at hv; rw [hv]; exact .str
    · split
      · exact hit _ _ _ _ _ _ trivial hg trivial allPD_nil hk hw
      · rename_i kvs hgk
        refine hit _ _ _ _ _ _ trivial hg ?_ allPD_nil hk hw
        intro l hl v hv
        obtain ⟨kv, hkv, e⟩ := List.mem_map.mp hl
        rw [← e] at hv
        simp at hv
        rcases hv with e1 | e1 <;> rw [e1]
        · exact (hw.heap _ _ hgk kv hkv).1
        · exact (hw.heap _ _ hgk kv hkv).2
      · exact core_raise hk hw.np
    · exact core_raise hk hw.np
    · exact core_raise hk hw.np
  · exact core_raise hk hw.np

theorem callFilter_np (it : IterFn) (hit : IterOK it) (args : List Val) (k : List Frame) (w : World) (ha : AllPD args)
    (hk : FK k) (hw : WorldPD w) : CoreNP (callFilter it args k w) := by
  unfold callFilter
  split
  · split
    · split
      · rename_i xs hg
        simp only [Heap.alloc]
        exact core_ret .ref hk (world_heap hw.np (heapNP_push hw.np.heap (o := .list _)
          (allNP_filter _ (AllPD.np (hw.heap _ _ hg)))))
      · exact core_raise hk hw.np
    · exact core_raise hk hw.np
    · exact core_raise hk hw.np
  · rename_i c g _
    have hg : PD g := ha g (by simp)
    split
    · split
      · exact hit _ _ _ _ _ _ trivial hg trivial allPD_nil hk hw
      · exact core_raise hk hw.np
    · exact core_raise hk hw.np
    · exact core_raise hk hw.np
  · exact core_raise hk hw.np

theorem callReduce_np (it : IterFn) (hit : IterOK it) (args : List Val) (k : List Frame) (w : World) (ha : AllPD args)
    (hk : FK k) (hw : WorldPD w) : CoreNP (callReduce it args k w) := by
  unfold callReduce
  split
  · rename_i c g
    have hg : PD g := ha g (by simp)
    have hc : PD c := ha c (by simp)
    split
    · exact core_raise hk hw.np
    · split
      · exact core_raise hk hw.np
      · exact core_raise hk hw.np
      · exact core_raise hk hw.np
      · rename_i x rest hi
        have hitems := iterItems_pd hw.heap hc hi
        refine hit _ _ _ _ _ _ trivial hg ?_ (allPD_cons (allPD_head hitems) allPD_nil) hk hw
        have hsnap : SrcP PD (.snap (rest.map (fun v => [v]))) := by
          intro l hl v hv
          obtain ⟨x0, hx0, e⟩ := List.mem_map.mp hl
          rw [← e] at hv; simp at hv; rw [hv]
          exact allPD_tail hitems x0 hx0
        split
        · split
          · trivial
          · exact hsnap
        · exact hsnap
  · exact core_raise hk hw.np

theorem callSorted_np (it : IterFn) (hit : IterOK it) (args : List Val) (k : List Frame) (w : World) (ha : AllPD args)
    (hk : FK k) (hw : WorldPD w) : CoreNP (callSorted it args k w) := by
  unfold callSorted
  split
  · rename_i c rest
    have hc : PD c := ha c (by simp)
    split
    · exact core_raise hk hw.np
    · dsimp only
      have hkey : PD (rest.headD .none) := by
        cases rest with
        | nil => exact .none
        | cons x r => exact ha x (by simp)
      split
      · exact core_raise hk hw.np
      · exact core_raise hk hw.np
      · rename_i items rev hitems _
        have hip : AllPD items := by
          split at hitems
          · split at hitems
            · split at hitems
              · rename_i kvs hg
                cases hitems
                intro v hv
                obtain ⟨kv, hkv, e⟩ := List.mem_map.mp hv
                rw [← e]
                exact .tuple (allPD_cons (hw.heap _ _ hg kv hkv).1 (allPD_cons (hw.heap _ _ hg kv hkv).2 allPD_nil))
              · simp [U] at hitems
            · simp [U] at hitems
          · exact iterItems_pd hw.heap hc hitems
        split
        · exact sortFinish_np hip.np hk hw.np
        · exact core_raise hk hw.np
        · split
          · refine hit _ _ _ _ _ _ hip hkey ?_ allPD_nil hk hw
            intro l hl v hv
            obtain ⟨itm, hitm, e⟩ := List.mem_map.mp hl
            have hpi := hip itm hitm
            rw [← e] at hv
            try dsimp only at hv
            split at hv
            · split at hv
              · simp at hv
                cases hpi with
                | tuple hall => rcases hv with e1 | e1 <;> rw [e1] <;> exact hall _ (by simp)
              · simp at hv; rw [hv]; exact hpi
            · simp at hv; rw [hv]; exact hpi
          · split
            · exact sortFinish_np allNP_nil hk hw.np
            · exact core_raise hk hw.np
  · exact core_raise hk hw.np

theorem probe_lookup {key : Option Int} {ps : List (Int × ProbeAct)} {act : ProbeAct}
    (h : (key.bind fun i => (ps.find? (fun p => p.1 == i)).map (·.2)) = some act) : ∃ p, p ∈ ps ∧ p.2 = act := by
  cases key with
  | none => cases h
  | some i =>
    simp only [Option.bind] at h
    cases hf : ps.find? (fun p => p.1 == i) with
    | none => rw [hf] at h; cases h
    | some p =>
      rw [hf] at h
      simp at h
      exact ⟨p, List.mem_of_find?_eq_some hf, h⟩

theorem callProbe_np (args : List Val) (k : List Frame) (w : World) (ha : AllPD args) (hk : FK k) (hw : WorldPD w) :
    CoreNP (callProbe args k w) := by
  unfold callProbe
  split
  · rename_i a
    dsimp only
    split
    · rename_i v hact
      obtain ⟨p, hp, e⟩ := probe_lookup hact
      have := hw.probes p hp
      rw [e] at this
      exact core_ret this.np hk (world_log hw.np _)
    · exact core_raise hk (world_log hw.np _)
    · exact core_ret (ha a (by simp)).np hk (world_log hw.np _)
  · exact core_raise hk hw.np

theorem nextItem_pd {h : Heap} (hh : HeapPD h) {src src' : IterSrc} {item : List Val} (hs : SrcP PD src)
    (hn : nextItem h src = some (item, src')) : AllPD item ∧ SrcP PD src' := by
  unfold nextItem at hn
  split at hn
  · split at hn
    · rename_i xs hg
      split at hn
      · rename_i x hx
        injection hn with hn; injection hn with h1 h2
        subst h1; subst h2
        exact ⟨allPD_cons (hh _ _ hg x (List.mem_of_getElem? hx)) allPD_nil, trivial⟩
      · cases hn
    · cases hn
  · cases hn
  · injection hn with hn; injection hn with h1 h2
    subst h1; subst h2
    exact ⟨hs _ (by simp), fun l hl => hs l (by simp [hl])⟩

/-- calling any function value with plain arguments, and continuing any iteration, keeps everything plain -/
theorem call_np : ∀ (fuel : Nat),
    (∀ f args k w, AllPD args → FK k → WorldPD w → CoreNP (callVal fuel f args k w)) ∧ IterOK (iterNext fuel) := by
  intro fuel
  induction fuel with
  | zero =>
    exact ⟨fun _ _ k w _ hk hw => by rw [callVal]; exact core_raise hk hw.np,
           fun _ _ _ _ k w _ _ _ _ hk hw => by rw [iterNext]; exact core_raise hk hw.np⟩
  | succ fuel ih =>
    obtain ⟨ihc, ihi⟩ := ih
    constructor
    · intro f args k w ha hk hw
      unfold callVal
      split
      · exact callClosure_np _ _ _ _ _ _ ha.np hk hw.np
      · split
        · exact callMap_np _ ihi _ _ _ ha hk hw
        · split
          · exact core_raise hk hw.np
          · split
            · exact callFilter_np _ ihi _ _ _ ha hk hw
            · split
              · exact callReduce_np _ ihi _ _ _ ha hk hw
              · split
                · exact callSorted_np _ ihi _ _ _ ha hk hw
                · exact ofBR_np hk hw.np (fun v s' h => callPure_plain _ _ _ v s' ha.np (world_bstate hw.np) ha.head_ne h)
      · split
        · exact callProbe_np _ _ _ ha hk hw
        · split
          · split
            · rename_i g rest
              exact ihc _ _ _ _ (allPD_tail ha) hk hw
            · exact core_raise hk hw.np
          · split
            · split
              · rename_i g rest
                exact ihc _ _ _ _ (allPD_tail ha) (fk_cons trivial hk) hw
              · exact core_raise hk hw.np
            · exact core_raise hk hw.np
      · exact core_raise hk hw.np
      · exact core_raise hk hw.np
    · intro kind g src acc k w hkind hg hsrc hacc hk hw
      unfold iterNext
      split
      · rename_i item src' hn
        obtain ⟨hitem, hsrc'⟩ := nextItem_pd hw.heap hsrc hn
        dsimp only
        have hcur : PD (item.headD .none) := by
          cases item with
          | nil => exact .none
          | cons x r => exact hitem x (by simp)
        have hfr : FrameP NP (.iterK kind g src' (item.headD .none) acc) := by
          refine FrameP_np (fr := .iterK kind g src' (item.headD .none) acc) ⟨hkind, hg, hsrc', hcur, hacc⟩
        refine ihc _ _ _ _ ?_ (fk_cons hfr hk) hw
        cases kind with
        | reduce =>
          dsimp only
          refine allPD_cons ?_ hitem
          cases acc with
          | nil => exact .none
          | cons x r => exact hacc x (by simp)
        | map => exact hitem
        | filter => exact hitem
        | sortKeys a b c => exact hitem
      · split
        · simp only [Heap.alloc]
          exact core_ret .ref hk (world_heap hw.np (heapNP_push hw.np.heap (o := .list _) (allNP_reverse hacc.np)))
        · simp only [Heap.alloc]
          exact core_ret .ref hk (world_heap hw.np (heapNP_push hw.np.heap (o := .list _) (allNP_reverse hacc.np)))
        · refine core_ret ?_ hk hw.np
          cases acc with
          | nil => exact .none
          | cons x r => exact (hacc x (by simp)).np
        · rename_i items rev dm
          exact sortFinish_np (fun v hv => (hkind v hv).np) hk hw.np

theorem lookupName_np {h : Heap} (hh : HeapNP h) : ∀ (scopes : List Nat) (n : Name) (v : Val),
    lookupName h scopes n = some v → NP v := by
  intro scopes
  induction scopes with
  | nil =>
    intro n v hl
    simp only [lookupName] at hl
    split at hl
    · cases hl; exact .builtin
    · cases hl
  | cons a rest ih =>
    intro n v hl
    simp only [lookupName] at hl
    split at hl
    · rename_i x hf
      cases hl
      unfold scopeFind at hf
      split at hf
      · rename_i kvs hg
        cases hq : kvs.find? (fun kv => keyIsName kv.1 n) with
        | none => rw [hq] at hf; cases hf
        | some p => rw [hq] at hf; simp at hf; subst hf; exact (hh _ _ hg p (List.mem_of_find?_eq_some hq)).2
      · cases hf
    · exact ih n v hl

theorem doCall_np (n : Name) (args : List Val) (vmi : Nat) (k : List Frame) (w : World) (ha : AllPD args)
    (hk : FK k) (hw : WorldPD w) : CoreNP (doCall n args vmi k w) := by
  unfold doCall
  split
  · exact core_raise hk hw.np
  · split
    · exact core_raise hk hw.np
    · exact (call_np callFuel).1 _ _ _ _ ha hk hw

theorem map_world {α : Type} {e : R α} {f : α → Val} {w : World} {r : Val} {w' : World} (hf : ∀ x, e = .ok x → NP (f x))
    (h : e.map (fun x => (f x, w)) = .ok (r, w')) : NP r ∧ w' = w := by
  cases e with
  | error e => cases h
  | ok x => simp [Except.map] at h; obtain ⟨rfl, rfl⟩ := h; exact ⟨hf x rfl, rfl⟩

theorem applyBin_np {w : World} {bk : BinK} {a b r : Val} {w' : World} (hw : WorldNP w) (ha : NP a) (hb : NP b)
    (h : applyBin w bk a b = .ok (r, w')) : NP r ∧ WorldNP w' := by
  cases bk
  case mul =>
    unfold applyBin at h
    simp only [] at h
    split at h
    · split at h <;> simp [U] at h
    · split at h
      · obtain ⟨n1, e⟩ := map_world (f := fun x => x) (fun x hx => liftDec_np hx) h
        rw [e]; exact ⟨n1, hw⟩
      · simp [U] at h
  case pow =>
    obtain ⟨d, e, _⟩ := SqProps.C04.pow_is_decimal w a b r w' h
    have hw' : w' = w := by
      unfold applyBin at h
      simp only [] at h
      split at h
      · cases h
      · split at h
        · cases h
        · cases hq : decPow _ _ with
          | error e => rw [hq] at h; cases h
          | ok x => rw [hq] at h; simp [Except.map] at h; exact h.2.symm
    rw [e, hw']; exact ⟨.dec, hw⟩
  case add =>
    unfold applyBin at h
    simp only [] at h
    split at h
    · cases h
    · rename_i b2 hb2
      have hb2n : NP b2 := by
        split at hb2
        · cases hb2; exact hb
        · cases hs : pyStr w.heap b with
          | error e => rw [hs] at hb2; cases hb2
          | ok x => rw [hs] at hb2; simp [Except.map] at hb2; subst hb2; exact .str
        · cases hb2; exact hb
      cases hq : pyAdd w.heap a b2 with
      | error e => rw [hq] at h; cases h
      | ok p =>
        obtain ⟨v0, h0⟩ := p
        rw [hq] at h
        simp [Except.map] at h
        obtain ⟨rfl, rfl⟩ := h
        obtain ⟨n1, n2⟩ := pyAdd_np hw.heap ha hb2n hq
        exact ⟨n1, world_heap hw n2⟩
  case sub =>
    unfold applyBin at h
    obtain ⟨n1, e⟩ := map_world (f := fun x => x) (fun x hx => pySub_np hx) h
    rw [e]; exact ⟨n1, hw⟩
  case div =>
    unfold applyBin at h
    obtain ⟨n1, e⟩ := map_world (f := fun x => x) (fun x hx => pyDiv_np hx) h
    rw [e]; exact ⟨n1, hw⟩
  all_goals
    unfold applyBin at h
    first
      | (obtain ⟨n1, e⟩ := map_world (f := fun x => Val.bool x) (fun _ _ => NP.bool) h; rw [e]; exact ⟨n1, hw⟩)
      | (obtain ⟨n1, e⟩ := map_world (f := fun x => Val.bool (!x)) (fun _ _ => NP.bool) h; rw [e]; exact ⟨n1, hw⟩)
      | (simp [U] at h)

theorem writeTop_np {h h' : Heap} {scopes : List Nat} {n : Name} {v : Val} (hh : HeapNP h) (hv : NP v)
    (hw : writeTop h scopes n v = some h') : HeapNP h' := by
  unfold writeTop at hw
  split at hw
  · cases hw
  · split at hw
    · rename_i kvs hg
      cases hw
      exact heapNP_set hh _ (o := .dict _) (kvSet_np (hh _ _ hg) n hv)
    · cases hw

theorem pyNeg_np {a v : Val} (h : pyNeg a = .ok v) : NP v := by
  unfold pyNeg at h
  split at h
  · exact liftDec_np h
  · cases h; exact .int
  · cases h; exact .int
  all_goals first | (simp [U] at h; done) | cases h

theorem buildDict_np (h : Heap) : ∀ (n : Nat) (vs : List Val) (acc out : List (Val × Val)), vs.length ≤ n → AllNP vs →
    (∀ kv, kv ∈ acc → NP kv.1 ∧ NP kv.2) → buildDict h vs acc = .ok out → ∀ kv, kv ∈ out → NP kv.1 ∧ NP kv.2 := by
  intro n
  induction n with
  | zero =>
    intro vs acc out hl _ ha hb
    cases vs with
    | nil => simp [buildDict] at hb; subst hb; exact ha
    | cons x r => simp at hl
  | succ n ih =>
    intro vs acc out hl hvs ha hb
    cases vs with
    | nil => simp [buildDict] at hb; subst hb; exact ha
    | cons k r =>
      cases r with
      | nil => simp [buildDict] at hb; subst hb; exact ha
      | cons v rest =>
        simp only [buildDict] at hb
        split at hb
        · cases hb
        · exact ih rest _ out (by simp at hl; omega) (fun x hx => hvs x (by simp [hx]))
            (kvSet_np ha _ (hvs v (by simp))) hb
        · simp [U] at hb

theorem enter_np (op : Op) (vmi : Nat) (k : List Frame) (w : World) (hk : FK k) (hw : WorldPD w) :
    CoreNP (enter op vmi k w) := by
  unfold enter
  split
  · exact core_ret .none hk hw.np
  · exact core_ret .none hk hw.np
  · exact core_ret .bool hk hw.np
  · exact core_ret .dec hk hw.np
  · exact core_ret .str hk hw.np
  · exact core_ret .none hk hw.np
  · exact core_ev (fk_cons trivial hk) hw.np
  · exact core_ev (fk_cons trivial hk) hw.np
  · exact core_ev (fk_cons trivial hk) hw.np
  · exact core_ev (fk_cons trivial hk) hw.np
  · exact core_ev (fk_cons trivial hk) hw.np
  · split
    · exact core_raise hk hw.np
    · split
      · rename_i v hl
        exact core_ret (lookupName_np hw.np.heap _ _ _ hl) hk hw.np
      · exact core_raise hk hw.np
  · exact core_ev (fk_cons trivial hk) hw.np
  · exact core_ev (fk_cons trivial hk) hw.np
  · exact doCall_np _ _ _ _ _ allPD_nil hk hw
  · exact core_ev (fk_cons (fr := .argsK _ [] _ _) (fun v hv => by cases hv) hk) hw.np
  · simp only [Heap.alloc]
    exact core_ret .ref hk (world_heap hw.np (heapNP_push hw.np.heap (o := .dict []) (fun kv h => by cases h)))
  · exact core_ev (fk_cons (fr := .dictK [] _ _) (fun v hv => by cases hv) hk) hw.np
  · exact core_ret .closure hk hw.np

theorem resume_np (fr : Frame) (v : Val) (k : List Frame) (w : World) (hfr : FrameP PD fr) (hv : PD v) (hk : FK k)
    (hw : WorldPD w) : CoreNP (resume fr v k w) := by
  cases fr with
  | codeK rest vm =>
    cases rest with
    | nil => exact core_ret hv.np hk hw.np
    | cons l r => exact core_ev (fk_cons trivial hk) hw.np
  | binL bk b vm =>
    unfold resume
    cases bk <;> simp only []
    case and => split <;> first | exact core_ev hk hw.np | exact core_ret hv.np hk hw.np
    case or => split <;> first | exact core_ev hk hw.np | exact core_ret hv.np hk hw.np
    all_goals exact core_ev (fk_cons (fr := .binR _ v) hv.np hk) hw.np
  | binR bk va =>
    unfold resume
    simp only []
    split
    · rename_i r w' happ
      obtain ⟨n1, n2⟩ := applyBin_np hw.np (PD.np hfr) hv.np happ
      exact core_ret n1 hk n2
    · exact core_raise hk hw.np
  | unK uk =>
    unfold resume
    simp only []
    split
    · rename_i r happ
      refine core_ret ?_ hk hw.np
      unfold applyUn at happ
      cases uk
      · exact pyNeg_np happ
      · cases happ; exact .bool
    · exact core_raise hk hw.np
  | assignK n vm =>
    unfold resume
    simp only []
    split
    · exact core_raise hk hw.np
    · rename_i v' h' hd
      obtain ⟨hh', hv'⟩ := deepcopy'_np hw.np.heap hv.np hd
      split
      · exact core_raise hk hw.np
      · split
        · rename_i h'' hwt
          exact core_ret .none hk (world_heap hw.np (writeTop_np hh' hv' hwt))
        · exact core_raise hk hw.np
  | shortK n sk vm =>
    unfold resume
    simp only []
    split
    · exact core_raise hk hw.np
    · rename_i v' h' hd
      obtain ⟨hh', hv'⟩ := deepcopy'_np hw.np.heap hv.np hd
      split
      · exact core_raise hk hw.np
      · split
        · exact core_raise hk hw.np
        · rename_i cur hl
          have hcur := lookupName_np hh' _ _ _ hl
          split
          · exact core_raise hk hw.np
          · rename_i nv s hin
            obtain ⟨hnv, hs⟩ := pyInplace_np (s := { heap := h', rng := w.rng, rx := w.rx }) ⟨hh', hw.np.rx⟩ hcur hv' hin
            split
            · rename_i h'' hwt
              exact core_ret .none hk (world_heap hw.np (writeTop_np hs.1 hnv hwt))
            · exact core_raise hk hw.np
  | ifK a b vm =>
    unfold resume
    simp only []
    split <;> exact core_ev hk hw.np
  | sliceK done todo vm =>
    unfold resume
    simp only []
    split
    · exact core_raise hk hw.np
    · split
      · exact core_ev (fk_cons trivial hk) hw.np
      · split
        · exact core_ret .slice hk hw.np
        · exact core_raise hk hw.np
  | argsK n done todo vm =>
    unfold resume
    simp only []
    split
    · refine core_ev (fk_cons (fr := .argsK n (v :: done) _ vm) ?_ hk) hw.np
      exact fun x hx => by
        rcases List.mem_cons.mp hx with e | e
        · rw [e]; exact hv.np
        · exact (hfr x e).np
    · refine doCall_np _ _ _ _ _ ?_ hk hw
      intro x hx
      rcases List.mem_cons.mp (List.mem_reverse.mp hx) with e | e
      · rw [e]; exact hv
      · exact hfr x e
  | dictK done todo vm =>
    unfold resume
    simp only []
    split
    · refine core_ev (fk_cons (fr := .dictK (v :: done) _ vm) ?_ hk) hw.np
      exact fun x hx => by
        rcases List.mem_cons.mp hx with e | e
        · rw [e]; exact hv.np
        · exact (hfr x e).np
    · split
      · exact core_raise hk hw.np
      · rename_i kvs hb
        simp only [Heap.alloc]
        refine core_ret .ref hk (world_heap hw.np (heapNP_push hw.np.heap (o := .dict kvs) ?_))
        refine buildDict_np w.heap _ _ [] kvs (Nat.le_refl _) ?_ (fun kv h => by cases h) hb
        intro x hx
        rcases List.mem_cons.mp (List.mem_reverse.mp hx) with e | e
        · rw [e]; exact hv.np
        · exact (hfr x e).np
  | popScopeK vm =>
    unfold resume
    simp only []
    split
    · exact core_raise hk hw.np
    · exact core_ret hv.np hk (world_setVM hw.np _ _)
  | iterK kind g src cur acc =>
    unfold resume
    simp only []
    obtain ⟨h1, h2, h3, h4, h5⟩ := hfr
    refine (call_np callFuel).2 _ _ _ _ _ _ h1 h2 h3 ?_ hk hw
    cases kind with
    | map => exact allPD_cons hv h5
    | filter =>
      dsimp only
      split
      · exact allPD_cons h4 h5
      · exact h5
    | reduce => exact allPD_cons hv allPD_nil
    | sortKeys a b c => exact allPD_cons hv h5
  | tryK => exact core_ret hv.np hk hw.np
  | astK n rest main vm =>
    unfold resume
    simp only []
    split
    · exact core_raise hk hw.np
    · split
      · exact core_raise hk hw.np
      · rename_i h' hwt
        have hwn := world_heap hw.np (writeTop_np hw.np.heap hv.np hwt)
        split
        · exact core_ev hk hwn
        · exact core_ev (fk_cons trivial hk) hwn

theorem unwind_np (fr : Frame) (e : PyErr) (k : List Frame) (w : World) (hk : FK k) (hw : WorldNP w) :
    CoreNP (unwind fr e k w) := by
  unfold unwind
  split
  · split
    · exact core_raise hk hw
    · exact core_raise hk (world_setVM hw _ _)
  · split
    · exact core_raise hk hw
    · exact core_ret .none hk (world_log hw _)
  · exact core_raise hk hw

theorem charge_np {w : World} {budgets : List Nat} {vmi : Nat} {w' : World} {lim : Option Nat} (hw : WorldPD w)
    (h : charge w budgets vmi = some (w', lim)) : WorldPD w' := by
  unfold charge at h
  split at h
  · injection h with h
    injection h with h1 h2
    subst h1
    exact ⟨hw.heap, hw.rx, hw.probes⟩
  · cases h

/-- **plain_step**: from a configuration whose values are all plain data and in which the type object `dict` does not
    occur as a value, one machine step leads to a configuration whose values are all plain data -/
theorem plain_step (budgets : List Nat) (c : Core) (hc : CorePD c) : CoreNP (stepCore budgets c) := by
  have hk : FK c.k := fun fr hfr => FrameP_np (hc.frames fr hfr)
  unfold stepCore
  split
  · rename_i op vmi hctl
    split
    · exact ⟨trivial, hk, hc.world.np⟩
    · rename_i w' m hch
      exact ⟨trivial, hk, (charge_np hc.world hch).np⟩
    · rename_i w' hch
      exact enter_np op vmi c.k w' hk (charge_np hc.world hch)
  · rename_i v hctl
    have hv : PD v := by have := hc.ctl; rw [hctl] at this; exact this
    split
    · exact ⟨hv.np, hk, hc.world.np⟩
    · rename_i fr k hkk
      have hfr : FrameP PD fr := hc.frames fr (by rw [hkk]; simp)
      have hk' : FK k := fun x hx => hk x (by rw [hkk]; simp [hx])
      exact resume_np fr v k c.w hfr hv hk' hc.world
  · rename_i e hctl
    split
    · exact ⟨trivial, hk, hc.world.np⟩
    · rename_i fr k hkk
      have hk' : FK k := fun x hx => hk x (by rw [hkk]; simp [hx])
      exact unwind_np fr e k c.w hk' hc.world.np
  · rename_i v hctl
    exact ⟨by have := hc.ctl; rw [hctl] at this ⊢; exact this.np, hk, hc.world.np⟩
  · rename_i e hctl
    exact ⟨by rw [hctl]; trivial, hk, hc.world.np⟩

theorem step_core (c : Cfg) : (step c).core = stepCore c.budgets c.core := rfl

theorem CorePD.np {c : Core} (h : CorePD c) : CoreNP c := by
  refine ⟨?_, fun fr hfr => FrameP_np (h.frames fr hfr), h.world.np⟩
  have := h.ctl
  cases hc : c.ctl with
  | ret v => rw [hc] at this; exact PD.np this
  | done v => rw [hc] at this; exact PD.np this
  | ev a b => trivial
  | raise e => trivial
  | failed e => trivial

theorem run_succ_right (i : Nat) (c : Cfg) : run (i + 1) c = step (run i c) := by
  induction i generalizing c with
  | zero => rfl
  | succ i ih => rw [run, ih (step c)]; rfl

/-- **plain_run**: along a whole run, as long as the type object `dict` does not turn up as a value (`hfree`: a plain
    configuration of the run is also `dict`-free — the D15 side condition), every configuration holds plain data only -/
theorem plain_run (n : Nat) (c : Cfg) (h0 : CorePD c.core)
    (hfree : ∀ i, i < n → CoreNP (run (i + 1) c).core → CorePD (run (i + 1) c).core) :
    ∀ i, i ≤ n → CoreNP (run i c).core ∧ CorePD (run i c).core := by
  intro i
  induction i with
  | zero => intro _; exact ⟨h0.np, h0⟩
  | succ i ih =>
    intro hi
    obtain ⟨_, hpd⟩ := ih (by omega)
    have hnp : CoreNP (run (i + 1) c).core := by
      rw [run_succ_right, step_core]; exact plain_step _ _ hpd
    exact ⟨hnp, hfree i (by omega) hnp⟩

end Sq
