/-
  SqLemmas/LexCont.lean — C15, character level (prefix half): the scanning functions of the lexer decide by what they consume
  plus at most two characters of look-ahead; replacing the continuation `r` of their input by one that has a blank inserted
  further on (or right at its start) does not change what they return.
-/
import SqLemmas.LexBlank
import SqLemmas.LexLemmas
namespace Sq

/-- `z` is `r` with the blank `b` inserted in front of its suffix `post` -/
inductive Cont (b : Char) (tail post : List Char) : List Char → List Char → Prop
  | here : Cont b tail post post (b :: tail)
  | cons (c : Char) {r z : List Char} : Cont b tail post r z → Cont b tail post (c :: r) (c :: z)

theorem Cont.append {b : Char} {tail post : List Char} (u : List Char) : Cont b tail post (u ++ post) (u ++ b :: tail) := by
  induction u with
  | nil => exact .here
  | cons c u ih => exact .cons c ih

theorem Cont.exists {b : Char} {tail post r z : List Char} (h : Cont b tail post r z) : ∃ u, r = u ++ post ∧ z = u ++ b :: tail := by
  induction h with
  | here => exact ⟨[], rfl, rfl⟩
  | cons c _ ih => obtain ⟨u, e1, e2⟩ := ih; exact ⟨c :: u, by simp [e1], by simp [e2]⟩

/-- a character after which no token continues and which extends no operator: a blank or the start of a comment -/
def isSepC (b : Char) : Prop := b = ' ' ∨ b = '\t' ∨ b = '#' ∨ b = '\n' ∨ b = '\r'

theorem isSepC_of_blank {b : Char} (h : isBlank b) : isSepC b := by
  rcases h with rfl | rfl
  · exact Or.inl rfl
  · exact Or.inr (Or.inl rfl)

theorem blank_other (b : Char) (hb : isSepC b) : classify b = .other := by
  rcases hb with rfl | rfl | rfl | rfl | rfl <;> decide

/-- a scan of characters of one class stops at the blank as it stopped before -/
theorem spanClass_cont (p : CC → Bool) (hp : p .other = false) (b : Char) (hb : isSepC b) (post : List Char) :
    ∀ (s a r : List Char), spanClass p s = some (a, r) → ∀ z, Cont b tail post r z → spanClass p (a ++ z) = some (a, z) := by
  intro s
  induction s with
  | nil =>
    intro a r h z hc
    simp [spanClass] at h
    obtain ⟨rfl, rfl⟩ := h
    cases hc with
    | here => simp [spanClass, blank_other b hb, hp]
  | cons c cs ih =>
    intro a r h z hc
    have step : ∀ (t : List Char), spanClass p (c :: t) =
        (match classify c with
         | .unknown => none
         | k => if p k then (match spanClass p t with | some (a, r) => some (c :: a, r) | none => none) else some ([], c :: t)) := by
      intro t; rfl
    rw [step] at h
    cases hk : classify c with
    | unknown => rw [hk] at h; cases h
    | digit =>
      rw [hk] at h; simp only [] at h
      by_cases hpk : p .digit = true
      · simp only [hpk, if_true] at h
        cases hrec : spanClass p cs with
        | none => rw [hrec] at h; cases h
        | some ar =>
          obtain ⟨a', r'⟩ := ar
          rw [hrec] at h; simp at h; obtain ⟨rfl, rfl⟩ := h
          rw [List.cons_append, step, hk]; simp only [hpk, if_true, ih a' r' hrec z hc]
      · simp only [hpk] at h; simp at h; obtain ⟨rfl, rfl⟩ := h
        cases hc with
        | here => rw [List.nil_append]; simp [spanClass, blank_other b hb, hp]
        | cons _ hc' => rw [List.nil_append, step, hk]; simp [hpk]
    | letter =>
      rw [hk] at h; simp only [] at h
      by_cases hpk : p .letter = true
      · simp only [hpk, if_true] at h
        cases hrec : spanClass p cs with
        | none => rw [hrec] at h; cases h
        | some ar =>
          obtain ⟨a', r'⟩ := ar
          rw [hrec] at h; simp at h; obtain ⟨rfl, rfl⟩ := h
          rw [List.cons_append, step, hk]; simp only [hpk, if_true, ih a' r' hrec z hc]
      · simp only [hpk] at h; simp at h; obtain ⟨rfl, rfl⟩ := h
        cases hc with
        | here => rw [List.nil_append]; simp [spanClass, blank_other b hb, hp]
        | cons _ hc' => rw [List.nil_append, step, hk]; simp [hpk]
    | other =>
      rw [hk] at h; simp only [hp] at h; simp at h; obtain ⟨rfl, rfl⟩ := h
      cases hc with
      | here => rw [List.nil_append]; simp [spanClass, blank_other b hb, hp]
      | cons _ hc' => rw [List.nil_append, step, hk]; simp [hp]

/-- a string body ends at its closing quote whatever follows -/
theorem strBody_any (q : Char) : ∀ (n : Nat) (cs b r : List Char), cs.length ≤ n →
    strBody q cs = some (b, r) → ∀ z, strBody q (b ++ q :: z) = some (b, z) := by
  intro n
  induction n with
  | zero => intro cs b r hl h; cases cs with
    | nil => simp [strBody] at h
    | cons c t => simp at hl
  | succ n ih =>
    intro cs b r hl h z
    have close : ∀ z : List Char, strBody q (q :: z) = some ([], z) := by
      intro z; cases z with
      | nil => simp [strBody]
      | cons d ds => simp [strBody]
    match cs, h with
    | [], h => simp [strBody] at h
    | [c], h =>
      simp only [strBody] at h
      split at h
      · simp at h; obtain ⟨rfl, rfl⟩ := h; exact close z
      · simp at h
    | c :: d :: ds, h =>
      simp only [strBody] at h
      split at h
      · simp at h; obtain ⟨rfl, rfl⟩ := h; exact close z
      · rename_i hcq
        split at h
        · rename_i hbs
          split at h
          · simp at h
          · rename_i hdn
            split at h
            · rename_i b' r' hrec
              simp at h; obtain ⟨rfl, rfl⟩ := h
              have := ih ds b' r' (by simp at hl; omega) hrec z
              show strBody q (c :: d :: (b' ++ q :: z)) = _
              have hq' : ¬ ('\\' = q) := fun e => hcq (hbs.trans e)
              simp only [strBody, hbs, hdn, if_false, if_true, this, hq']
            · simp at h
        · rename_i hnbs
          split at h
          · simp at h
          · rename_i hcn
            split at h
            · rename_i b' r' hrec
              simp at h; obtain ⟨rfl, rfl⟩ := h
              have := ih (d :: ds) b' r' (by simp at hl ⊢; omega) hrec z
              -- the input is c :: (b' ++ q :: z) with b' ++ q :: z non-empty
              cases hb' : b' ++ q :: z with
              | nil => simp at hb'
              | cons e es =>
                show strBody q (c :: (b' ++ q :: z)) = _
                rw [hb']
                simp only [strBody, hcq, hnbs, hcn, if_false]
                rw [← hb', this]
            · simp at h

/-- … and so does a `%…%` name -/
theorem pctBody_any : ∀ (cs b r : List Char), pctBody cs = some (b, r) → ∀ z, pctBody (b ++ '%' :: z) = some (b, z) := by
  intro cs
  induction cs with
  | nil => intro b r h; simp [pctBody] at h
  | cons c cs ih =>
    intro b r h z
    simp only [pctBody] at h
    split at h
    · simp at h; obtain ⟨rfl, rfl⟩ := h; simp [pctBody]
    · rename_i hc
      split at h
      · cases h
      · rename_i hn
        split at h
        · rename_i b' r' hrec
          simp at h; obtain ⟨rfl, rfl⟩ := h
          simp [pctBody, hc, hn, ih b' r' hrec z]
        · cases h

/-- a prefix test against a pattern of at most two characters sees at most the first two characters -/
theorem startsWith_le2 (c : Char) (t1 t2 : List Char) (h : t1.head? = t2.head?) (pat : List Char) (hp : pat.length ≤ 2) :
    Str.startsWith (c :: t1) pat = Str.startsWith (c :: t2) pat := by
  match pat, hp with
  | [], _ => simp [Str.startsWith]
  | [x], _ => simp [Str.startsWith]
  | [x, y], _ =>
    cases t1 <;> cases t2 <;> simp_all [Str.startsWith]

theorem simpleOps_short : ∀ p ∈ simpleOps, p.1.length ≤ 2 := by decide

theorem find_congr {α : Type} (p q : α → Bool) : ∀ (l : List α), (∀ x ∈ l, p x = q x) → l.find? p = l.find? q := by
  intro l
  induction l with
  | nil => intro _; rfl
  | cons a l ih =>
    intro h
    simp only [List.find?]
    rw [h a (by simp), ih (fun x hx => h x (by simp [hx]))]

/-- the operator table decides by the first two characters -/
theorem matchSimple_head (c : Char) (t1 t2 : List Char) (h : t1.head? = t2.head?) :
    matchSimple (c :: t1) = matchSimple (c :: t2) := by
  unfold matchSimple
  apply find_congr
  intro p hp
  exact startsWith_le2 c t1 t2 h p.1 (simpleOps_short p hp)

/-- one character, or two of which the second is not `b` -/
def okShape (b : Char) (p : List Char × Tk) : Bool :=
  match p.1 with
  | [_] => true
  | [_, y] => y != b
  | _ => false

theorem simpleOps_shape (b : Char) (hb : isSepC b) : ∀ p ∈ simpleOps, okShape b p = true := by
  rcases hb with rfl | rfl | rfl | rfl | rfl <;> decide

/-- a one-character operator found with any continuation is found when a blank follows -/
theorem find_one_blank (c b : Char) (r t : List Char) : ∀ (ops : List (List Char × Tk)),
    (∀ p ∈ ops, okShape b p = true) → ∀ (lit : List Char) (ty : Tk),
    ops.find? (fun p => Str.startsWith (c :: r) p.1) = some (lit, ty) → lit.length = 1 →
    ops.find? (fun p => Str.startsWith (c :: b :: t) p.1) = some (lit, ty) := by
  intro ops
  induction ops with
  | nil => intro _ lit ty h; simp at h
  | cons p ps ih =>
    intro hsh lit ty h hl
    have hp := hsh p (by simp)
    obtain ⟨pl, pt⟩ := p
    simp only [List.find?] at h ⊢
    cases hs : Str.startsWith (c :: r) pl with
    | true =>
      rw [hs] at h
      simp at h
      obtain ⟨rfl, rfl⟩ := h
      match pl, hl, hs with
      | [x], _, hs =>
        simp only [Str.startsWith] at hs ⊢
        simp [hs]
    | false =>
      rw [hs] at h
      simp only [] at h
      have hnew : Str.startsWith (c :: b :: t) pl = false := by
        match pl, hp, hs with
        | [x], _, hs => simp only [Str.startsWith] at hs ⊢; simpa using hs
        | [x, y], hp, _ =>
          simp only [okShape] at hp
          simp only [Str.startsWith]
          have : (b == y) = false := by
            simp only [bne_iff_ne, ne_eq] at hp
            simp [Ne.symm hp]
          simp [this]
        | [], hp, _ => simp [okShape] at hp
        | _ :: _ :: _ :: _, hp, _ => simp [okShape] at hp
      rw [hnew]
      exact ih (fun q hq => hsh q (by simp [hq])) lit ty h hl

theorem matchSimple_blank (c b : Char) (hb : isSepC b) (r t : List Char) (lit : List Char) (ty : Tk)
    (h : matchSimple (c :: r) = some (lit, ty)) (hl : lit.length = 1) : matchSimple (c :: b :: t) = some (lit, ty) :=
  find_one_blank c b r t simpleOps (simpleOps_shape b hb) lit ty h hl

theorem Cont.head {b : Char} {post r z : List Char} (h : Cont b tail post r z) : z.head? = r.head? ∨ z.head? = some b := by
  cases h with
  | here => exact Or.inr rfl
  | cons c _ => exact Or.inl rfl

theorem Cont.cases_head {b : Char} {post r z : List Char} (h : Cont b tail post r z) :
    (∃ t, z = b :: t) ∨ z.head? = r.head? := by
  cases h with
  | here => exact Or.inl ⟨_, rfl⟩
  | cons c _ => exact Or.inr rfl

theorem blank_ne (b : Char) (hb : isSepC b) : b ≠ '=' ∧ b ≠ '*' ∧ b ≠ '.' ∧ True ∧ b ≠ '"' ∧ b ≠ '\'' := by
  rcases hb with rfl | rfl | rfl | rfl | rfl <;> decide

/-- **punctuation**: what `lexPunct` returns for a non-comment character depends on the continuation only through its
    first character, and a blank there changes nothing that a one-character decision had seen -/
theorem lexPunct_cont (st : LexSt) (c : Char) (cs : List Char) (hc : c ≠ '#') (b : Char) (hb : isSepC b) (post : List Char)
    {t : Token} {st' : LexSt} {r : List Char} (h : lexPunct st c cs = .tok t st' r) :
    ∃ u, cs = u ++ r ∧ ∀ z, Cont b tail post r z → lexPunct st c (u ++ z) = .tok t st' z := by
  obtain ⟨hbe, hbs, _, _, _, _⟩ := blank_ne b hb
  unfold lexPunct at h
  split at h
  · -- %name%
    rename_i hpc
    split at h
    · rename_i bd rest hp
      simp only [mk, LexRes.tok.injEq] at h
      obtain ⟨rfl, rfl, rfl⟩ := h
      obtain ⟨e, _⟩ := pctBody_spec cs bd rest hp
      refine ⟨bd ++ ['%'], by simp [e], ?_⟩
      intro z _
      unfold lexPunct
      simp only [hpc, if_true]
      have := pctBody_any cs bd rest hp z
      simp only [List.append_assoc, List.cons_append, List.nil_append, this, mk]
    · cases h
  · rename_i hpc
    split at h
    · -- SHORT_OP
      rename_i hso
      simp only [mk, LexRes.tok.injEq] at h
      obtain ⟨rfl, rfl, rfl⟩ := h
      obtain ⟨hops, hhd⟩ := hso
      cases cs with
      | nil => simp at hhd
      | cons d ds =>
        simp at hhd; subst hhd
        refine ⟨['='], by simp, ?_⟩
        intro z _
        unfold lexPunct
        simp [hpc, hc, hops, mk]
    · rename_i hso
      split at h
      · -- POWER
        rename_i hpw
        simp only [mk, LexRes.tok.injEq] at h
        obtain ⟨rfl, rfl, rfl⟩ := h
        obtain ⟨hstar, hhd⟩ := hpw
        cases cs with
        | nil => simp at hhd
        | cons d ds =>
          simp at hhd; subst hhd; subst hstar
          refine ⟨['*'], by simp, ?_⟩
          intro z _
          unfold lexPunct
          simp [mk]
      · rename_i hpw
        split at h
        · -- DOT
          rename_i hdot
          simp only [mk, LexRes.tok.injEq] at h
          obtain ⟨rfl, rfl, rfl⟩ := h
          subst hdot
          refine ⟨[], rfl, ?_⟩
          intro z _
          unfold lexPunct
          simp [mk]
        · rename_i hdot
          split at h
          · rename_i lit ty hm
            simp only [mk, LexRes.tok.injEq] at h
            obtain ⟨rfl, rfl, rfl⟩ := h
            have hmem := List.mem_of_find?_eq_some hm
            have hsw : Str.startsWith (c :: cs) lit = true := by
              have := List.find?_some hm; simpa using this
            have hsplit := startsWith_split (c :: cs) lit hsw
            have hlen := simpleOps_short _ hmem
            have hne : lit ≠ [] := (simpleOps_no_nl _ hmem).2
            -- the earlier branches stay closed for any continuation with the same head, and for a blank
            have redo : ∀ (cs' : List Char), cs'.head? = cs.head? ∨ (∃ t, cs' = b :: t) →
                lexPunct st c cs' = (match matchSimple (c :: cs') with
                  | some (lit, ty) => mk ty lit st lit.length 0 ((c :: cs').drop lit.length)
                  | none => .err (.illegal c st.pos)) := by
              intro cs' hh
              unfold lexPunct
              rw [if_neg hpc, if_neg hc]
              have h1 : ¬ ((c = '+' ∨ c = '-' ∨ c = '*' ∨ c = '/') ∧ cs'.head? = some '=') := by
                rcases hh with e | ⟨t, rfl⟩
                · rw [e]; exact hso
                · simp; intro _; exact hbe
              have h2 : ¬ (c = '*' ∧ cs'.head? = some '*') := by
                rcases hh with e | ⟨t, rfl⟩
                · rw [e]; exact hpw
                · simp; intro _; exact hbs
              rw [if_neg h1, if_neg h2, if_neg hdot]
              cases matchSimple (c :: cs') with
              | none => rfl
              | some p => rfl
            match lit, hne, hlen, hsplit, hm with
            | [x], _, _, hsplit, hm =>
              simp at hsplit
              obtain ⟨rfl, hcs⟩ := hsplit
              refine ⟨[], by simp, ?_⟩
              intro z hz
              rw [List.nil_append]
              rcases hz.cases_head with ⟨t, rfl⟩ | hh
              · rw [redo _ (Or.inr ⟨t, rfl⟩), matchSimple_blank c b hb cs t _ _ hm rfl]
                simp [mk]
              · simp only [List.drop_succ_cons, List.drop_zero, List.length_singleton] at hh
                rw [redo _ (Or.inl hh), matchSimple_head c z cs hh, hm]
                simp [mk]
            | [x, y], _, _, hsplit, hm =>
              simp at hsplit
              obtain ⟨rfl, hcs⟩ := hsplit
              cases cs with
              | nil => simp at hcs
              | cons d ds =>
                simp at hcs
                obtain ⟨rfl, hds⟩ := hcs
                refine ⟨[y], by simp, ?_⟩
                intro z _
                rw [List.singleton_append, redo (y :: z) (Or.inl rfl), matchSimple_head c (y :: z) (y :: ds) rfl, hm]
                simp [mk]
            | [], hne, _, _, _ => exact absurd rfl hne
            | _ :: _ :: _ :: _, _, hlen, _, _ => simp at hlen
          · cases h

theorem Cont.prepend {b : Char} {post r z : List Char} (u : List Char) (h : Cont b tail post r z) : Cont b tail post (u ++ r) (u ++ z) := by
  induction u with
  | nil => exact h
  | cons c u ih => exact .cons c ih

theorem spanClass_split (p : CC → Bool) : ∀ (s a r : List Char), spanClass p s = some (a, r) → s = a ++ r := by
  intro s
  induction s with
  | nil => intro a r h; simp [spanClass] at h; obtain ⟨rfl, rfl⟩ := h; rfl
  | cons c cs ih =>
    intro a r h
    simp only [spanClass] at h
    split at h
    · cases h
    · split at h
      · split at h
        · rename_i a' r' hrec
          simp at h; obtain ⟨rfl, rfl⟩ := h
          simp [ih a' r' hrec]
        · cases h
      · simp at h; obtain ⟨rfl, rfl⟩ := h; rfl

theorem spanClass_head (p : CC → Bool) (c : Char) (cs a r : List Char) (hk : classify c ≠ .unknown) (hp : p (classify c) = true)
    (h : spanClass p (c :: cs) = some (a, r)) : ∃ a', a = c :: a' := by
  have step : spanClass p (c :: cs) =
      (match classify c with
       | .unknown => none
       | k => if p k then (match spanClass p cs with | some (a, r) => some (c :: a, r) | none => none) else some ([], c :: cs)) := rfl
  rw [step] at h
  cases hcl : classify c with
  | unknown => exact absurd hcl hk
  | digit =>
    rw [hcl] at h hp; simp only [hp, if_true] at h
    cases hr : spanClass p cs with
    | none => rw [hr] at h; cases h
    | some ar => rw [hr] at h; simp at h; exact ⟨_, h.1.symm⟩
  | letter =>
    rw [hcl] at h hp; simp only [hp, if_true] at h
    cases hr : spanClass p cs with
    | none => rw [hr] at h; cases h
    | some ar => rw [hr] at h; simp at h; exact ⟨_, h.1.symm⟩
  | other =>
    rw [hcl] at h hp; simp only [hp, if_true] at h
    cases hr : spanClass p cs with
    | none => rw [hr] at h; cases h
    | some ar => rw [hr] at h; simp at h; exact ⟨_, h.1.symm⟩

/-- **numbers**: `\d+(\.\d+)?` stops at a blank as it stopped before; the two characters it may look at past the integer
    part (`.` and a digit) are the same or a blank -/
theorem lexNumber_cont (st : LexSt) (c : Char) (cs : List Char) (hd : classify c = .digit) (b : Char) (hb : isSepC b)
    (post : List Char) {t : Token} {st' : LexSt} {r : List Char} (h : lexNumber st c cs = .tok t st' r) :
    ∃ u, cs = u ++ r ∧ ∀ z, Cont b tail post r z → lexNumber st c (u ++ z) = .tok t st' z := by
  have hbo := blank_other b hb
  obtain ⟨_, _, hbdot, _, _, _⟩ := blank_ne b hb
  have hdig : isDigitCC .other = false := rfl
  unfold lexNumber at h
  split at h
  · cases h
  · rename_i ip rest hsp
    have hsplit := spanClass_split _ _ _ _ hsp
    obtain ⟨ip', rfl⟩ := spanClass_head isDigitCC c cs ip rest (by rw [hd]; decide) (by rw [hd]; rfl) hsp
    simp only [List.cons_append, List.cons.injEq, true_and] at hsplit
    have scan : ∀ z1, Cont b tail post rest z1 → spanClass isDigitCC (c :: (ip' ++ z1)) = some (c :: ip', z1) :=
      fun z1 hz1 => spanClass_cont isDigitCC hdig b hb post _ _ _ hsp z1 hz1
    -- the branch that keeps only the integer part, for any continuation that does not start with `.digit`
    have intOnly : ∀ z1, Cont b tail post rest z1 →
        (∀ d r2, z1 = '.' :: d :: r2 → classify d ≠ .unknown ∧ classify d ≠ .digit) →
        lexNumber st c (ip' ++ z1) = mk .NUMBER (c :: ip') st (c :: ip').length 0 z1 := by
      intro z1 hz1 hno
      unfold lexNumber
      rw [scan z1 hz1]
      simp only []
      split
      · rename_i d r2
        obtain ⟨h1, h2⟩ := hno d r2 rfl
        split
        · rename_i hu; exact absurd hu h1
        · rename_i hdg; exact absurd hdg h2
        · rfl
      · rfl
    split at h
    · rename_i d r2
      split at h
      · cases h
      · rename_i hdg
        split at h
        · cases h
        · rename_i fp rest2 hsp2
          simp only [mk, LexRes.tok.injEq] at h
          obtain ⟨rfl, rfl, rfl⟩ := h
          have hs2 := spanClass_split _ _ _ _ hsp2
          obtain ⟨fp', rfl⟩ := spanClass_head isDigitCC d r2 fp rest2 (by rw [hdg]; decide) (by rw [hdg]; rfl) hsp2
          refine ⟨ip' ++ '.' :: d :: fp', by rw [hsplit, hs2]; simp, ?_⟩
          intro z hz
          have hz1 : Cont b tail post ('.' :: d :: r2) ('.' :: (d :: fp' ++ z)) := by
            rw [hs2]; exact Cont.cons '.' (Cont.prepend (d :: fp') hz)
          unfold lexNumber
          have e : c :: ((ip' ++ '.' :: d :: fp') ++ z) = c :: (ip' ++ '.' :: (d :: fp' ++ z)) := by simp
          rw [e, scan _ hz1]
          simp only [List.cons_append, hdg]
          have := spanClass_cont isDigitCC hdig b hb post _ _ _ hsp2 z hz
          simp only [List.cons_append] at this
          rw [this]
          simp [mk]
      · rename_i hnd hnu
        simp only [mk, LexRes.tok.injEq] at h
        obtain ⟨rfl, rfl, rfl⟩ := h
        refine ⟨ip', hsplit, ?_⟩
        intro z hz
        rw [intOnly z hz]
        · rfl
        · intro d' r2' ez
          cases hz with
          | here => injection ez with e1 _; exact absurd e1 hbdot
          | cons c0 hz' =>
            injection ez with _ e2
            cases hz' with
            | here => injection e2 with e3 _; subst e3; rw [hbo]; exact ⟨by decide, by decide⟩
            | cons d0 _ => injection e2 with e3 _; subst e3; exact ⟨hnd, hnu⟩
    · rename_i hnot
      simp only [mk, LexRes.tok.injEq] at h
      obtain ⟨rfl, rfl, rfl⟩ := h
      refine ⟨ip', hsplit, ?_⟩
      intro z hz
      rw [intOnly z hz]
      · rfl
      · intro d' r2' ez
        cases hz with
        | here => injection ez with e1 _; exact absurd e1 hbdot
        | cons c0 hz' =>
          injection ez with e1 e2
          subst e1
          cases hz' with
          | here => injection e2 with e3 _; subst e3; rw [hbo]; exact ⟨by decide, by decide⟩
          | cons d0 _ => exact absurd rfl (hnot d0 _)

theorem quote_ne_nl (q : Char) (h : isQuote q = true) : q ≠ '\n' := by
  intro e; subst e; simp [isQuote] at h

theorem strBody_split (q : Char) (hq : isQuote q = true) (cs b r : List Char) (h : strBody q cs = some (b, r)) : cs = b ++ q :: r :=
  (strBody_spec q (quote_ne_nl q hq) cs.length cs b r (Nat.le_refl _) h).1

/-- a string literal is delimited by its own quotes: whatever follows the closing quote is the rest -/
theorem matchString_any (s v : List Char) (n : Nat) (rest : List Char) (h : matchString s = some (v, n, rest)) :
    ∃ raw, s = raw ++ rest ∧ raw ≠ [] ∧ ∀ z, matchString (raw ++ z) = some (v, n, z) := by
  unfold matchString at h
  split at h
  · rename_i q cs
    split at h
    · rename_i hq
      split at h
      · rename_i bd r hb
        simp at h; obtain ⟨rfl, rfl, rfl⟩ := h
        have e := strBody_split q hq cs bd r hb
        refine ⟨'r' :: q :: (bd ++ [q]), by simp [e], by simp, ?_⟩
        intro z
        have := strBody_any q cs.length cs bd r (Nat.le_refl _) hb z
        simp only [List.cons_append, List.append_assoc, List.nil_append, matchString, hq, if_true, this]
      · cases h
    · cases h
  · rename_i q cs hnr
    split at h
    · rename_i hq
      split at h
      · rename_i bd r hb
        simp at h; obtain ⟨rfl, rfl, rfl⟩ := h
        have e := strBody_split q hq cs bd r hb
        refine ⟨q :: (bd ++ [q]), by simp [e], by simp, ?_⟩
        intro z
        have := strBody_any q cs.length cs bd r (Nat.le_refl _) hb z
        -- the first pattern ('r' :: quote :: …) cannot apply: q is a quote, not the letter r
        have hqr : q ≠ 'r' := by
          intro e; subst e; simp [isQuote] at hq
        simp only [List.cons_append, List.append_assoc, List.nil_append]
        unfold matchString
        split
        · rename_i q' cs' heq
          injection heq with h1 _
          exact absurd h1 hqr
        · rename_i q' cs' _ heq
          injection heq with h1 h2
          subst h1; subst h2
          simp only [hq, if_true, this]
        · rename_i heq; cases heq
      · cases h
    · cases h
  · cases h

theorem matchString_none_plain (c : Char) (x : List Char) (hq : isQuote c = false) (hr : c ≠ 'r') : matchString (c :: x) = none := by
  unfold matchString
  split
  · rename_i q cs heq; injection heq with h1 _; exact absurd h1 hr
  · rename_i q cs _ heq; injection heq with h1 _; subst h1; simp [hq]
  · rename_i heq; cases heq

theorem matchString_r (x : List Char) : matchString ('r' :: x) =
    match x with
    | q :: cs => if isQuote q then (match strBody q cs with | some (b, r) => some (b, b.length + 3, r) | none => none) else none
    | [] => none := by
  cases x with
  | nil => simp [matchString, isQuote]
  | cons q cs =>
    simp only [matchString]
    split
    · cases strBody q cs <;> rfl
    · rfl

/-- an opening quote whose string never closes is an illegal character -/
theorem quote_step_err (st : LexSt) (q : Char) (t : List Char) (hq : isQuote q = true) (hs : strBody q t = none) :
    ∃ e, lexStep st (q :: t) = .err e := by
  have hcases : q = '"' ∨ q = '\'' := by
    simp only [isQuote, Bool.or_eq_true, beq_iff_eq] at hq; exact hq
  have hms : matchString (q :: t) = none := by
    rcases hcases with rfl | rfl
    · simp [matchString, isQuote, hs]
    · simp [matchString, isQuote, hs]
  refine ⟨.illegal q st.pos, ?_⟩
  rcases hcases with rfl | rfl
  · simp [lexStep, lexBracket, lexWord, hms, classify, lexPunct, matchSimple, simpleOps, Str.startsWith]
  · simp [lexStep, lexBracket, lexWord, hms, classify, lexPunct, matchSimple, simpleOps, Str.startsWith]

theorem quote_other (q : Char) (h : isQuote q = true) : classify q = .other := by
  have : q = '"' ∨ q = '\'' := by simp only [isQuote, Bool.or_eq_true, beq_iff_eq] at h; exact h
  rcases this with rfl | rfl <;> decide

theorem not_quote_of_class (c : Char) (h : classify c ≠ .other) : isQuote c = false := by
  cases hq : isQuote c with
  | false => rfl
  | true => exact absurd (quote_other c hq) h

theorem Cont.ne_nil {b : Char} {post r z : List Char} (h : Cont b tail post r z) : z ≠ [] := by
  cases h <;> simp

theorem lexPunct_hash (st : LexSt) (cs : List Char) : ∃ st' r, lexPunct st '#' cs = .skip st' r := by
  unfold lexPunct; simp

theorem spanClass_all (p : CC → Bool) : ∀ (s a r : List Char), spanClass p s = some (a, r) → ∀ x, x ∈ a → p (classify x) = true := by
  intro s
  induction s with
  | nil => intro a r h; simp [spanClass] at h; obtain ⟨rfl, rfl⟩ := h; intro x hx; cases hx
  | cons c cs ih =>
    intro a r h
    have step : spanClass p (c :: cs) =
        (match classify c with
         | .unknown => none
         | k => if p k then (match spanClass p cs with | some (a, r) => some (c :: a, r) | none => none) else some ([], c :: cs)) := rfl
    rw [step] at h
    cases hk : classify c with
    | unknown => rw [hk] at h; cases h
    | digit =>
      rw [hk] at h; simp only [] at h
      by_cases hpk : p .digit = true
      · simp only [hpk, if_true] at h
        cases hrec : spanClass p cs with
        | none => rw [hrec] at h; cases h
        | some ar =>
          rw [hrec] at h; simp at h; obtain ⟨rfl, rfl⟩ := h
          intro x hx
          rcases List.mem_cons.mp hx with e | e
          · rw [e, hk]; exact hpk
          · exact ih _ _ hrec x e
      · simp only [hpk] at h; simp at h; obtain ⟨rfl, rfl⟩ := h; intro x hx; cases hx
    | letter =>
      rw [hk] at h; simp only [] at h
      by_cases hpk : p .letter = true
      · simp only [hpk, if_true] at h
        cases hrec : spanClass p cs with
        | none => rw [hrec] at h; cases h
        | some ar =>
          rw [hrec] at h; simp at h; obtain ⟨rfl, rfl⟩ := h
          intro x hx
          rcases List.mem_cons.mp hx with e | e
          · rw [e, hk]; exact hpk
          · exact ih _ _ hrec x e
      · simp only [hpk] at h; simp at h; obtain ⟨rfl, rfl⟩ := h; intro x hx; cases hx
    | other =>
      rw [hk] at h; simp only [] at h
      by_cases hpk : p .other = true
      · simp only [hpk, if_true] at h
        cases hrec : spanClass p cs with
        | none => rw [hrec] at h; cases h
        | some ar =>
          rw [hrec] at h; simp at h; obtain ⟨rfl, rfl⟩ := h
          intro x hx
          rcases List.mem_cons.mp hx with e | e
          · rw [e, hk]; exact hpk
          · exact ih _ _ hrec x e
      · simp only [hpk] at h; simp at h; obtain ⟨rfl, rfl⟩ := h; intro x hx; cases hx

/-- **strings, numbers, names, punctuation**: one token of `lexWord`, re-lexed with a blank inserted into the continuation -/
theorem lexWord_cont (st : LexSt) (c : Char) (cs : List Char) (b : Char) (hb : isSepC b) (post : List Char)
    {t : Token} {st' : LexSt} {r : List Char} (h : lexWord st c cs = .tok t st' r) :
    ∃ u, cs = u ++ r ∧ ∀ z, Cont b tail post r z → ((∃ t, z = b :: t) ∨ ∀ e, lexStep st' r ≠ .err e) →
      lexWord st c (u ++ z) = .tok t st' z := by
  have hbo := blank_other b hb
  obtain ⟨_, _, _, _, hbq1, hbq2⟩ := blank_ne b hb
  have hbnq : isQuote b = false := by simp [isQuote, hbq1, hbq2]
  unfold lexWord at h
  split at h
  · -- STRING
    rename_i v n rest hms
    simp only [mk, LexRes.tok.injEq] at h
    obtain ⟨rfl, rfl, rfl⟩ := h
    obtain ⟨raw, e, hne, hany⟩ := matchString_any _ _ _ _ hms
    cases raw with
    | nil => exact absurd rfl hne
    | cons x u =>
      simp only [List.cons_append, List.cons.injEq] at e
      obtain ⟨rfl, ecs⟩ := e
      refine ⟨u, ecs, ?_⟩
      intro z _ _
      unfold lexWord
      have := hany z
      simp only [List.cons_append] at this
      rw [this]
      rfl
  · rename_i hms
    split at h
    · cases h
    · -- NUMBER
      rename_i hcl
      obtain ⟨u, e, hz⟩ := lexNumber_cont st c cs hcl b hb post h
      refine ⟨u, e, ?_⟩
      intro z hc _
      unfold lexWord
      have hq : isQuote c = false := not_quote_of_class c (by rw [hcl]; decide)
      have hr : c ≠ 'r' := by intro e; subst e; simp [classify] at hcl
      rw [matchString_none_plain c _ hq hr]
      simp only [hcl]
      exact hz z hc
    · -- NAME
      rename_i hcl
      split at h
      · cases h
      · rename_i w rest hsp
        simp only [mk, LexRes.tok.injEq] at h
        obtain ⟨rfl, rfl, rfl⟩ := h
        have hsplit := spanClass_split _ _ _ _ hsp
        obtain ⟨w', rfl⟩ := spanClass_head isWordCC c cs w rest (by rw [hcl]; decide) (by rw [hcl]; rfl) hsp
        simp only [List.cons_append, List.cons.injEq, true_and] at hsplit
        refine ⟨w', hsplit, ?_⟩
        intro z hc hside
        have hq : isQuote c = false := not_quote_of_class c (by rw [hcl]; decide)
        have hms' : matchString (c :: (w' ++ z)) = none := by
          by_cases hr : c = 'r'
          · subst hr
            rw [matchString_r]
            cases w' with
            | cons x0 xs =>
              -- the second character of the name is a word character, not a quote
              have hx0 : classify x0 ≠ .other := by
                have := spanClass_all isWordCC _ _ _ hsp x0 (by simp)
                intro hco; rw [hco] at this; cases this
              simp only [List.cons_append, not_quote_of_class x0 hx0]
              rfl
            | nil =>
              rw [List.nil_append]
              rw [List.nil_append] at hsplit
              rw [hsplit] at hms
              cases hc with
              | here => simp [hbnq]
              | cons q0 hc' =>
                by_cases hq0 : isQuote q0 = true
                · -- the old text has an unterminated raw string here: its next step is an error
                  rename_i rest' z'
                  exfalso
                  have hold : matchString ('r' :: q0 :: rest') = none := hms
                  rw [matchString_r] at hold
                  simp only [hq0, if_true] at hold
                  have hsb : strBody q0 rest' = none := by
                    cases hs : strBody q0 rest' with
                    | none => rfl
                    | some p => rw [hs] at hold; cases hold
                  obtain ⟨e, he⟩ := quote_step_err { st with pos := st.pos + ['r'].length, depth := st.depth + 0 } q0 rest' hq0 hsb
                  rcases hside with ⟨_, hh⟩ | hh
                  · injection hh with h1 _; subst h1; rw [hbnq] at hq0; cases hq0
                  · exact hh e he
                · simp [hq0]
          · exact matchString_none_plain c _ hq hr
        unfold lexWord
        rw [hms']
        simp only [hcl]
        have := spanClass_cont isWordCC rfl b hb post _ _ _ hsp z hc
        simp only [List.cons_append] at this
        rw [this]
        rfl
    · -- punctuation
      rename_i hcl
      have hne : c ≠ '#' := by
        intro e; subst e
        obtain ⟨s1, r1, e1⟩ := lexPunct_hash st cs
        rw [e1] at h; cases h
      obtain ⟨u, e, hz⟩ := lexPunct_cont st c cs hne b hb post h
      refine ⟨u, e, ?_⟩
      intro z hc _
      have hr : c ≠ 'r' := by intro e; subst e; simp [classify] at hcl
      have hq : isQuote c = false := by
        cases hqq : isQuote c with
        | false => rfl
        | true =>
          exfalso
          -- a quote whose string does not close is an illegal character: no token
          have hsb : matchString (c :: cs) = none := hms
          have : c = '"' ∨ c = '\'' := by simp only [isQuote, Bool.or_eq_true, beq_iff_eq] at hqq; exact hqq
          rcases this with rfl | rfl
          · simp [lexPunct, matchSimple, simpleOps, Str.startsWith] at h
          · simp [lexPunct, matchSimple, simpleOps, Str.startsWith] at h
      unfold lexWord
      rw [matchString_none_plain c _ hq hr]
      simp only [hcl]
      exact hz z hc

/-! ### comments: the blank may be swallowed -/

theorem dropLine_length_le (cs : List Char) : (dropLine cs).length ≤ cs.length := by
  induction cs with
  | nil => simp [dropLine]
  | cons c cs ih =>
    simp only [dropLine]
    split
    · exact Nat.le_refl _
    · simp only [List.length_cons]; omega

theorem dropLine_fix (r : List Char) (h : r = [] ∨ ∃ t, r = '\n' :: t) : dropLine r = r := by
  rcases h with rfl | ⟨t, rfl⟩ <;> simp [dropLine]

theorem dropLine_shape (cs : List Char) : dropLine cs = [] ∨ ∃ t, dropLine cs = '\n' :: t := by
  induction cs with
  | nil => exact Or.inl rfl
  | cons c cs ih =>
    simp only [dropLine]
    split
    · rename_i hc; exact Or.inr ⟨cs, by rw [hc]⟩
    · exact ih

theorem dropLine_append (pre x : List Char) (hn : nl pre = 0) : dropLine (pre ++ x) = dropLine x := by
  induction pre with
  | nil => rfl
  | cons c pre ih =>
    have hc : c ≠ '\n' := by
      intro e; subst e; rw [nl_cons_eq] at hn; omega
    rw [nl_cons_ne _ _ hc] at hn
    simp only [List.cons_append, dropLine, hc, if_false]
    exact ih hn

/-- the two ways a step can come out when a blank is inserted into its continuation: unchanged (rest replaced), or — for a
    comment that runs up to the insertion point — the blank swallowed by the comment -/
inductive StepCont (b : Char) (st : LexSt) (u : List Char) (R : LexRes) (r z : List Char) : Prop
  | same_tok (t : Token) (st' : LexSt) : R = .tok t st' r → lexStep st (u ++ z) = .tok t st' z → StepCont b st u R r z
  | same_skip (st' : LexSt) : R = .skip st' r → lexStep st (u ++ z) = .skip st' z → StepCont b st u R r z
  | swallowed (st' : LexSt) : R = .skip st' r → z = b :: r → lexStep st (u ++ z) = .skip (st'.shift 1) r → StepCont b st u R r z

theorem lexBracket_cont (st : LexSt) (c : Char) (cs : List Char) (b : Char) (hb : isSepC b) (post : List Char)
    {t : Token} {st' : LexSt} {r : List Char} (h : lexBracket st c cs = .tok t st' r) :
    ∃ u, cs = u ++ r ∧ ∀ z, Cont b tail post r z → ((∃ t, z = b :: t) ∨ ∀ e, lexStep st' r ≠ .err e) →
      lexBracket st c (u ++ z) = .tok t st' z := by
  unfold lexBracket at h
  split at h
  · rename_i hc; simp only [mk, LexRes.tok.injEq] at h; obtain ⟨rfl, rfl, rfl⟩ := h
    exact ⟨[], rfl, fun z _ _ => by simp [lexBracket, hc, mk]⟩
  · rename_i h1
    split at h
    · rename_i hc; simp only [mk, LexRes.tok.injEq] at h; obtain ⟨rfl, rfl, rfl⟩ := h
      exact ⟨[], rfl, fun z _ _ => by simp [lexBracket, h1, hc, mk]⟩
    · rename_i h2
      split at h
      · rename_i hc; simp only [mk, LexRes.tok.injEq] at h; obtain ⟨rfl, rfl, rfl⟩ := h
        exact ⟨[], rfl, fun z _ _ => by simp [lexBracket, h1, h2, hc, mk]⟩
      · rename_i h3
        split at h
        · rename_i hc; simp only [mk, LexRes.tok.injEq] at h; obtain ⟨rfl, rfl, rfl⟩ := h
          exact ⟨[], rfl, fun z _ _ => by simp [lexBracket, h1, h2, h3, hc, mk]⟩
        · rename_i h4
          split at h
          · rename_i hc; simp only [mk, LexRes.tok.injEq] at h; obtain ⟨rfl, rfl, rfl⟩ := h
            exact ⟨[], rfl, fun z _ _ => by simp [lexBracket, h1, h2, h3, h4, hc, mk]⟩
          · rename_i h5
            split at h
            · rename_i hc; simp only [mk, LexRes.tok.injEq] at h; obtain ⟨rfl, rfl, rfl⟩ := h
              exact ⟨[], rfl, fun z _ _ => by simp [lexBracket, h1, h2, h3, h4, h5, hc, mk]⟩
            · rename_i h6
              obtain ⟨u, e, hz⟩ := lexWord_cont st c cs b hb post h
              refine ⟨u, e, fun z hc hs => ?_⟩
              unfold lexBracket
              rw [if_neg h1, if_neg h2, if_neg h3, if_neg h4, if_neg h5, if_neg h6]
              exact hz z hc hs

/-- **one step that delivers a token**, re-run with a blank inserted into the continuation: the same token, the same
    state, the continuation with the blank -/
theorem lexStep_cont_tok (st : LexSt) (s : List Char) (b : Char) (hb : isSepC b) (post : List Char)
    {t : Token} {st' : LexSt} {r : List Char} (h : lexStep st s = .tok t st' r) :
    ∃ u, s = u ++ r ∧ ∀ z, Cont b tail post r z → ((∃ t, z = b :: t) ∨ ∀ e, lexStep st' r ≠ .err e) →
      lexStep st (u ++ z) = .tok t st' z := by
  cases s with
  | nil => simp [lexStep] at h
  | cons c cs =>
    simp only [lexStep] at h
    split at h
    · cases h
    · rename_i hbl
      split at h
      · rename_i hcr
        split at h
        · rename_i hdep
          simp only [mkNL, LexRes.tok.injEq] at h
          obtain ⟨rfl, rfl, rfl⟩ := h
          obtain ⟨hc, hhd⟩ := hcr
          cases cs with
          | nil => simp at hhd
          | cons d ds =>
            simp at hhd; subst hhd
            refine ⟨[c, '\n'], by simp, fun z _ _ => ?_⟩
            simp [lexStep, hbl, hc, hdep, mkNL]
        · cases h
      · rename_i hcr
        split at h
        · rename_i hnl
          split at h
          · rename_i hdep
            simp only [mkNL, LexRes.tok.injEq] at h
            obtain ⟨rfl, rfl, rfl⟩ := h
            refine ⟨[c], by simp, fun z _ _ => ?_⟩
            subst hnl
            simp [lexStep, hdep, mkNL]
          · cases h
        · rename_i hnl
          split at h
          · rename_i hsemi
            simp only [mk, LexRes.tok.injEq] at h
            obtain ⟨rfl, rfl, rfl⟩ := h
            refine ⟨[c], by simp, fun z _ _ => ?_⟩
            subst hsemi
            simp [lexStep, mk]
          · rename_i hsemi
            obtain ⟨u, e, hz⟩ := lexBracket_cont st c cs b hb post h
            refine ⟨c :: u, by simp [e], fun z hc hs => ?_⟩
            -- the '\r' test looks at the next character: it failed before, and c is not '\r' followed by '\n' now either
            have hcr' : ¬ (c = '\r' ∧ (u ++ z).head? = some '\n') := by
              intro ⟨hc1, hh⟩
              subst hc1
              -- then the old step, not being `\r\n`, went to lexBracket … lexPunct with '\r': an error, not a token
              exfalso
              simp [lexBracket, lexWord, matchString, isQuote, classify, lexPunct, matchSimple, simpleOps, Str.startsWith] at h
            show lexStep st (c :: (u ++ z)) = _
            simp only [lexStep]
            rw [if_neg hbl, if_neg hcr', if_neg hnl, if_neg hsemi]
            exact hz z hc hs

theorem mk_ne_skip (ty : Tk) (v : List Char) (st : LexSt) (n : Nat) (dd : Int) (rest : List Char) (st' : LexSt) (r : List Char) :
    mk ty v st n dd rest ≠ .skip st' r := by simp [mk]

theorem lexNumber_not_skip (st : LexSt) (c : Char) (cs : List Char) (st' : LexSt) (r : List Char) :
    lexNumber st c cs ≠ .skip st' r := by
  unfold lexNumber
  repeat' split
  all_goals first | exact mk_ne_skip _ _ _ _ _ _ _ _ | (intro h; cases h)

/-- only a comment makes `lexBracket` skip -/
theorem lexBracket_skip (st : LexSt) (c : Char) (cs : List Char) (st' : LexSt) (r : List Char)
    (h : lexBracket st c cs = .skip st' r) :
    c = '#' ∧ r = dropLine cs ∧ st' = { st with pos := st.pos + 1 + (cs.length - (dropLine cs).length) } := by
  unfold lexBracket at h
  repeat' split at h
  all_goals try (exact absurd h (mk_ne_skip _ _ _ _ _ _ _ _))
  unfold lexWord at h
  split at h
  · exact absurd h (mk_ne_skip _ _ _ _ _ _ _ _)
  · split at h
    · cases h
    · exact absurd h (lexNumber_not_skip _ _ _ _ _)
    · split at h
      · cases h
      · exact absurd h (mk_ne_skip _ _ _ _ _ _ _ _)
    · unfold lexPunct at h
      split at h
      · split at h
        · exact absurd h (mk_ne_skip _ _ _ _ _ _ _ _)
        · cases h
      · split at h
        · rename_i hc
          injection h with h1 h2
          exact ⟨hc, h2.symm, h1.symm⟩
        · repeat' split at h
          all_goals first | exact absurd h (mk_ne_skip _ _ _ _ _ _ _ _) | cases h

theorem lexStep_hash (st : LexSt) (cs : List Char) :
    lexStep st ('#' :: cs) = .skip { st with pos := st.pos + 1 + (cs.length - (dropLine cs).length) } (dropLine cs) := by
  simp [lexStep, lexBracket, lexWord, matchString, isQuote, classify, lexPunct]

/-- **one step that delivers nothing** (a blank, a line break inside brackets, a comment), re-run with a blank inserted into
    the continuation: the same, or — a comment that runs up to the insertion point — the blank is swallowed -/
theorem lexStep_cont_skip (st : LexSt) (s : List Char) (b : Char) (hb : isSepC b) (post : List Char)
    {st' : LexSt} {r : List Char} (h : lexStep st s = .skip st' r) :
    ∃ u, s = u ++ r ∧ ∀ z, Cont b tail post r z →
      lexStep st (u ++ z) = .skip st' z ∨
        (b ≠ '\n' ∧ r = post ∧ z = b :: tail ∧ (r = [] ∨ ∃ t, r = '\n' :: t) ∧
          lexStep st (u ++ z) = .skip (st'.shift (1 + (tail.length - (dropLine tail).length))) (dropLine tail)) := by
  obtain ⟨_, _, _, hbnl, _, _⟩ := blank_ne b hb
  cases s with
  | nil => simp [lexStep] at h
  | cons c cs =>
    simp only [lexStep] at h
    split at h
    · rename_i hbl
      injection h with h1 h2
      subst h1; subst h2
      exact ⟨[c], by simp, fun z _ => Or.inl (by simp [lexStep, hbl])⟩
    · rename_i hbl
      split at h
      · rename_i hcr
        split at h
        · simp [mkNL] at h
        · rename_i hdep
          injection h with h1 h2
          subst h1; subst h2
          obtain ⟨hc, hhd⟩ := hcr
          cases cs with
          | nil => simp at hhd
          | cons d ds =>
            simp at hhd; subst hhd
            exact ⟨[c, '\n'], by simp, fun z _ => Or.inl (by simp [lexStep, hbl, hc, hdep])⟩
      · rename_i hcr
        split at h
        · rename_i hnl
          split at h
          · simp [mkNL] at h
          · rename_i hdep
            injection h with h1 h2
            subst h1; subst h2
            subst hnl
            exact ⟨['\n'], by simp, fun z _ => Or.inl (by simp [lexStep, hdep])⟩
        · rename_i hnl
          split at h
          · simp [mk] at h
          · rename_i hsemi
            obtain ⟨rfl, hr, hst⟩ := lexBracket_skip st c cs st' r h
            obtain ⟨pre, epre, hpre⟩ := dropLine_spec cs
            rw [← hr] at epre
            refine ⟨'#' :: pre, by simp [epre], fun z hz => ?_⟩
            have hshape := dropLine_shape cs
            rw [← hr] at hshape
            cases hz with
            | here =>
              by_cases hbnl : b = '\n'
              · -- a line feed inserted where the comment ended: the comment ends there as before
                left
                subst hbnl
                have hd : dropLine (pre ++ '\n' :: tail) = '\n' :: tail := by
                  rw [dropLine_append pre _ hpre]; simp [dropLine]
                show lexStep st ('#' :: (pre ++ '\n' :: tail)) = _
                rw [lexStep_hash, hd, hst]
                have e1 : cs.length = pre.length + post.length := by rw [epre]; simp
                have e2 : (dropLine cs).length = post.length := by rw [← hr]
                congr 1
                simp only [LexSt.mk.injEq, and_true, List.length_append, List.length_cons] at *
                omega
              right
              refine ⟨hbnl, rfl, rfl, hshape, ?_⟩
              have hd : dropLine (pre ++ b :: tail) = dropLine tail := by
                rw [dropLine_append pre _ hpre]
                simp only [dropLine, hbnl, if_false]
              show lexStep st ('#' :: (pre ++ b :: tail)) = _
              rw [lexStep_hash, hd, hst]
              have e1 : cs.length = pre.length + post.length := by rw [epre]; simp
              have e2 : (dropLine cs).length = post.length := by rw [← hr]
              have e3 : (dropLine tail).length ≤ tail.length := dropLine_length_le tail
              congr 1
              simp only [LexSt.shift, LexSt.mk.injEq, and_true, List.length_append, List.length_cons] at *
              omega
            | cons c0 hz' =>
              left
              rename_i r0 z0
              -- the comment ends at a line feed that is still there
              have hc0 : c0 = '\n' := by
                rcases hshape with h0 | ⟨t, ht⟩
                · cases h0
                · injection ht with h1 _
              subst hc0
              have hd : dropLine (pre ++ '\n' :: z0) = '\n' :: z0 := by
                rw [dropLine_append pre _ hpre]; simp [dropLine]
              show lexStep st ('#' :: (pre ++ '\n' :: z0)) = _
              rw [lexStep_hash, hd, hst]
              have e1 : cs.length = pre.length + ('\n' :: r0).length := by rw [epre]; simp
              have e2 : (dropLine cs).length = ('\n' :: r0).length := by rw [← hr]
              congr 1
              simp only [LexSt.mk.injEq, and_true, List.length_append, List.length_cons] at *
              omega

end Sq
