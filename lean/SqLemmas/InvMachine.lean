/-
  SqLemmas/PlainMachine.lean — C02 [B] `plain_step`: one machine step from a configuration in which every value is plain
  data and the type object `dict` does not occur as a value (`PD`) leads to a configuration in which every value is
  plain data (`NP`): control, every continuation frame, iteration state, heap, regex answers, probe table.
  (The `dict` side condition is finding D15; everything else — the 42 table entries, lambdas, map / filter / reduce /
  sorted, host callbacks, assignments with their deep copies — is covered.)
-/
import SqLemmas.InvAll
import Sq.Machine
import SqProps.C04
namespace Sq.Inv

/-- the invariant, and in addition: the type object `dict` does not occur as a value unless opaque objects are allowed -/
inductive PDg (Pc : List Op → Op → Nat → Prop) (Pb : String → Prop) (Pq : String → Prop) (Pr : Nat → Prop) : Val → Prop
  | none : PDg Pc Pb Pq Pr .none
  | bool {x} : PDg Pc Pb Pq Pr (.bool x)
  | dec {d c} : PDg Pc Pb Pq Pr (.dec d c)
  | int {i} : PDg Pc Pb Pq Pr (.int i)
  | str {s} : PDg Pc Pb Pq Pr (.str s)
  | slice {x y z} : PDg Pc Pb Pq Pr (.slice x y z)
  | ref {a} : Pr a → PDg Pc Pb Pq Pr (.ref a)
  | builtin {n} : Pb n → (n ≠ "dict" ∨ ∀ q, Pq q) → PDg Pc Pb Pq Pr (.builtin n)
  | closure {ps body vm} : Pc ps body vm → PDg Pc Pb Pq Pr (.closure ps body vm)
  | host {i} : PDg Pc Pb Pq Pr (.host i)
  | opaque {s} : Pq s → PDg Pc Pb Pq Pr (.opaque s)
  | tuple {vs} : (∀ v, v ∈ vs → PDg Pc Pb Pq Pr v) → PDg Pc Pb Pq Pr (.tuple vs)

variable {Pc : List Op → Op → Nat → Prop} {Pb : String → Prop} {Pq : String → Prop} {Pr : Nat → Prop}
variable {Po : Op → Prop} {Pn : Name → Prop} {Psh : Prop}
local notation "NP" => NPg Pc Pb Pq Pr
local notation "ObjNP" => ObjNPg Pc Pb Pq Pr
local notation "HeapNP" => HeapNPg Pc Pb Pq Pr
local notation "AllNP" => AllNPg Pc Pb Pq Pr
local notation "RxNP" => RxNPg Pc Pb Pq Pr
local notation "StNP" => StNPg Pc Pb Pq Pr
local notation "PresNP" => PresNPg Pc Pb Pq Pr
local notation "PD" => PDg Pc Pb Pq Pr

theorem PDg.np : ∀ {v : Val}, PD v → NP v
  | _, .none => .none
  | _, .bool => .bool
  | _, .dec => .dec
  | _, .int => .int
  | _, .str => .str
  | _, .slice => .slice
  | _, .ref h => .ref h
  | _, .builtin hb _ => .builtin hb
  | _, .closure hc => .closure hc
  | _, .host => .host
  | _, .opaque hq => .opaque hq
  | _, .tuple h => .tuple (fun v hv => (h v hv).np)

/-- when opaque objects are allowed the two coincide -/
theorem np_pd (hq : ∀ q, Pq q) : ∀ {v : Val}, NP v → PD v
  | _, .none => .none
  | _, .bool => .bool
  | _, .dec => .dec
  | _, .int => .int
  | _, .str => .str
  | _, .slice => .slice
  | _, .ref h => .ref h
  | _, .builtin hb => .builtin hb (Or.inr hq)
  | _, .closure hc => .closure hc
  | _, .host => .host
  | _, .opaque h => .opaque h
  | _, .tuple h => .tuple (fun v hv => np_pd hq (h v hv))

theorem PDg.not_dict {v : Val} (h : PD v) : v ≠ .builtin "dict" ∨ ∀ q, Pq q := by
  by_cases e : v = .builtin "dict"
  · subst e; cases h with | builtin _ hn => exact hn.imp (fun hn => absurd rfl hn) id
  · exact Or.inl e

variable (Pc Pb Pq Pr) in
def AllPDg (vs : List Val) : Prop := ∀ v, v ∈ vs → PD v
local notation "AllPD" => AllPDg Pc Pb Pq Pr
theorem AllPDg.np {vs : List Val} (h : AllPD vs) : AllNP vs := fun v hv => (h v hv).np
theorem AllPDg.head_ne {vs : List Val} (h : AllPD vs) : vs.head? ≠ some (.builtin "dict") ∨ ∀ q, Pq q := by
  cases vs with
  | nil => simp
  | cons x r => simp; exact (h x (by simp)).not_dict

variable (Pc Pb Pq Pr) in
def ObjPDg : HObj → Prop
  | .list xs => AllPD xs
  | .dict kvs => ∀ kv, kv ∈ kvs → PD kv.1 ∧ PD kv.2
local notation "ObjPD" => ObjPDg Pc Pb Pq Pr
variable (Pc Pb Pq Pr) in
def HeapPDg (h : Heap) : Prop := (∀ a o, h.get? a = some o → ObjPD o) ∧ ∀ a, h.size ≤ a → Pr a
local notation "HeapPD" => HeapPDg Pc Pb Pq Pr
theorem HeapPDg.np {h : Heap} (hh : HeapPD h) : HeapNP h := by
  refine ⟨?_, hh.2⟩
  intro a o hg
  have := hh.1 a o hg
  cases o with
  | list xs => exact AllPDg.np this
  | dict kvs => exact fun kv hkv => ⟨(this kv hkv).1.np, (this kv hkv).2.np⟩

/-! ### what "every value of the configuration" means -/

def SrcP (P : Val → Prop) : IterSrc → Prop
  | .live _ _ => True
  | .snap items => ∀ l, l ∈ items → ∀ v, v ∈ l → P v

def KindP (P : Val → Prop) : IterKind → Prop
  | .sortKeys items _ _ => ∀ v, v ∈ items → P v
  | _ => True

/-- the values of a frame satisfy `P`; its pending nodes satisfy `Po`; the names it will look up satisfy `Pn` -/
def FramePg (Po : Op → Prop) (Pn : Name → Prop) (Psh : Prop) (P : Val → Prop) : Frame → Prop
  | .binR _ va => P va
  | .argsK n done todo _ => (∀ v, v ∈ done → P v) ∧ Pn n ∧ ∀ o, o ∈ todo → Po o
  | .dictK done todo _ => (∀ v, v ∈ done → P v) ∧ ∀ o, o ∈ todo → Po o
  | .iterK kind f src cur acc => KindP P kind ∧ P f ∧ SrcP P src ∧ P cur ∧ ∀ v, v ∈ acc → P v
  | .codeK rest _ => ∀ o, o ∈ rest → Po o
  | .binL _ b _ => Po b
  | .ifK a b _ => Po a ∧ Po b
  | .sliceK _ todo _ => ∀ o, o ∈ todo → Po o
  | .shortK n _ _ => Psh ∧ Pn n
  | .astK _ rest main _ => (∀ p, p ∈ rest → Po p.2) ∧ Po main
  | _ => True

local notation "FrameP" => FramePg Po Pn Psh

def CtlPg (Po : Op → Prop) (P : Val → Prop) : Ctl → Prop
  | .ret v => P v
  | .done v => P v
  | .ev op _ => Po op
  | _ => True

local notation "CtlP" => CtlPg Po

/-- the node predicate is closed under the ways the machine takes nodes apart, and gives what closures and builtin
    values need -/
structure OpsOK (Pc : List Op → Op → Nat → Prop) (Pb : String → Prop) (Po : Op → Prop) (Pn : Name → Prop) (Psh : Prop) : Prop where
  builtin : ∀ n, Pn n → builtinNames.contains (String.ofList n) = true → Pb (String.ofList n)
  name : ∀ n, Po (.name n) → Pn n
  call : ∀ n args, Po (.call n args) → Pn n ∧ ∀ a, a ∈ args → Po a
  short : ∀ n k v, Po (.short n k v) → Psh ∧ Pn n ∧ Po v
  assign : ∀ n v, Po (.assign n v) → Po v
  lambda : ∀ ps body vm, Po (.lambda ps body) → Pc ps body vm
  body : ∀ ps body vm, Pc ps body vm → Po body
  code : ∀ ls, Po (.code ls) → ∀ l, l ∈ ls → Po l
  bin : ∀ k a b, Po (.bin k a b) → Po a ∧ Po b
  unary : ∀ k a, Po (.unary k a) → Po a
  ifx : ∀ c a b, Po (.ifx c a b) → Po c ∧ Po a ∧ Po b
  slice : ∀ a b c, Po (.slice a b c) → Po a ∧ Po b ∧ Po c
  dict : ∀ kvs, Po (.dict kvs) → ∀ a, a ∈ kvs → Po a

def ProbesP (P : Val → Prop) (ps : List (Int × ProbeAct)) : Prop :=
  ∀ p, p ∈ ps → match p.2 with | .ret v => P v | .raise _ => True

def RxP (P : Val → Prop) (rx : List RxAns) : Prop :=
  ∀ a, a ∈ rx → match a with
    | .matched g0 gs => P g0 ∧ ∀ v, v ∈ gs → P v
    | .all items => ∀ v, v ∈ items → P v
    | _ => True

variable (Pc Pb Pq Pr) in
structure WorldNPg (w : World) : Prop where
  heap : HeapNP w.heap
  rx : RxNP w.rx
  probes : ProbesP NP w.probes

variable (Pc Pb Pq Pr) in
structure WorldPDg (w : World) : Prop where
  heap : HeapPD w.heap
  rx : RxP PD w.rx
  probes : ProbesP PD w.probes

local notation "WorldNP" => WorldNPg Pc Pb Pq Pr
local notation "WorldPD" => WorldPDg Pc Pb Pq Pr

variable (Pc Pb Pq Pr Po Pn Psh) in
structure CoreNPg (c : Core) : Prop where
  ctl : CtlP NP c.ctl
  frames : ∀ fr, fr ∈ c.k → FrameP NP fr
  world : WorldNP c.w

variable (Pc Pb Pq Pr Po Pn Psh) in
structure CorePDg (c : Core) : Prop where
  ctl : CtlP PD c.ctl
  frames : ∀ fr, fr ∈ c.k → FrameP PD fr
  world : WorldPD c.w

local notation "CoreNP" => CoreNPg Pc Pb Pq Pr Po Pn Psh
local notation "CorePD" => CorePDg Pc Pb Pq Pr Po Pn Psh

theorem RxP_np {rx : List RxAns} (h : RxP PD rx) : RxNP rx := by
  intro a ha
  have := h a ha
  cases a with
  | matched g0 gs => exact ⟨this.1.np, fun v hv => (this.2 v hv).np⟩
  | all items => exact fun v hv => (this v hv).np
  | noMatch => trivial
  | raised c => trivial

theorem WorldPDg.np {w : World} (h : WorldPD w) : WorldNP w :=
  ⟨h.heap.np, RxP_np h.rx, fun p hp => by
    have := h.probes p hp
    cases hq : p.2 with
    | ret v => rw [hq] at this; exact this.np
    | raise e => trivial⟩

theorem FrameP_np {fr : Frame} (h : FrameP PD fr) : FrameP NP fr := by
  cases fr with
  | binR k va => exact PDg.np h
  | argsK n done todo vm => exact ⟨fun v hv => (h.1 v hv).np, h.2⟩
  | dictK done todo vm => exact ⟨fun v hv => (h.1 v hv).np, h.2⟩
  | codeK rest vm => exact h
  | binL k b vm => exact h
  | ifK a b vm => exact h
  | sliceK done todo vm => exact h
  | shortK n k vm => exact h
  | astK n rest main vm => exact h
  | iterK kind f src cur acc =>
    obtain ⟨h1, h2, h3, h4, h5⟩ := h
    refine ⟨?_, h2.np, ?_, h4.np, fun v hv => (h5 v hv).np⟩
    · cases kind with
      | sortKeys items rev dm => exact fun v hv => (h1 v hv).np
      | map => trivial
      | filter => trivial
      | reduce => trivial
    · cases src with
      | live a i => trivial
      | snap items => exact fun l hl v hv => (h3 l hl v hv).np
  | _ => trivial

/-! ### sorting only rearranges -/

theorem mergeRuns_mem (h : Heap) : ∀ (f : Nat) (xs ys acc r : List (Val × Val)), mergeRuns h f xs ys acc = .ok r →
    ∀ p, p ∈ r → p ∈ acc ∨ p ∈ xs ∨ p ∈ ys := by
  intro f
  induction f with
  | zero =>
    intro xs ys acc r hr p hp
    simp [mergeRuns] at hr
    subst hr
    simp at hp
    rcases hp with h1 | h1 | h1
    · exact Or.inl h1
    · exact Or.inr (Or.inl h1)
    · exact Or.inr (Or.inr h1)
  | succ f ih =>
    intro xs ys acc r hr p hp
    cases xs with
    | nil =>
      simp [mergeRuns] at hr; subst hr; simp at hp
      rcases hp with h1 | h1
      · exact Or.inl h1
      · exact Or.inr (Or.inr h1)
    | cons x xs =>
      cases ys with
      | nil =>
        simp [mergeRuns] at hr; subst hr; simp at hp
        rcases hp with h1 | h1 | h1
        · exact Or.inl h1
        · exact Or.inr (Or.inl (by simp [h1]))
        · exact Or.inr (Or.inl (by simp [h1]))
      | cons y ys =>
        simp only [mergeRuns] at hr
        split at hr
        · cases hr
        · rcases ih _ _ _ _ hr p hp with h1 | h1 | h1
          · rcases List.mem_cons.mp h1 with e | e
            · exact Or.inr (Or.inr (by simp [e]))
            · exact Or.inl e
          · exact Or.inr (Or.inl h1)
          · exact Or.inr (Or.inr (by simp [h1]))
        · rcases ih _ _ _ _ hr p hp with h1 | h1 | h1
          · rcases List.mem_cons.mp h1 with e | e
            · exact Or.inr (Or.inl (by simp [e]))
            · exact Or.inl e
          · exact Or.inr (Or.inl (by simp [h1]))
          · exact Or.inr (Or.inr h1)

theorem sortPairsAux_mem (h : Heap) : ∀ (f : Nat) (xs r : List (Val × Val)), sortPairsAux h f xs = .ok r →
    ∀ p, p ∈ r → p ∈ xs := by
  intro f
  induction f with
  | zero => intro xs r hr p hp; simp [sortPairsAux] at hr; subst hr; exact hp
  | succ f ih =>
    intro xs r hr p hp
    simp only [sortPairsAux] at hr
    split at hr
    · cases hr; exact hp
    · split at hr
      · rename_i a b ha hb
        rcases mergeRuns_mem h _ _ _ _ _ hr p hp with h1 | h1 | h1
        · cases h1
        · exact List.mem_of_mem_take (ih _ _ ha p h1)
        · exact List.mem_of_mem_drop (ih _ _ hb p h1)
      · cases hr
      · cases hr

theorem sortedBy_mem {h : Heap} {keys items : List Val} {rev : Bool} {r : List Val}
    (hs : sortedBy h keys items rev = .ok r) : ∀ v, v ∈ r → v ∈ items := by
  unfold sortedBy at hs
  split at hs
  · cases hs
  · dsimp only at hs
    have key : ∀ (ps rr : List (Val × Val)), (∀ p, p ∈ ps → p ∈ keys.zip items) → sortPairs h ps = .ok rr →
        ∀ v, v ∈ rr.map (·.2) → v ∈ items := by
      intro ps rr hps hrr v hv
      obtain ⟨p, hp, e⟩ := List.mem_map.mp hv
      have := hps p (sortPairsAux_mem h _ ps rr hrr p hp)
      rw [← e]
      obtain ⟨k, x⟩ := p
      exact (List.of_mem_zip this).2
    split at hs
    · cases hq : sortPairs h (keys.zip items).reverse with
      | error e => rw [hq] at hs; cases hs
      | ok rr =>
        rw [hq] at hs
        simp [Except.map] at hs
        subst hs
        intro v hv
        exact key _ rr (fun p hp => List.mem_reverse.mp hp) hq v (List.mem_reverse.mp hv)
    · cases hq : sortPairs h (keys.zip items) with
      | error e => rw [hq] at hs; cases hs
      | ok rr =>
        rw [hq] at hs
        simp [Except.map] at hs
        subst hs
        exact key _ rr (fun p hp => hp) hq

/-! ### building plain configurations -/

variable (Pc Pb Pq Pr Po Pn Psh) in
abbrev FKg (k : List Frame) : Prop := ∀ fr, fr ∈ k → FrameP NP fr
local notation "FK" => FKg Pc Pb Pq Pr Po Pn Psh

theorem fk_cons {fr : Frame} {k : List Frame} (hf : FrameP NP fr) (hk : FK k) : FK (fr :: k) := by
  intro x hx
  rcases List.mem_cons.mp hx with e | e
  · rw [e]; exact hf
  · exact hk x e

theorem fk_tail {fr : Frame} {k : List Frame} (hk : FK (fr :: k)) : FK k := fun x hx => hk x (by simp [hx])

theorem core_ret {v : Val} {k : List Frame} {w : World} (hv : NP v) (hk : FK k) (hw : WorldNP w) : CoreNP (mkRet v k w) :=
  ⟨hv, hk, hw⟩
theorem core_raise {e : PyErr} {k : List Frame} {w : World} (hk : FK k) (hw : WorldNP w) : CoreNP (mkRaise e k w) :=
  ⟨trivial, hk, hw⟩
theorem core_ev {op : Op} {vmi : Nat} {k : List Frame} {w : World} (ho : Po op) (hk : FK k) (hw : WorldNP w) :
    CoreNP { ctl := .ev op vmi, k := k, w := w } := ⟨ho, hk, hw⟩

theorem world_heap {w : World} {h' : Heap} (hw : WorldNP w) (hh : HeapNP h') : WorldNP { w with heap := h' } :=
  ⟨hh, hw.rx, hw.probes⟩
theorem world_setVM {w : World} (hw : WorldNP w) (i : Nat) (vm : VM) : WorldNP (w.setVM i vm) :=
  ⟨hw.heap, hw.rx, hw.probes⟩
theorem world_log {w : World} (hw : WorldNP w) (l : List Event) : WorldNP { w with log := l } :=
  ⟨hw.heap, hw.rx, hw.probes⟩
theorem world_bstate {w : World} (hw : WorldNP w) : StNP w.bstate := ⟨hw.heap, hw.rx⟩
theorem world_withB {w : World} (hw : WorldNP w) {s : BState} (hs : StNP s) : WorldNP (w.withB s) :=
  ⟨hs.1, hs.2, hw.probes⟩

theorem ofBR_np {r : BR} {k : List Frame} {w : World} (hk : FK k) (hw : WorldNP w)
    (hr : ∀ v s', r = .ok (v, s') → NP v ∧ StNP s') : CoreNP (ofBR r k w) := by
  unfold ofBR
  split
  · rename_i v s' 
    obtain ⟨h1, h2⟩ := hr v s' rfl
    exact core_ret h1 hk (world_withB hw h2)
  · exact core_raise hk hw

theorem heap_listPD {h : Heap} (hh : HeapPD h) {a : Nat} {xs : List Val} (hg : h.get? a = some (.list xs)) : AllPD xs :=
  hh.1 a _ hg

theorem bindParams_np : ∀ (ps : List Op) (args : List Val) (acc out : List (Val × Val)),
    (∀ kv, kv ∈ acc → NP kv.1 ∧ NP kv.2) → AllNP args → bindParams ps args acc = some out →
    ∀ kv, kv ∈ out → NP kv.1 ∧ NP kv.2 := by
  intro ps
  induction ps with
  | nil => intro args acc out ha _ h; simp [bindParams] at h; subst h; exact ha
  | cons p ps ih =>
    intro args acc out ha hargs h
    cases args with
    | nil => simp [bindParams] at h; subst h; exact ha
    | cons v vs =>
      simp only [bindParams] at h
      split at h
      · exact ih vs _ out (kvSet_np ha _ (allNP_head hargs)) (allNP_tail hargs) h
      · cases h

theorem sortFinish_np {keys items : List Val} {rev dm : Bool} {k : List Frame} {w : World} (hi : AllNP items)
    (hk : FK k) (hw : WorldNP w) : CoreNP (sortFinish keys items rev dm k w) := by
  unfold sortFinish
  split
  · exact core_raise hk hw
  · rename_i sorted hs
    have hsn : AllNP sorted := fun v hv => hi v (sortedBy_mem hs v hv)
    split
    · simp only [Heap.alloc]
      refine core_ret (.ref (heapNP_fresh hw.heap)) hk (world_heap hw (heapNP_push hw.heap (o := .dict _) ?_))
      intro kv hkv
      obtain ⟨v, hv, e⟩ := List.mem_filterMap.mp hkv
      have hvn := hsn v hv
      split at e
      · injection e with e
        subst e
        cases hvn with | tuple hall => exact ⟨hall _ (by simp), hall _ (by simp)⟩
      · cases e
    · simp only [Heap.alloc]
      exact core_ret (.ref (heapNP_fresh hw.heap)) hk (world_heap hw (heapNP_push hw.heap (o := .list _) hsn))

variable (Pc Pb Pq Pr Po Pn Psh) in
def IterOKg (it : IterFn) : Prop :=
  ∀ kind g src acc k w, KindP PD kind → PD g → SrcP PD src → AllPD acc → FK k → WorldPD w → CoreNP (it kind g src acc k w)

local notation "IterOK" => IterOKg Pc Pb Pq Pr Po Pn Psh

theorem callClosure_np (ps : List Op) (body : Op) (vmi : Nat) (args : List Val) (k : List Frame) (w : World)
    (hb : Po body) (ha : AllNP args) (hk : FK k) (hw : WorldNP w) : CoreNP (callClosure ps body vmi args k w) := by
  unfold callClosure
  split
  · exact core_raise hk hw
  · rename_i kvs hbp
    split
    · exact core_raise hk hw
    · simp only [Heap.alloc]
      refine core_ev hb (fk_cons (fr := .popScopeK vmi) trivial hk) (world_setVM (world_heap hw (heapNP_push hw.heap (o := .dict kvs) ?_)) _ _)
      exact bindParams_np ps args [] kvs (fun kv h => by cases h) ha hbp

theorem allPD_nil : AllPD [] := fun _ h => by cases h
theorem allPD_tail {v : Val} {vs : List Val} (h : AllPD (v :: vs)) : AllPD vs := fun x hx => h x (by simp [hx])
theorem allPD_head {v : Val} {vs : List Val} (h : AllPD (v :: vs)) : PD v := h v (by simp)
theorem allPD_cons {v : Val} {vs : List Val} (h : PD v) (hs : AllPD vs) : AllPD (v :: vs) := by
  intro x hx
  rcases List.mem_cons.mp hx with e | e
  · rw [e]; exact h
  · exact hs x e

theorem iterItems_pd {h : Heap} (hh : HeapPD h) {c : Val} (hc : PD c) {items : List Val}
    (hi : iterItems h c = .ok items) : AllPD items := by
  unfold iterItems at hi
  split at hi
  · cases hi
    intro v hv
    obtain ⟨ch, _, e⟩ := List.mem_map.mp hv
    rw [← e]; exact .str
  · cases hi; cases hc with | tuple hall => exact hall
  · split at hi
    · rename_i hg; cases hi; exact hh.1 _ _ hg
    · rename_i hg; cases hi
      intro v hv
      obtain ⟨kv, hkv, e⟩ := List.mem_map.mp hv
      rw [← e]; exact (hh.1 _ _ hg kv hkv).1
    · simp [U] at hi
  · simp [U] at hi
  · cases hi

theorem callMap_np (it : IterFn) (hit : IterOK it) (args : List Val) (k : List Frame) (w : World) (ha : AllPD args)
    (hk : FK k) (hw : WorldPD w) : CoreNP (callMap it args k w) := by
  unfold callMap
  split
  · rename_i c g
    have hg : PD g := ha g (by simp)
    split
    · refine hit _ _ _ _ _ _ trivial hg ?_ allPD_nil hk hw
      intro l hl v hv
      obtain ⟨ch, _, e⟩ := List.mem_map.mp hl
      rw [← e] at hv; simp at hv; rw [hv]; exact .str
    · split
      · exact hit _ _ _ _ _ _ trivial hg trivial allPD_nil hk hw
      · rename_i kvs hgk
        refine hit _ _ _ _ _ _ trivial hg ?_ allPD_nil hk hw
        intro l hl v hv
        obtain ⟨kv, hkv, e⟩ := List.mem_map.mp hl
        rw [← e] at hv
        simp at hv
        rcases hv with e1 | e1 <;> rw [e1]
        · exact (hw.heap.1 _ _ hgk kv hkv).1
        · exact (hw.heap.1 _ _ hgk kv hkv).2
      · exact core_raise hk hw.np
    · exact core_raise hk hw.np
    · exact core_raise hk hw.np
  · exact core_raise hk hw.np

theorem callFilter_np (it : IterFn) (hit : IterOK it) (args : List Val) (k : List Frame) (w : World) (ha : AllPD args)
    (hk : FK k) (hw : WorldPD w) : CoreNP (callFilter it args k w) := by
  unfold callFilter
  split
  · split
    · split
      · rename_i xs hg
        simp only [Heap.alloc]
        exact core_ret (.ref (heapNP_fresh hw.np.heap)) hk (world_heap hw.np (heapNP_push hw.np.heap (o := .list _)
          (allNP_filter _ (AllPDg.np (hw.heap.1 _ _ hg)))))
      · exact core_raise hk hw.np
    · exact core_raise hk hw.np
    · exact core_raise hk hw.np
  · rename_i c g _
    have hg : PD g := ha g (by simp)
    split
    · split
      · exact hit _ _ _ _ _ _ trivial hg trivial allPD_nil hk hw
      · exact core_raise hk hw.np
    · exact core_raise hk hw.np
    · exact core_raise hk hw.np
  · exact core_raise hk hw.np

theorem callReduce_np (it : IterFn) (hit : IterOK it) (args : List Val) (k : List Frame) (w : World) (ha : AllPD args)
    (hk : FK k) (hw : WorldPD w) : CoreNP (callReduce it args k w) := by
  unfold callReduce
  split
  · rename_i c g
    have hg : PD g := ha g (by simp)
    have hc : PD c := ha c (by simp)
    split
    · exact core_raise hk hw.np
    · split
      · exact core_raise hk hw.np
      · exact core_raise hk hw.np
      · exact core_raise hk hw.np
      · rename_i x rest hi
        have hitems := iterItems_pd hw.heap hc hi
        refine hit _ _ _ _ _ _ trivial hg ?_ (allPD_cons (allPD_head hitems) allPD_nil) hk hw
        have hsnap : SrcP PD (.snap (rest.map (fun v => [v]))) := by
          intro l hl v hv
          obtain ⟨x0, hx0, e⟩ := List.mem_map.mp hl
          rw [← e] at hv; simp at hv; rw [hv]
          exact allPD_tail hitems x0 hx0
        split
        · split
          · trivial
          · exact hsnap
        · exact hsnap
  · exact core_raise hk hw.np

theorem callSorted_np (it : IterFn) (hit : IterOK it) (args : List Val) (k : List Frame) (w : World) (ha : AllPD args)
    (hk : FK k) (hw : WorldPD w) : CoreNP (callSorted it args k w) := by
  unfold callSorted
  split
  · rename_i c rest
    have hc : PD c := ha c (by simp)
    split
    · exact core_raise hk hw.np
    · dsimp only
      have hkey : PD (rest.headD .none) := by
        cases rest with
        | nil => exact .none
        | cons x r => exact ha x (by simp)
      split
      · exact core_raise hk hw.np
      · exact core_raise hk hw.np
      · rename_i items rev hitems _
        have hip : AllPD items := by
          split at hitems
          · split at hitems
            · split at hitems
              · rename_i kvs hg
                cases hitems
                intro v hv
                obtain ⟨kv, hkv, e⟩ := List.mem_map.mp hv
                rw [← e]
                exact .tuple (allPD_cons (hw.heap.1 _ _ hg kv hkv).1 (allPD_cons (hw.heap.1 _ _ hg kv hkv).2 allPD_nil))
              · simp [U] at hitems
            · simp [U] at hitems
          · exact iterItems_pd hw.heap hc hitems
        split
        · exact sortFinish_np hip.np hk hw.np
        · exact core_raise hk hw.np
        · split
          · refine hit _ _ _ _ _ _ hip hkey ?_ allPD_nil hk hw
            intro l hl v hv
            obtain ⟨itm, hitm, e⟩ := List.mem_map.mp hl
            have hpi := hip itm hitm
            rw [← e] at hv
            try dsimp only at hv
            split at hv
            · split at hv
              · simp at hv
                cases hpi with
                | tuple hall => rcases hv with e1 | e1 <;> rw [e1] <;> exact hall _ (by simp)
              · simp at hv; rw [hv]; exact hpi
            · simp at hv; rw [hv]; exact hpi
          · split
            · exact sortFinish_np allNP_nil hk hw.np
            · exact core_raise hk hw.np
  · exact core_raise hk hw.np

theorem probe_lookup {key : Option Int} {ps : List (Int × ProbeAct)} {act : ProbeAct}
    (h : (key.bind fun i => (ps.find? (fun p => p.1 == i)).map (·.2)) = some act) : ∃ p, p ∈ ps ∧ p.2 = act := by
  cases key with
  | none => cases h
  | some i =>
    simp only [Option.bind] at h
    cases hf : ps.find? (fun p => p.1 == i) with
    | none => rw [hf] at h; cases h
    | some p =>
      rw [hf] at h
      simp at h
      exact ⟨p, List.mem_of_find?_eq_some hf, h⟩

theorem callProbe_np (args : List Val) (k : List Frame) (w : World) (ha : AllPD args) (hk : FK k) (hw : WorldPD w) :
    CoreNP (callProbe args k w) := by
  unfold callProbe
  split
  · rename_i a
    dsimp only
    split
    · rename_i v hact
      obtain ⟨p, hp, e⟩ := probe_lookup hact
      have := hw.probes p hp
      rw [e] at this
      exact core_ret this.np hk (world_log hw.np _)
    · exact core_raise hk (world_log hw.np _)
    · exact core_ret (ha a (by simp)).np hk (world_log hw.np _)
  · exact core_raise hk hw.np

theorem nextItem_pd {h : Heap} (hh : HeapPD h) {src src' : IterSrc} {item : List Val} (hs : SrcP PD src)
    (hn : nextItem h src = some (item, src')) : AllPD item ∧ SrcP PD src' := by
  unfold nextItem at hn
  split at hn
  · split at hn
    · rename_i xs hg
      split at hn
      · rename_i x hx
        injection hn with hn; injection hn with h1 h2
        subst h1; subst h2
        exact ⟨allPD_cons (hh.1 _ _ hg x (List.mem_of_getElem? hx)) allPD_nil, trivial⟩
      · cases hn
    · cases hn
  · cases hn
  · injection hn with hn; injection hn with h1 h2
    subst h1; subst h2
    exact ⟨hs _ (by simp), fun l hl => hs l (by simp [hl])⟩

/-- calling any function value with plain arguments, and continuing any iteration, keeps everything plain -/
theorem call_np (hok : OpsOK Pc Pb Po Pn Psh) : ∀ (fuel : Nat),
    (∀ f args k w, NP f → AllPD args → FK k → WorldPD w → CoreNP (callVal fuel f args k w)) ∧ IterOK (iterNext fuel) := by
  intro fuel
  induction fuel with
  | zero =>
    exact ⟨fun _ _ k w _ _ hk hw => by rw [callVal]; exact core_raise hk hw.np,
           fun _ _ _ _ k w _ _ _ _ hk hw => by rw [iterNext]; exact core_raise hk hw.np⟩
  | succ fuel ih =>
    obtain ⟨ihc, ihi⟩ := ih
    constructor
    · intro f args k w hf ha hk hw
      unfold callVal
      split
      · rename_i ps body vmi
        have hb : Po body := by cases hf with | closure hc => exact hok.body _ _ _ hc
        exact callClosure_np _ _ _ _ _ _ hb ha.np hk hw.np
      · split
        · exact callMap_np _ ihi _ _ _ ha hk hw
        · split
          · exact core_raise hk hw.np
          · split
            · exact callFilter_np _ ihi _ _ _ ha hk hw
            · split
              · exact callReduce_np _ ihi _ _ _ ha hk hw
              · split
                · exact callSorted_np _ ihi _ _ _ ha hk hw
                · exact ofBR_np hk hw.np (fun v s' h => callPure_plain _ _ _ v s' ha.np (world_bstate hw.np) ha.head_ne h)
      · split
        · exact callProbe_np _ _ _ ha hk hw
        · split
          · split
            · rename_i g rest
              exact ihc _ _ _ _ (allPD_head ha).np (allPD_tail ha) hk hw
            · exact core_raise hk hw.np
          · split
            · split
              · rename_i g rest
                exact ihc _ _ _ _ (allPD_head ha).np (allPD_tail ha) (fk_cons (fr := .tryK) trivial hk) hw
              · exact core_raise hk hw.np
            · exact core_raise hk hw.np
      · exact core_raise hk hw.np
      · exact core_raise hk hw.np
    · intro kind g src acc k w hkind hg hsrc hacc hk hw
      unfold iterNext
      split
      · rename_i item src' hn
        obtain ⟨hitem, hsrc'⟩ := nextItem_pd hw.heap hsrc hn
        dsimp only
        have hcur : PD (item.headD .none) := by
          cases item with
          | nil => exact .none
          | cons x r => exact hitem x (by simp)
        have hfr : FrameP NP (.iterK kind g src' (item.headD .none) acc) := by
          refine FrameP_np (fr := .iterK kind g src' (item.headD .none) acc) ⟨hkind, hg, hsrc', hcur, hacc⟩
        refine ihc _ _ _ _ hg.np ?_ (fk_cons hfr hk) hw
        cases kind with
        | reduce =>
          dsimp only
          refine allPD_cons ?_ hitem
          cases acc with
          | nil => exact .none
          | cons x r => exact hacc x (by simp)
        | map => exact hitem
        | filter => exact hitem
        | sortKeys a b c => exact hitem
      · split
        · simp only [Heap.alloc]
          exact core_ret (.ref (heapNP_fresh hw.np.heap)) hk (world_heap hw.np (heapNP_push hw.np.heap (o := .list _) (allNP_reverse hacc.np)))
        · simp only [Heap.alloc]
          exact core_ret (.ref (heapNP_fresh hw.np.heap)) hk (world_heap hw.np (heapNP_push hw.np.heap (o := .list _) (allNP_reverse hacc.np)))
        · refine core_ret ?_ hk hw.np
          cases acc with
          | nil => exact .none
          | cons x r => exact (hacc x (by simp)).np
        · rename_i items rev dm
          exact sortFinish_np (fun v hv => (hkind v hv).np) hk hw.np

variable (Pb) in
/-- the builtin a name falls through to (when no scope binds it) is an allowed builtin value -/
def Pbn (n : Name) : Prop := builtinNames.contains (String.ofList n) = true → Pb (String.ofList n)

theorem lookupName_np {h : Heap} (hh : HeapNP h) : ∀ (scopes : List Nat) (n : Name) (v : Val), Pbn Pb n →
    lookupName h scopes n = some v → NP v := by
  intro scopes
  induction scopes with
  | nil =>
    intro n v hn hl
    simp only [lookupName] at hl
    split at hl
    · rename_i hc; cases hl; exact .builtin (hn hc)
    · cases hl
  | cons a rest ih =>
    intro n v hn hl
    simp only [lookupName] at hl
    split at hl
    · rename_i x hf
      cases hl
      unfold scopeFind at hf
      split at hf
      · rename_i kvs hg
        cases hq : kvs.find? (fun kv => keyIsName kv.1 n) with
        | none => rw [hq] at hf; cases hf
        | some p => rw [hq] at hf; simp at hf; subst hf; exact (hh.1 _ _ hg p (List.mem_of_find?_eq_some hq)).2
      · cases hf
    · exact ih n v hn hl

theorem doCall_np (hok : OpsOK Pc Pb Po Pn Psh) (n : Name) (hn : Pn n) (args : List Val) (vmi : Nat) (k : List Frame) (w : World)
    (ha : AllPD args) (hk : FK k) (hw : WorldPD w) : CoreNP (doCall n args vmi k w) := by
  unfold doCall
  split
  · exact core_raise hk hw.np
  · split
    · exact core_raise hk hw.np
    · rename_i f hl
      exact (call_np hok callFuel).1 _ _ _ _ (lookupName_np hw.np.heap _ _ _ (hok.builtin n hn) hl) ha hk hw

theorem map_world {α : Type} {e : R α} {f : α → Val} {w : World} {r : Val} {w' : World} (hf : ∀ x, e = .ok x → NP (f x))
    (h : e.map (fun x => (f x, w)) = .ok (r, w')) : NP r ∧ w' = w := by
  cases e with
  | error e => cases h
  | ok x => simp [Except.map] at h; obtain ⟨rfl, rfl⟩ := h; exact ⟨hf x rfl, rfl⟩

theorem applyBin_np {w : World} {bk : BinK} {a b r : Val} {w' : World} (hw : WorldNP w) (ha : NP a) (hb : NP b)
    (h : applyBin w bk a b = .ok (r, w')) : NP r ∧ WorldNP w' := by
  cases bk
  case mul =>
    unfold applyBin at h
    simp only [] at h
    split at h
    · split at h <;> simp [U] at h
    · split at h
      · obtain ⟨n1, e⟩ := map_world (f := fun x => x) (fun x hx => liftDec_np hx) h
        rw [e]; exact ⟨n1, hw⟩
      · simp [U] at h
  case pow =>
    obtain ⟨d, e, _⟩ := SqProps.C04.pow_is_decimal w a b r w' h
    have hw' : w' = w := by
      unfold applyBin at h
      simp only [] at h
      split at h
      · cases h
      · split at h
        · cases h
        · cases hq : decPow _ _ with
          | error e => rw [hq] at h; cases h
          | ok x => rw [hq] at h; simp [Except.map] at h; exact h.2.symm
    rw [e, hw']; exact ⟨.dec, hw⟩
  case add =>
    unfold applyBin at h
    simp only [] at h
    split at h
    · cases h
    · rename_i b2 hb2
      have hb2n : NP b2 := by
        split at hb2
        · cases hb2; exact hb
        · cases hs : pyStr w.heap b with
          | error e => rw [hs] at hb2; cases hb2
          | ok x => rw [hs] at hb2; simp [Except.map] at hb2; subst hb2; exact .str
        · cases hb2; exact hb
      cases hq : pyAdd w.heap a b2 with
      | error e => rw [hq] at h; cases h
      | ok p =>
        obtain ⟨v0, h0⟩ := p
        rw [hq] at h
        simp [Except.map] at h
        obtain ⟨rfl, rfl⟩ := h
        obtain ⟨n1, n2⟩ := pyAdd_np hw.heap ha hb2n hq
        exact ⟨n1, world_heap hw n2⟩
  case sub =>
    unfold applyBin at h
    obtain ⟨n1, e⟩ := map_world (f := fun x => x) (fun x hx => pySub_np hx) h
    rw [e]; exact ⟨n1, hw⟩
  case div =>
    unfold applyBin at h
    obtain ⟨n1, e⟩ := map_world (f := fun x => x) (fun x hx => pyDiv_np hx) h
    rw [e]; exact ⟨n1, hw⟩
  all_goals
    unfold applyBin at h
    first
      | (obtain ⟨n1, e⟩ := map_world (f := fun x => Val.bool x) (fun _ _ => NPg.bool) h; rw [e]; exact ⟨n1, hw⟩)
      | (obtain ⟨n1, e⟩ := map_world (f := fun x => Val.bool (!x)) (fun _ _ => NPg.bool) h; rw [e]; exact ⟨n1, hw⟩)
      | (simp [U] at h)

theorem writeTop_np {h h' : Heap} {scopes : List Nat} {n : Name} {v : Val} (hh : HeapNP h) (hv : NP v)
    (hw : writeTop h scopes n v = some h') : HeapNP h' := by
  unfold writeTop at hw
  split at hw
  · cases hw
  · split at hw
    · rename_i kvs hg
      cases hw
      exact heapNP_set hh _ (o := .dict _) (kvSet_np (hh.1 _ _ hg) n hv)
    · cases hw

theorem pyNeg_np {a v : Val} (h : pyNeg a = .ok v) : NP v := by
  unfold pyNeg at h
  split at h
  · exact liftDec_np h
  · cases h; exact .int
  · cases h; exact .int
  all_goals first | (simp [U] at h; done) | cases h

theorem buildDict_np (h : Heap) : ∀ (n : Nat) (vs : List Val) (acc out : List (Val × Val)), vs.length ≤ n → AllNP vs →
    (∀ kv, kv ∈ acc → NP kv.1 ∧ NP kv.2) → buildDict h vs acc = .ok out → ∀ kv, kv ∈ out → NP kv.1 ∧ NP kv.2 := by
  intro n
  induction n with
  | zero =>
    intro vs acc out hl _ ha hb
    cases vs with
    | nil => simp [buildDict] at hb; subst hb; exact ha
    | cons x r => simp at hl
  | succ n ih =>
    intro vs acc out hl hvs ha hb
    cases vs with
    | nil => simp [buildDict] at hb; subst hb; exact ha
    | cons k r =>
      cases r with
      | nil => simp [buildDict] at hb; subst hb; exact ha
      | cons v rest =>
        simp only [buildDict] at hb
        split at hb
        · cases hb
        · exact ih rest _ out (by simp at hl; omega) (fun x hx => hvs x (by simp [hx]))
            (kvSet_np ha _ (hvs v (by simp))) hb
        · simp [U] at hb

theorem enter_np (hok : OpsOK Pc Pb Po Pn Psh) (op : Op) (vmi : Nat) (k : List Frame) (w : World) (hk : FK k) (hw : WorldPD w)
    (ho : Po op) : CoreNP (enter op vmi k w) := by
  unfold enter
  split
  · exact core_ret .none hk hw.np
  · exact core_ret .none hk hw.np
  · exact core_ret .bool hk hw.np
  · exact core_ret .dec hk hw.np
  · exact core_ret .str hk hw.np
  · exact core_ret .none hk hw.np
  · rename_i l rest
    have h := hok.code _ ho
    exact core_ev (h l (by simp)) (fk_cons (fr := .codeK rest vmi) (fun o hx => h o (by simp [hx])) hk) hw.np
  · rename_i bk a b
    have h := hok.bin _ _ _ ho
    exact core_ev h.1 (fk_cons (fr := .binL bk b vmi) h.2 hk) hw.np
  · rename_i uk a
    exact core_ev (hok.unary _ _ ho) (fk_cons (fr := .unK uk) trivial hk) hw.np
  · rename_i n v
    exact core_ev (hok.assign _ _ ho) (fk_cons (fr := .assignK n vmi) trivial hk) hw.np
  · rename_i n sk v
    have h := hok.short _ _ _ ho
    exact core_ev h.2.2 (fk_cons (fr := .shortK n sk vmi) ⟨h.1, h.2.1⟩ hk) hw.np
  · rename_i n
    split
    · exact core_raise hk hw.np
    · split
      · rename_i v hl
        exact core_ret (lookupName_np hw.np.heap _ _ _ (hok.builtin n (hok.name n ho)) hl) hk hw.np
      · exact core_raise hk hw.np
  · rename_i c a b
    have h := hok.ifx _ _ _ ho
    exact core_ev h.1 (fk_cons (fr := .ifK a b vmi) h.2 hk) hw.np
  · rename_i a b c
    have h := hok.slice _ _ _ ho
    refine core_ev h.1 (fk_cons (fr := .sliceK [] [b, c] vmi) ?_ hk) hw.np
    intro o hx
    simp at hx
    rcases hx with e | e <;> rw [e]
    · exact h.2.1
    · exact h.2.2
  · rename_i n
    exact doCall_np hok _ (hok.call _ _ ho).1 _ _ _ _ allPD_nil hk hw
  · rename_i n a rest
    have h := hok.call _ _ ho
    exact core_ev (h.2 a (by simp)) (fk_cons (fr := .argsK n [] rest vmi)
      ⟨fun v hv => (by cases hv), h.1, fun o hx => h.2 o (by simp [hx])⟩ hk) hw.np
  · simp only [Heap.alloc]
    exact core_ret (.ref (heapNP_fresh hw.np.heap)) hk (world_heap hw.np (heapNP_push hw.np.heap (o := .dict []) (fun kv h => by cases h)))
  · rename_i a rest
    have h := hok.dict _ ho
    exact core_ev (h a (by simp)) (fk_cons (fr := .dictK [] rest vmi)
      ⟨fun v hv => (by cases hv), fun o hx => h o (by simp [hx])⟩ hk) hw.np
  · rename_i ps body
    exact core_ret (.closure (hok.lambda _ _ vmi ho)) hk hw.np

theorem resume_np (hok : OpsOK Pc Pb Po Pn Psh) (fr : Frame) (v : Val) (k : List Frame) (w : World) (hfr : FrameP PD fr)
    (hv : PD v) (hk : FK k) (hw : WorldPD w) : CoreNP (resume fr v k w) := by
  cases fr with
  | codeK rest vm =>
    cases rest with
    | nil => exact core_ret hv.np hk hw.np
    | cons l r => exact core_ev (hfr l (by simp)) (fk_cons (fr := .codeK r vm) (fun o hx => hfr o (by simp [hx])) hk) hw.np
  | binL bk b vm =>
    have hb : Po b := hfr
    unfold resume
    cases bk <;> simp only []
    case and => split <;> first | exact core_ev hb hk hw.np | exact core_ret hv.np hk hw.np
    case or => split <;> first | exact core_ev hb hk hw.np | exact core_ret hv.np hk hw.np
    all_goals exact core_ev hb (fk_cons (fr := .binR _ v) hv.np hk) hw.np
  | binR bk va =>
    unfold resume
    simp only []
    split
    · rename_i r w' happ
      obtain ⟨n1, n2⟩ := applyBin_np hw.np (PDg.np hfr) hv.np happ
      exact core_ret n1 hk n2
    · exact core_raise hk hw.np
  | unK uk =>
    unfold resume
    simp only []
    split
    · rename_i r happ
      refine core_ret ?_ hk hw.np
      unfold applyUn at happ
      cases uk
      · exact pyNeg_np happ
      · cases happ; exact .bool
    · exact core_raise hk hw.np
  | assignK n vm =>
    unfold resume
    simp only []
    split
    · exact core_raise hk hw.np
    · rename_i v' h' hd
      obtain ⟨hh', hv'⟩ := deepcopy'_np hw.np.heap hv.np hd
      split
      · exact core_raise hk hw.np
      · split
        · rename_i h'' hwt
          exact core_ret .none hk (world_heap hw.np (writeTop_np hh' hv' hwt))
        · exact core_raise hk hw.np
  | shortK n sk vm =>
    unfold resume
    simp only []
    split
    · exact core_raise hk hw.np
    · rename_i v' h' hd
      obtain ⟨hh', hv'⟩ := deepcopy'_np hw.np.heap hv.np hd
      split
      · exact core_raise hk hw.np
      · split
        · exact core_raise hk hw.np
        · rename_i cur hl
          have hcur := lookupName_np hh' _ _ _ (hok.builtin n hfr.2) hl
          split
          · exact core_raise hk hw.np
          · rename_i nv s hin
            obtain ⟨hnv, hs⟩ := pyInplace_np (s := { heap := h', rng := w.rng, rx := w.rx }) ⟨hh', hw.np.rx⟩ hcur hv' hin
            split
            · rename_i h'' hwt
              exact core_ret .none hk (world_heap hw.np (writeTop_np hs.1 hnv hwt))
            · exact core_raise hk hw.np
  | ifK a b vm =>
    have hab : Po a ∧ Po b := hfr
    unfold resume
    simp only []
    split
    · exact core_ev hab.1 hk hw.np
    · exact core_ev hab.2 hk hw.np
  | sliceK done todo vm =>
    unfold resume
    simp only []
    split
    · exact core_raise hk hw.np
    · split
      · rename_i x _ _ nxt rest
        have ht : ∀ o, o ∈ nxt :: rest → Po o := hfr
        exact core_ev (ht nxt (by simp)) (fk_cons (fr := .sliceK (x :: done) rest vm) (fun o hx => ht o (by simp [hx])) hk) hw.np
      · split
        · exact core_ret .slice hk hw.np
        · exact core_raise hk hw.np
  | argsK n done todo vm =>
    unfold resume
    simp only []
    split
    · rename_i nxt rest
      obtain ⟨hd, hn, ht⟩ := hfr
      refine core_ev (ht nxt (by simp)) (fk_cons (fr := .argsK n (v :: done) rest vm) ⟨?_, hn, fun o hx => ht o (by simp [hx])⟩ hk) hw.np
      exact fun x hx => by
        rcases List.mem_cons.mp hx with e | e
        · rw [e]; exact hv.np
        · exact (hd x e).np
    · obtain ⟨hd, hn, ht⟩ := hfr
      refine doCall_np hok _ hn _ _ _ _ ?_ hk hw
      intro x hx
      rcases List.mem_cons.mp (List.mem_reverse.mp hx) with e | e
      · rw [e]; exact hv
      · exact hd x e
  | dictK done todo vm =>
    unfold resume
    simp only []
    split
    · rename_i nxt rest
      obtain ⟨hd, ht⟩ := hfr
      refine core_ev (ht nxt (by simp)) (fk_cons (fr := .dictK (v :: done) rest vm) ⟨?_, fun o hx => ht o (by simp [hx])⟩ hk) hw.np
      exact fun x hx => by
        rcases List.mem_cons.mp hx with e | e
        · rw [e]; exact hv.np
        · exact (hd x e).np
    · split
      · exact core_raise hk hw.np
      · rename_i kvs hb
        simp only [Heap.alloc]
        refine core_ret (.ref (heapNP_fresh hw.np.heap)) hk (world_heap hw.np (heapNP_push hw.np.heap (o := .dict kvs) ?_))
        refine buildDict_np w.heap _ _ [] kvs (Nat.le_refl _) ?_ (fun kv h => by cases h) hb
        intro x hx
        rcases List.mem_cons.mp (List.mem_reverse.mp hx) with e | e
        · rw [e]; exact hv.np
        · exact (hfr.1 x e).np
  | popScopeK vm =>
    unfold resume
    simp only []
    split
    · exact core_raise hk hw.np
    · exact core_ret hv.np hk (world_setVM hw.np _ _)
  | iterK kind g src cur acc =>
    unfold resume
    simp only []
    obtain ⟨h1, h2, h3, h4, h5⟩ := hfr
    refine (call_np hok callFuel).2 _ _ _ _ _ _ h1 h2 h3 ?_ hk hw
    cases kind with
    | map => exact allPD_cons hv h5
    | filter =>
      dsimp only
      split
      · exact allPD_cons h4 h5
      · exact h5
    | reduce => exact allPD_cons hv allPD_nil
    | sortKeys a b c => exact allPD_cons hv h5
  | tryK => exact core_ret hv.np hk hw.np
  | astK n rest main vm =>
    unfold resume
    simp only []
    split
    · exact core_raise hk hw.np
    · split
      · exact core_raise hk hw.np
      · rename_i h' hwt
        have hwn := world_heap hw.np (writeTop_np hw.np.heap hv.np hwt)
        obtain ⟨hrest, hmain⟩ : (∀ p, p ∈ rest → Po p.2) ∧ Po main := hfr
        split
        · exact core_ev hmain hk hwn
        · rename_i n' op' rest'
          exact core_ev (hrest (n', op') (by simp)) (fk_cons (fr := .astK n' rest' main vm)
            ⟨fun p hp => hrest p (by simp [hp]), hmain⟩ hk) hwn

theorem unwind_np (fr : Frame) (e : PyErr) (k : List Frame) (w : World) (hk : FK k) (hw : WorldNP w) :
    CoreNP (unwind fr e k w) := by
  unfold unwind
  split
  · split
    · exact core_raise hk hw
    · exact core_raise hk (world_setVM hw _ _)
  · split
    · exact core_raise hk hw
    · exact core_ret .none hk (world_log hw _)
  · exact core_raise hk hw

theorem charge_np {w : World} {budgets : List Nat} {vmi : Nat} {w' : World} {lim : Option Nat} (hw : WorldPD w)
    (h : charge w budgets vmi = some (w', lim)) : WorldPD w' := by
  unfold charge at h
  split at h
  · injection h with h
    injection h with h1 h2
    subst h1
    exact ⟨hw.heap, hw.rx, hw.probes⟩
  · cases h

/-- **plain_step**: from a configuration whose values are all plain data and in which the type object `dict` does not
    occur as a value, one machine step leads to a configuration whose values are all plain data -/
theorem inv_step (hok : OpsOK Pc Pb Po Pn Psh) (budgets : List Nat) (c : Core) (hc : CorePD c) : CoreNP (stepCore budgets c) := by
  have hk : FK c.k := fun fr hfr => FrameP_np (hc.frames fr hfr)
  unfold stepCore
  split
  · rename_i op vmi hctl
    split
    · exact ⟨trivial, hk, hc.world.np⟩
    · rename_i w' m hch
      exact ⟨trivial, hk, (charge_np hc.world hch).np⟩
    · rename_i w' hch
      exact enter_np hok op vmi c.k w' hk (charge_np hc.world hch) (by have := hc.ctl; rw [hctl] at this; exact this)
  · rename_i v hctl
    have hv : PD v := by have := hc.ctl; rw [hctl] at this; exact this
    split
    · exact ⟨hv.np, hk, hc.world.np⟩
    · rename_i fr k hkk
      have hfr : FrameP PD fr := hc.frames fr (by rw [hkk]; simp)
      have hk' : FK k := fun x hx => hk x (by rw [hkk]; simp [hx])
      exact resume_np hok fr v k c.w hfr hv hk' hc.world
  · rename_i e hctl
    split
    · exact ⟨trivial, hk, hc.world.np⟩
    · rename_i fr k hkk
      have hk' : FK k := fun x hx => hk x (by rw [hkk]; simp [hx])
      exact unwind_np fr e k c.w hk' hc.world.np
  · rename_i v hctl
    exact ⟨by have := hc.ctl; rw [hctl] at this ⊢; exact this.np, hk, hc.world.np⟩
  · rename_i e hctl
    exact ⟨by rw [hctl]; trivial, hk, hc.world.np⟩

theorem step_core (c : Cfg) : (step c).core = stepCore c.budgets c.core := rfl

theorem CorePDg.np {c : Core} (h : CorePD c) : CoreNP c := by
  refine ⟨?_, fun fr hfr => FrameP_np (h.frames fr hfr), h.world.np⟩
  have := h.ctl
  cases hc : c.ctl with
  | ret v => rw [hc] at this; exact PDg.np this
  | done v => rw [hc] at this; exact PDg.np this
  | ev a b => rw [hc] at this; exact this
  | raise e => trivial
  | failed e => trivial

theorem run_succ_right (i : Nat) (c : Cfg) : run (i + 1) c = step (run i c) := by
  induction i generalizing c with
  | zero => rfl
  | succ i ih => rw [run, ih (step c)]; rfl

end Sq.Inv
