/-
  SqLemmas/InvHeap.lean — C13 [B] over whole runs: in a configuration in which no mutator (push, pop, insert, remove,
  index assignment, compound index assignment, del) is reachable as a value and no pending node is a compound assignment,
  a machine step changes NO existing object other than the scope dictionaries (the host's names mapping and the parameter
  scopes): lambdas, map / filter / reduce / sorted and their callbacks, host trampolines, assignments with their deep
  copies, all 35 non-mutating builtins.  Built on the generic invariant of InvMachine (instance: `Pb` = "not a mutator").
-/
import SqLemmas.InvMachine
import SqLemmas.InvRun
import SqLemmas.HarmlessAll
import SqProps.C12
namespace Sq.Inv
open SqProps.C13 (HeapExt)

/-- the addresses of all scope dictionaries of all VM states -/
def scopesOf (w : World) : List Nat := w.vms.flatMap (·.scopes)

/-- from `w` to `w'`: every existing object that is not a scope dictionary is unchanged; scope dictionaries of `w'` are
    scope dictionaries of `w` or new objects; nothing is removed -/
structure HPres (w w' : World) : Prop where
  keep : ∀ a, a < w.heap.size → a ∉ scopesOf w → w'.heap.get? a = w.heap.get? a
  scopes : ∀ a, a ∈ scopesOf w' → a ∈ scopesOf w ∨ w.heap.size ≤ a
  size : w.heap.size ≤ w'.heap.size

theorem HPres.refl (w : World) : HPres w w := ⟨fun _ _ _ => rfl, fun _ h => Or.inl h, Nat.le_refl _⟩

theorem HPres.trans {a b c : World} (h1 : HPres a b) (h2 : HPres b c) : HPres a c := by
  refine ⟨?_, ?_, Nat.le_trans h1.size h2.size⟩
  · intro x hx hs
    have hb : x ∉ scopesOf b := fun hm => by
      rcases h1.scopes x hm with h | h
      · exact hs h
      · omega
    rw [h2.keep x (Nat.lt_of_lt_of_le hx h1.size) hb, h1.keep x hx hs]
  · intro x hx
    rcases h2.scopes x hx with h | h
    · exact h1.scopes x h
    · exact Or.inr (Nat.le_trans h1.size h)

/-- the top scope dictionary of every VM state: where assignments write -/
def topsOf (w : World) : List Nat := w.vms.filterMap (·.scopes.head?)

theorem mem_topsOf {w : World} {a : Nat} : a ∈ topsOf w ↔ ∃ vm, vm ∈ w.vms ∧ vm.scopes.head? = some a := by
  unfold topsOf; simp [List.mem_filterMap]

theorem tops_sub_scopes {w : World} {a : Nat} (h : a ∈ topsOf w) : a ∈ scopesOf w := by
  obtain ⟨vm, hvm, hh⟩ := mem_topsOf.mp h
  unfold scopesOf
  simp only [List.mem_flatMap]
  exact ⟨vm, hvm, List.mem_of_mem_head? hh⟩

/-- ONE machine step from `w` to `w'`: every existing object other than the TOP scope dictionaries is unchanged (so a
    scope dictionary that is covered by a lambda call's scope cannot change in this step); scope dictionaries of `w'` are
    scope dictionaries of `w` or new objects; nothing is removed -/
structure HStep (w w' : World) : Prop where
  keep : ∀ a, a < w.heap.size → a ∉ topsOf w → w'.heap.get? a = w.heap.get? a
  scopes : ∀ a, a ∈ scopesOf w' → a ∈ scopesOf w ∨ w.heap.size ≤ a
  size : w.heap.size ≤ w'.heap.size

theorem HStep.toHPres {w w' : World} (h : HStep w w') : HPres w w' :=
  ⟨fun a ha hs => h.keep a ha (fun ht => hs (tops_sub_scopes ht)), h.scopes, h.size⟩

theorem HStep.refl (w : World) : HStep w w := ⟨fun _ _ _ => rfl, fun _ h => Or.inl h, Nat.le_refl _⟩

theorem HStep.of_eq {w w' : World} (hh : w'.heap = w.heap) (hv : w'.vms = w.vms) : HStep w w' :=
  ⟨fun _ _ _ => by rw [hh], fun a h => Or.inl (by unfold scopesOf at h ⊢; rw [hv] at h; exact h), by rw [hh]; exact Nat.le_refl _⟩

theorem hp_ext {w : World} {h' : Heap} (hx : HeapExt w.heap h') : HStep w { w with heap := h' } :=
  ⟨fun a ha _ => hx.2 a ha, fun _ h => Or.inl h, hx.1⟩

theorem hp_withB {w : World} {s : BState} (hx : HeapExt w.heap s.heap) : HStep w (w.withB s) :=
  ⟨fun a ha _ => hx.2 a ha, fun _ h => Or.inl h, hx.1⟩

theorem mem_scopesOf {w : World} {a : Nat} : a ∈ scopesOf w ↔ ∃ vm, vm ∈ w.vms ∧ a ∈ vm.scopes := by
  unfold scopesOf; simp [List.mem_flatMap]

theorem vm_mem {w : World} {i : Nat} {vm : VM} (h : w.vm? i = some vm) : vm ∈ w.vms := by
  unfold World.vm? at h
  exact List.mem_of_getElem? h

/-- replacing a VM state by one whose scopes are old scopes or new objects -/
theorem hp_setVM {w : World} (i : Nat) (vm' : VM) (h : ∀ a, a ∈ vm'.scopes → a ∈ scopesOf w ∨ w.heap.size ≤ a) :
    HStep w (w.setVM i vm') := by
  refine ⟨fun _ _ _ => rfl, ?_, Nat.le_refl _⟩
  intro a ha
  obtain ⟨vm, hvm, hav⟩ := mem_scopesOf.mp ha
  simp only [World.setVM] at hvm
  rcases List.mem_or_eq_of_mem_set hvm with hm | he
  · exact Or.inl (mem_scopesOf.mpr ⟨vm, hm, hav⟩)
  · subst he; exact h a hav

/-- … together with an extension of the heap -/
theorem hp_ext_setVM {w : World} {h' : Heap} (hx : HeapExt w.heap h') (i : Nat) (vm' : VM)
    (h : ∀ a, a ∈ vm'.scopes → a ∈ scopesOf w ∨ w.heap.size ≤ a) : HStep w (({ w with heap := h' } : World).setVM i vm') := by
  refine ⟨fun a ha _ => hx.2 a ha, ?_, hx.1⟩
  intro a ha
  obtain ⟨vm, hvm, hav⟩ := mem_scopesOf.mp ha
  simp only [World.setVM] at hvm
  rcases List.mem_or_eq_of_mem_set hvm with hm | he
  · exact Or.inl (mem_scopesOf.mpr ⟨vm, hm, hav⟩)
  · subst he; exact h a hav

/-- like `HStep`, except that the objects at addresses satisfying `M` may change too (a mutator changes its receiver) -/
structure HStepM (M : Nat → Prop) (w w' : World) : Prop where
  keep : ∀ a, a < w.heap.size → a ∉ topsOf w → ¬ M a → w'.heap.get? a = w.heap.get? a
  scopes : ∀ a, a ∈ scopesOf w' → a ∈ scopesOf w ∨ w.heap.size ≤ a
  size : w.heap.size ≤ w'.heap.size

theorem HStep.toM {M : Nat → Prop} {w w' : World} (h : HStep w w') : HStepM M w w' :=
  ⟨fun a ha hn _ => h.keep a ha hn, h.scopes, h.size⟩

theorem HStepM.toHStep {w w' : World} (h : HStepM (fun _ => False) w w') : HStep w w' :=
  ⟨fun a ha hn => h.keep a ha hn (fun f => f), h.scopes, h.size⟩

/-- the heap grows and changes only at addresses satisfying `M` -/
def HeapMod (M : Nat → Prop) (h h' : Heap) : Prop :=
  h.size ≤ h'.size ∧ ∀ a, a < h.size → ¬ M a → h'.get? a = h.get? a

theorem heapMod_of_ext {M : Nat → Prop} {h h' : Heap} (hx : HeapExt h h') : HeapMod M h h' :=
  ⟨hx.1, fun a ha _ => hx.2 a ha⟩

theorem HeapMod.trans {M : Nat → Prop} {a b c : Heap} (h1 : HeapMod M a b) (h2 : HeapMod M b c) : HeapMod M a c :=
  ⟨Nat.le_trans h1.1 h2.1, fun x hx hm => by rw [h2.2 x (Nat.lt_of_lt_of_le hx h1.1) hm, h1.2 x hx hm]⟩

theorem hpM_withB {M : Nat → Prop} {w : World} {s : BState} (hx : HeapMod M w.heap s.heap) : HStepM M w (w.withB s) :=
  ⟨fun a ha _ hm => hx.2 a ha hm, fun _ h => Or.inl h, hx.1⟩

theorem hpM_heap {M : Nat → Prop} {w : World} {h' : Heap} (hx : HeapMod M w.heap h') : HStepM M w { w with heap := h' } :=
  ⟨fun a ha _ hm => hx.2 a ha hm, fun _ h => Or.inl h, hx.1⟩

/-- a step on the heap part followed by a step: the first changes the heap only (same VM states) -/
theorem HStepM.after_heap {M : Nat → Prop} {w : World} {h' : Heap} {w'' : World} (hx : HeapMod M w.heap h')
    (h2 : HStepM M { w with heap := h' } w'') : HStepM M w w'' := by
  refine ⟨?_, ?_, Nat.le_trans hx.1 h2.size⟩
  · intro a ha hn hm
    rw [h2.keep a (Nat.lt_of_lt_of_le ha hx.1) hn hm]
    exact hx.2 a ha hm
  · intro a ha
    rcases h2.scopes a ha with h | h
    · exact Or.inl h
    · exact Or.inr (Nat.le_trans hx.1 h)

macro "mrefl" : tactic => `(tactic| first | exact HStep.refl _ | exact HStep.of_eq rfl rfl | (refine HStep.toM ?_; first | exact HStep.refl _ | exact HStep.of_eq rfl rfl))

macro "hrefl" : tactic => `(tactic| first | exact HStep.refl _ | exact HStep.of_eq rfl rfl)

theorem alloc_hp (w : World) (o : HObj) : HStep w { w with heap := (w.heap.alloc o).1 } :=
  hp_ext (SqProps.C13.alloc_ext w.heap o)

theorem ofBR_hp (r : BR) (k : List Frame) (w : World) (h : ∀ v s, r = .ok (v, s) → HeapExt w.heap s.heap) :
    HStep w (ofBR r k w).w := by
  unfold ofBR
  split
  · rename_i v s
    exact hp_withB (h v s rfl)
  · hrefl

theorem sortFinish_hp (keys items : List Val) (rev dm : Bool) (k : List Frame) (w : World) :
    HStep w (sortFinish keys items rev dm k w).w := by
  unfold sortFinish
  split
  · hrefl
  · split
    · exact alloc_hp w _
    · exact alloc_hp w _

theorem callClosure_hp (ps : List Op) (body : Op) (vmi : Nat) (args : List Val) (k : List Frame) (w : World) :
    HStep w (callClosure ps body vmi args k w).w := by
  unfold callClosure
  split
  · hrefl
  · split
    · hrefl
    · rename_i kvs _ _ vm hv
      simp only [Heap.alloc]
      refine hp_ext_setVM (SqProps.C13.alloc_ext w.heap (.dict kvs)) _ _ ?_
      intro a ha
      simp only [List.mem_cons] at ha
      rcases ha with e | e
      · subst e; exact Or.inr (by simp)
      · exact Or.inl (mem_scopesOf.mpr ⟨vm, vm_mem hv, e⟩)


/-! ### the sweep, under the generic invariant -/

variable {Pc : List Op → Op → Nat → Prop} {Pb : String → Prop} {Pq : String → Prop} {Pr : Nat → Prop}
variable {Po : Op → Prop} {Pn : Name → Prop} {Psh : Prop} {M : Nat → Prop}
local notation "NP" => NPg Pc Pb Pq Pr
local notation "AllNP" => AllNPg Pc Pb Pq Pr
local notation "HeapNP" => HeapNPg Pc Pb Pq Pr
local notation "PD" => PDg Pc Pb Pq Pr
local notation "AllPD" => AllPDg Pc Pb Pq Pr
local notation "HeapPD" => HeapPDg Pc Pb Pq Pr
local notation "WorldNP" => WorldNPg Pc Pb Pq Pr
local notation "WorldPD" => WorldPDg Pc Pb Pq Pr
local notation "FrameP" => FramePg Po Pn Psh
local notation "CtlP" => CtlPg Po
local notation "CoreNP" => CoreNPg Pc Pb Pq Pr Po Pn Psh
local notation "CorePD" => CorePDg Pc Pb Pq Pr Po Pn Psh

variable (Pc Pb Pq Pr M) in
/-- an iteration continuation that preserves the heap in the sense of `HStepM` -/
def IterHPg (it : IterFn) : Prop :=
  ∀ kind g src acc k w, KindP PD kind → PD g → SrcP PD src → AllPD acc → WorldPD w → HStepM M w (it kind g src acc k w).w
local notation "IterHP" => IterHPg Pc Pb Pq Pr M

theorem callMap_hp (it : IterFn) (hit : IterHP it) (args : List Val) (k : List Frame) (w : World) (ha : AllPD args)
    (hw : WorldPD w) : HStepM M w (callMap it args k w).w := by
  unfold callMap
  split
  · rename_i c g
    have hg : PD g := ha g (by simp)
    split
    · refine hit _ _ _ _ _ _ trivial hg ?_ allPD_nil hw
      intro l hl v hv
      obtain ⟨ch, _, e⟩ := List.mem_map.mp hl
      rw [← e] at hv; simp at hv; rw [hv]; exact .str
    · split
      · exact hit _ _ _ _ _ _ trivial hg trivial allPD_nil hw
      · rename_i kvs hgk
        refine hit _ _ _ _ _ _ trivial hg ?_ allPD_nil hw
        intro l hl v hv
        obtain ⟨kv, hkv, e⟩ := List.mem_map.mp hl
        rw [← e] at hv
        simp at hv
        rcases hv with e1 | e1 <;> rw [e1]
        · exact (hw.heap.1 _ _ hgk kv hkv).1
        · exact (hw.heap.1 _ _ hgk kv hkv).2
      · mrefl
    · mrefl
    · mrefl
  · mrefl


theorem callFilter_hp (it : IterFn) (hit : IterHP it) (args : List Val) (k : List Frame) (w : World) (ha : AllPD args)
    (hw : WorldPD w) : HStepM M w (callFilter it args k w).w := by
  unfold callFilter
  split
  · split
    · split
      · rename_i xs hg
        exact HStep.toM (alloc_hp w _)
      · mrefl
    · mrefl
    · mrefl
  · rename_i c g _
    have hg : PD g := ha g (by simp)
    split
    · split
      · exact hit _ _ _ _ _ _ trivial hg trivial allPD_nil hw
      · mrefl
    · mrefl
    · mrefl
  · mrefl


theorem callReduce_hp (it : IterFn) (hit : IterHP it) (args : List Val) (k : List Frame) (w : World) (ha : AllPD args)
    (hw : WorldPD w) : HStepM M w (callReduce it args k w).w := by
  unfold callReduce
  split
  · rename_i c g
    have hg : PD g := ha g (by simp)
    have hc : PD c := ha c (by simp)
    split
    · mrefl
    · split
      · mrefl
      · mrefl
      · mrefl
      · rename_i x rest hi
        have hitems := iterItems_pd hw.heap hc hi
        refine hit _ _ _ _ _ _ trivial hg ?_ (allPD_cons (allPD_head hitems) allPD_nil) hw
        have hsnap : SrcP PD (.snap (rest.map (fun v => [v]))) := by
          intro l hl v hv
          obtain ⟨x0, hx0, e⟩ := List.mem_map.mp hl
          rw [← e] at hv; simp at hv; rw [hv]
          exact allPD_tail hitems x0 hx0
        split
        · split
          · trivial
          · exact hsnap
        · exact hsnap
  · mrefl


theorem callSorted_hp (it : IterFn) (hit : IterHP it) (args : List Val) (k : List Frame) (w : World) (ha : AllPD args)
    (hw : WorldPD w) : HStepM M w (callSorted it args k w).w := by
  unfold callSorted
  split
  · rename_i c rest
    have hc : PD c := ha c (by simp)
    split
    · mrefl
    · dsimp only
      have hkey : PD (rest.headD .none) := by
        cases rest with
        | nil => exact .none
        | cons x r => exact ha x (by simp)
      split
      · mrefl
      · mrefl
      · rename_i items rev hitems _
        have hip : AllPD items := by
          split at hitems
          · split at hitems
            · split at hitems
              · rename_i kvs hg
                cases hitems
                intro v hv
                obtain ⟨kv, hkv, e⟩ := List.mem_map.mp hv
                rw [← e]
                exact .tuple (allPD_cons (hw.heap.1 _ _ hg kv hkv).1 (allPD_cons (hw.heap.1 _ _ hg kv hkv).2 allPD_nil))
              · simp [U] at hitems
            · simp [U] at hitems
          · exact iterItems_pd hw.heap hc hitems
        split
        · exact HStep.toM (sortFinish_hp _ _ _ _ _ _)
        · mrefl
        · split
          · refine hit _ _ _ _ _ _ hip hkey ?_ allPD_nil hw
            intro l hl v hv
            obtain ⟨itm, hitm, e⟩ := List.mem_map.mp hl
            have hpi := hip itm hitm
            rw [← e] at hv
            try dsimp only at hv
            split at hv
            · split at hv
              · simp at hv
                cases hpi with
                | tuple hall => rcases hv with e1 | e1 <;> rw [e1] <;> exact hall _ (by simp)
              · simp at hv; rw [hv]; exact hpi
            · simp at hv; rw [hv]; exact hpi
          · split
            · exact HStep.toM (sortFinish_hp _ _ _ _ _ _)
            · mrefl
  · mrefl


theorem callProbe_hp (args : List Val) (k : List Frame) (w : World) (ha : AllPD args) (hw : WorldPD w) :
    HStepM M w (callProbe args k w).w := by
  unfold callProbe
  split
  · rename_i a
    dsimp only
    split
    · rename_i v hact
      obtain ⟨p, hp, e⟩ := probe_lookup hact
      have := hw.probes p hp
      rw [e] at this
      mrefl
    · mrefl
    · mrefl
  · mrefl


variable (Pc Pb Pq Pr M) in
/-- every table entry allowed as a value changes the heap only at addresses satisfying `M` -/
def PureOKg : Prop :=
  ∀ name args (w : World) v s, Pb name → AllPD args → WorldPD w → callPure name args w.bstate = .ok (v, s) →
    HeapMod M w.heap s.heap
local notation "PureOK" => PureOKg Pc Pb Pq Pr M

variable (Pc Pb Pq Pr Po Pn Psh M) in
/-- a compound assignment `n op= v`, resumed with its right-hand side, changes only top scopes and `M`-addresses -/
def InplOKg : Prop :=
  ∀ n sk vm v k (w : World), FrameP PD (.shortK n sk vm) → PD v → WorldPD w → HStepM M w (resume (.shortK n sk vm) v k w).w
local notation "InplOK" => InplOKg Pc Pb Pq Pr Po Pn Psh M

theorem ofBR_hpM (r : BR) (k : List Frame) (w : World) (h : ∀ v s, r = .ok (v, s) → HeapMod M w.heap s.heap) :
    HStepM M w (ofBR r k w).w := by
  unfold ofBR
  split
  · rename_i v s
    exact hpM_withB (h v s rfl)
  · mrefl

/-- when no mutator is allowed as a value, the table changes nothing -/
theorem pureOK_of_nonmut (hb : ∀ n, Pb n → n ∉ mutatorNames) : PureOKg Pc Pb Pq Pr M :=
  fun name args w v s hn _ _ h => heapMod_of_ext (callPure_nonmutating name (hb name hn) args w.bstate v s h)

/-- when no compound assignment is allowed, there is nothing to show -/
theorem inplOK_of_not (hsh : ¬ Psh) : InplOKg Pc Pb Pq Pr Po Pn Psh M :=
  fun _ _ _ _ _ _ hfr _ _ => absurd hfr.1 hsh

/-- calling any function value that is not a mutator, and continuing any iteration, changes no existing non-scope object -/
theorem call_hp (hb : PureOK) : ∀ (fuel : Nat),
    (∀ f args k w, NP f → AllPD args → WorldPD w → HStepM M w (callVal fuel f args k w).w) ∧ IterHP (iterNext fuel) := by
  intro fuel
  induction fuel with
  | zero =>
    exact ⟨fun _ _ k w _ _ _ => by rw [callVal]; mrefl, fun _ _ _ _ k w _ _ _ _ _ => by rw [iterNext]; mrefl⟩
  | succ fuel ih =>
    obtain ⟨ihc, ihi⟩ := ih
    constructor
    · intro f args k w hf ha hw
      unfold callVal
      split
      · exact HStep.toM (callClosure_hp _ _ _ _ _ _)
      · rename_i name
        have hname : Pb name := by cases hf with | builtin h => exact h
        split
        · exact callMap_hp _ ihi _ _ _ ha hw
        · split
          · mrefl
          · split
            · exact callFilter_hp _ ihi _ _ _ ha hw
            · split
              · exact callReduce_hp _ ihi _ _ _ ha hw
              · split
                · exact callSorted_hp _ ihi _ _ _ ha hw
                · exact ofBR_hpM _ _ _ (fun v s h => hb name args w v s hname ha hw h)
      · split
        · exact callProbe_hp _ _ _ ha hw
        · split
          · split
            · rename_i g rest
              exact ihc _ _ _ _ (allPD_head ha).np (allPD_tail ha) hw
            · mrefl
          · split
            · split
              · rename_i g rest
                exact ihc _ _ _ _ (allPD_head ha).np (allPD_tail ha) hw
              · mrefl
            · mrefl
      · mrefl
      · mrefl
    · intro kind g src acc k w hkind hg hsrc hacc hw
      unfold iterNext
      split
      · rename_i item src' hn
        obtain ⟨hitem, hsrc'⟩ := nextItem_pd hw.heap hsrc hn
        dsimp only
        refine ihc _ _ _ _ hg.np ?_ hw
        cases kind with
        | reduce =>
          dsimp only
          refine allPD_cons ?_ hitem
          cases acc with
          | nil => exact .none
          | cons x r => exact hacc x (by simp)
        | map => exact hitem
        | filter => exact hitem
        | sortKeys a b c => exact hitem
      · split
        · exact HStep.toM (alloc_hp w _)
        · exact HStep.toM (alloc_hp w _)
        · mrefl
        · exact HStep.toM (sortFinish_hp _ _ _ _ _ _)

theorem doCall_hp (hok : OpsOK Pc Pb Po Pn Psh) (hb : PureOK) (n : Name) (hn : Pn n) (args : List Val)
    (vmi : Nat) (k : List Frame) (w : World) (ha : AllPD args) (hw : WorldPD w) : HStepM M w (doCall n args vmi k w).w := by
  unfold doCall
  split
  · mrefl
  · split
    · mrefl
    · rename_i f hl
      exact (call_hp hb callFuel).1 _ _ _ _ (lookupName_np hw.np.heap _ _ _ (hok.builtin n hn) hl) ha hw

theorem map_w {α : Type} {e : R α} {g : α → Val} {w : World} {r : Val} {w' : World}
    (h : e.map (fun x => (g x, w)) = .ok (r, w')) : w' = w := by
  cases e with
  | error e => cases h
  | ok x => simp [Except.map] at h; exact h.2.symm

theorem applyBin_hp {w : World} {bk : BinK} {a b r : Val} {w' : World} (h : applyBin w bk a b = .ok (r, w')) : HStep w w' := by
  unfold applyBin at h
  cases bk <;> simp only [] at h
  case add =>
    split at h
    · cases h
    · rename_i b2 _
      cases hadd : pyAdd w.heap a b2 with
      | error e => rw [hadd] at h; cases h
      | ok p =>
        obtain ⟨v, h'⟩ := p
        rw [hadd] at h
        simp [Except.map] at h
        obtain ⟨_, rfl⟩ := h
        exact hp_ext (pyAdd_ext _ _ _ _ _ hadd)
  case mul =>
    split at h
    · split at h <;> simp [U] at h
    · split at h
      · rw [map_w h]; mrefl
      · simp [U] at h
  case pow =>
    split at h
    · cases h
    · split at h
      · cases h
      · rw [map_w h]; mrefl
  case and => simp [U] at h
  case or => simp [U] at h
  all_goals (rw [map_w h]; mrefl)

theorem enter_hp (hok : OpsOK Pc Pb Po Pn Psh) (hb : PureOK) (op : Op) (vmi : Nat) (k : List Frame)
    (w : World) (hw : WorldPD w) (ho : Po op) : HStepM M w (enter op vmi k w).w := by
  unfold enter
  split
  case h_15 n => exact doCall_hp hok hb _ (hok.call _ _ ho).1 _ _ _ _ allPD_nil hw
  case h_17 => exact HStep.toM (alloc_hp w _)
  all_goals first | mrefl | (split <;> first | mrefl | (split <;> mrefl))

/-- a top-level or lambda-local assignment writes into the top scope dictionary and nowhere else -/
theorem writeTop_hp {w : World} {h' h'' : Heap} {vm : VM} {vmi : Nat} (hv : w.vm? vmi = some vm) (hx : HeapExt w.heap h')
    {n : Name} {v : Val} (hwt : writeTop h' vm.scopes n v = some h'') : HStep w { w with heap := h'' } := by
  unfold writeTop at hwt
  split at hwt
  · cases hwt
  · rename_i a rest hsc
    split at hwt
    · rename_i kvs hg
      injection hwt with hwt
      subst hwt
      have ha : a ∈ topsOf w := mem_topsOf.mpr ⟨vm, vm_mem hv, by rw [hsc]; simp⟩
      refine ⟨?_, fun _ h => Or.inl h, ?_⟩
      · intro x hxl hxs
        show Heap.get? (Heap.set h' a _) x = _
        rw [get?_set]
        have : ¬ (a = x ∧ a < h'.size) := fun h => hxs (h.1 ▸ ha)
        simp only [this, if_false]
        exact hx.2 x hxl
      · show w.heap.size ≤ (Heap.set h' a _).size
        simp only [Heap.set, Array.size_setIfInBounds]
        exact hx.1
    · cases hwt

theorem resume_hp (hok : OpsOK Pc Pb Po Pn Psh) (hb : PureOK) (hsh : InplOK) (fr : Frame) (v : Val)
    (k : List Frame) (w : World) (hfr : FrameP PD fr) (hv : PD v) (hw : WorldPD w) : HStepM M w (resume fr v k w).w := by
  cases fr with
  | codeK rest vm => cases rest <;> mrefl
  | binL bk b vm =>
    unfold resume
    cases bk <;> simp only [] <;> first | mrefl | (split <;> mrefl)
  | binR bk va =>
    unfold resume
    simp only []
    split
    · rename_i r w' happ
      exact HStep.toM (applyBin_hp happ)
    · mrefl
  | unK uk =>
    unfold resume
    simp only []
    split <;> mrefl
  | assignK n vm =>
    unfold resume
    simp only []
    split
    · mrefl
    · rename_i v' h' hd
      split
      · mrefl
      · rename_i vmv hvm
        split
        · rename_i h'' hwt
          exact HStep.toM (writeTop_hp hvm (SqProps.C12.deepcopy'_frame _ _ _ _ hd) hwt)
        · mrefl
  | shortK n sk vm => exact hsh _ _ _ _ _ _ hfr hv hw
  | ifK a b vm =>
    unfold resume
    simp only []
    split <;> mrefl
  | sliceK done todo vm =>
    unfold resume
    simp only []
    split
    · mrefl
    · split
      · mrefl
      · split <;> mrefl
  | argsK n done todo vm =>
    unfold resume
    simp only []
    split
    · mrefl
    · obtain ⟨hd, hn, ht⟩ := hfr
      refine doCall_hp hok hb _ hn _ _ _ _ ?_ hw
      intro x hx
      rcases List.mem_cons.mp (List.mem_reverse.mp hx) with e | e
      · rw [e]; exact hv
      · exact hd x e
  | dictK done todo vm =>
    unfold resume
    simp only []
    split
    · mrefl
    · split
      · mrefl
      · exact HStep.toM (alloc_hp w _)
  | popScopeK vm =>
    unfold resume
    simp only []
    split
    · mrefl
    · rename_i vmv hvm
      refine HStep.toM (hp_setVM _ _ ?_)
      intro a ha
      exact Or.inl (mem_scopesOf.mpr ⟨vmv, vm_mem hvm, List.mem_of_mem_tail ha⟩)
  | iterK kind g src cur acc =>
    unfold resume
    simp only []
    obtain ⟨h1, h2, h3, h4, h5⟩ := hfr
    refine (call_hp hb callFuel).2 _ _ _ _ _ _ h1 h2 h3 ?_ hw
    cases kind with
    | map => exact allPD_cons hv h5
    | filter =>
      dsimp only
      split
      · exact allPD_cons h4 h5
      · exact h5
    | reduce => exact allPD_cons hv allPD_nil
    | sortKeys a b c => exact allPD_cons hv h5
  | tryK => mrefl
  | astK n rest main vm =>
    unfold resume
    simp only []
    split
    · mrefl
    · rename_i vmv hvm
      split
      · mrefl
      · rename_i h' hwt
        have := writeTop_hp hvm (SqProps.C13.HeapExt.refl w.heap) hwt
        split <;> exact HStep.toM this

theorem unwind_hp (fr : Frame) (e : PyErr) (k : List Frame) (w : World) : HStepM M w (unwind fr e k w).w := by
  unfold unwind
  split
  · split
    · mrefl
    · rename_i vmv hvm
      refine HStep.toM (hp_setVM _ _ ?_)
      intro a ha
      exact Or.inl (mem_scopesOf.mpr ⟨vmv, vm_mem hvm, List.mem_of_mem_tail ha⟩)
  · split <;> mrefl
  · mrefl

theorem charge_hp {w : World} {budgets : List Nat} {vmi : Nat} {w' : World} {lim : Option Nat}
    (h : charge w budgets vmi = some (w', lim)) : HStep w w' := by
  unfold charge at h
  split at h
  · rename_i vm mx hvm _
    injection h with h
    injection h with h1 h2
    subst h1
    refine hp_setVM _ _ ?_
    intro a ha
    exact Or.inl (mem_scopesOf.mpr ⟨vm, vm_mem hvm, ha⟩)
  · cases h

/-- charging an op changes neither the heap nor any scope stack -/
theorem HStep.after_charge {w w' w'' : World} {budgets : List Nat} {vmi : Nat} {lim : Option Nat}
    (h : charge w budgets vmi = some (w', lim)) (h2 : HStep w' w'') : HStep w w'' := by
  unfold charge at h
  split at h
  · rename_i vm mx hvm _
    injection h with h
    injection h with h1 _
    subst h1
    have hheap : (w.setVM vmi { vm with ops := vm.ops + 1 }).heap = w.heap := rfl
    have hsc : ∀ a, a ∈ scopesOf (w.setVM vmi { vm with ops := vm.ops + 1 }) → a ∈ scopesOf w := by
      intro a ha
      obtain ⟨v, hv, hav⟩ := mem_scopesOf.mp ha
      simp only [World.setVM] at hv
      rcases List.mem_or_eq_of_mem_set hv with hm | he
      · exact mem_scopesOf.mpr ⟨v, hm, hav⟩
      · subst he; exact mem_scopesOf.mpr ⟨vm, vm_mem hvm, hav⟩
    have htop : ∀ a, a ∈ topsOf (w.setVM vmi { vm with ops := vm.ops + 1 }) → a ∈ topsOf w := by
      intro a ha
      obtain ⟨v, hv, hav⟩ := mem_topsOf.mp ha
      simp only [World.setVM] at hv
      rcases List.mem_or_eq_of_mem_set hv with hm | he
      · exact mem_topsOf.mpr ⟨v, hm, hav⟩
      · subst he; exact mem_topsOf.mpr ⟨vm, vm_mem hvm, hav⟩
    refine ⟨?_, ?_, ?_⟩
    · intro a ha hn
      have := h2.keep a (by rw [hheap]; exact ha) (fun ht => hn (htop a ht))
      rw [this, hheap]
    · intro a ha
      rcases h2.scopes a ha with h | h
      · exact Or.inl (hsc a h)
      · exact Or.inr (by rw [hheap] at h; exact h)
    · have := h2.size; rw [hheap] at this; exact this
  · cases h

theorem HStepM.after_charge {w w' w'' : World} {budgets : List Nat} {vmi : Nat} {lim : Option Nat}
    (h : charge w budgets vmi = some (w', lim)) (h2 : HStepM M w' w'') : HStepM M w w'' := by
  unfold charge at h
  split at h
  · rename_i vm mx hvm _
    injection h with h
    injection h with h1 _
    subst h1
    have hheap : (w.setVM vmi { vm with ops := vm.ops + 1 }).heap = w.heap := rfl
    have hsc : ∀ a, a ∈ scopesOf (w.setVM vmi { vm with ops := vm.ops + 1 }) → a ∈ scopesOf w := by
      intro a ha
      obtain ⟨v, hv, hav⟩ := mem_scopesOf.mp ha
      simp only [World.setVM] at hv
      rcases List.mem_or_eq_of_mem_set hv with hm | he
      · exact mem_scopesOf.mpr ⟨v, hm, hav⟩
      · subst he; exact mem_scopesOf.mpr ⟨vm, vm_mem hvm, hav⟩
    have htop : ∀ a, a ∈ topsOf (w.setVM vmi { vm with ops := vm.ops + 1 }) → a ∈ topsOf w := by
      intro a ha
      obtain ⟨v, hv, hav⟩ := mem_topsOf.mp ha
      simp only [World.setVM] at hv
      rcases List.mem_or_eq_of_mem_set hv with hm | he
      · exact mem_topsOf.mpr ⟨v, hm, hav⟩
      · subst he; exact mem_topsOf.mpr ⟨vm, vm_mem hvm, hav⟩
    refine ⟨?_, ?_, ?_⟩
    · intro a ha hn hm
      have := h2.keep a (by rw [hheap]; exact ha) (fun ht => hn (htop a ht)) hm
      rw [this, hheap]
    · intro a ha
      rcases h2.scopes a ha with h | h
      · exact Or.inl (hsc a h)
      · exact Or.inr (by rw [hheap] at h; exact h)
    · have := h2.size; rw [hheap] at this; exact this
  · cases h

/-- **one step**: in a configuration satisfying the invariant, with no mutator allowed as a builtin value and no compound
    assignment pending, a machine step changes no existing object other than scope dictionaries -/
theorem step_hp (hok : OpsOK Pc Pb Po Pn Psh) (hb : PureOK) (hsh : InplOK) (budgets : List Nat) (c : Core)
    (hc : CorePD c) : HStepM M c.w (stepCore budgets c).w := by
  unfold stepCore
  split
  · rename_i op vmi hctl
    split
    · mrefl
    · rename_i w' m hch
      exact HStep.toM (charge_hp hch)
    · rename_i w' hch
      exact HStepM.after_charge hch (enter_hp hok hb op vmi c.k w' (charge_np hc.world hch) (by have := hc.ctl; rw [hctl] at this; exact this))
  · rename_i v hctl
    have hv : PD v := by have := hc.ctl; rw [hctl] at this; exact this
    split
    · mrefl
    · rename_i fr k hkk
      exact resume_hp hok hb hsh fr v k c.w (hc.frames fr (by rw [hkk]; simp)) hv hc.world
  · split
    · mrefl
    · exact unwind_hp _ _ _ _
  · mrefl
  · mrefl

/-- **whole runs**: along any number of steps from a configuration satisfying the invariant -/
theorem run_hp (hok : OpsOK Pc Pb Po Pn Psh) (hq : ∀ q, Pq q) (hb : ∀ n, Pb n → n ∉ mutatorNames) (hsh : ¬ Psh) (c : Cfg)
    (h0 : CoreNP c.core) : ∀ i, HPres c.w (run i c).w := by
  intro i
  induction i with
  | zero => exact HPres.refl _
  | succ i ih =>
    rw [run_succ_right]
    have hinv := inv_run hok hq c h0 i
    exact ih.trans (step_hp (M := fun _ => False) hok (pureOK_of_nonmut hb) (inplOK_of_not hsh) _ _ (core_pd hq hinv)).toHStep.toHPres

/-- **a covered scope dictionary cannot change**: as long as `a` is not the TOP scope of any VM state (a lambda call's own
    scope lies above it), no step changes the object at `a` — whatever the call assigns, compound-free and mutator-free -/
theorem covered_scope_unchanged (hok : OpsOK Pc Pb Po Pn Psh) (hq : ∀ q, Pq q) (hb : ∀ n, Pb n → n ∉ mutatorNames) (hsh : ¬ Psh)
    (c : Cfg) (h0 : CoreNP c.core) (a : Nat) (ha : a < c.w.heap.size) :
    ∀ n, (∀ i, i < n → a ∉ topsOf (run i c).w) → (run n c).w.heap.get? a = c.w.heap.get? a := by
  intro n
  induction n with
  | zero => intro _; rfl
  | succ n ih =>
    intro hcov
    rw [run_succ_right]
    have hinv := inv_run hok hq c h0 n
    have hstep := (step_hp (M := fun _ => False) hok (pureOK_of_nonmut hb) (inplOK_of_not hsh) (run n c).budgets (run n c).core (core_pd hq hinv)).toHStep
    have hsz := (run_hp hok hq hb hsh c h0 n).size
    have := hstep.keep a (Nat.lt_of_lt_of_le ha hsz) (hcov n (Nat.lt_succ_self n))
    exact this.trans (ih (fun i hi => hcov i (Nat.lt_succ_of_lt hi)))

end Sq.Inv
