/-
  SqLemmas/ListRefine.lean — C14 [B] `ops_refine` for lists through the heap: under ANY sequence of push / pop / insert /
  index write / del on a list object, that object holds exactly what the mathematical list holds after the same
  operations (Python's list semantics, written here independently of the builtins: append, positional removal with
  negative positions counted from the end, clamped insertion, positional replacement), every other object of the heap
  is untouched, and an operation the specification refuses (empty pop, position out of range, size cap) fails and
  changes nothing.
-/
import Sq.Builtins
import SqLemmas.CopyLemmas
namespace Sq

/-- one container-level operation on a list, indices already cast to integers -/
inductive LOp
  | push (v : Val)
  | popLast
  | popAt (i : Int)
  | insert (k : Int) (v : Val)
  | set (i : Int) (v : Val)
  | del (i : Int)

/-- position `i` of a list of length `n` (negative positions count from the end), if it exists -/
def pos? (n : Nat) (i : Int) : Option Nat :=
  if 0 ≤ i ∧ i < n then some i.toNat else if i < 0 ∧ 0 ≤ i + n then some (i + n).toNat else none

/-- **the mathematical list** under one operation; `none`: the operation is refused -/
def specL (xs : List Val) : LOp → Option (List Val)
  | .push v => if xs.length ≥ 10000 then none else some (xs ++ [v])
  | .popLast => if xs.length = 0 then none else some (xs.take (xs.length - 1))
  | .popAt i => (pos? xs.length i).map (fun j => xs.take j ++ xs.drop (j + 1))
  | .insert k v =>
    if xs.length ≥ 10000 then none else
    let j : Nat := if k < 0 then (if k + xs.length < 0 then 0 else (k + xs.length).toNat) else (if k > xs.length then xs.length else k.toNat)
    some (xs.take j ++ v :: xs.drop j)
  | .set i v => (pos? xs.length i).map (fun j => xs.take j ++ v :: xs.drop (j + 1))
  | .del i => if i ≥ xs.length then some xs else (pos? xs.length i).map (fun j => xs.take j ++ xs.drop (j + 1))

/-- what the builtins do for the same operation on the object at address `a` (`push`, `pop`, `insert`, the store of
    `c[i] = v` after key cast and copy, `del c[i]` after key cast) -/
def implL (s : BState) (a : Nat) : LOp → R BState
  | .push v => (b_push [.ref a, v] s).map (·.2)
  | .popLast => (b_pop [.ref a] s).map (·.2)
  | .popAt i => (b_pop [.ref a, .int i] s).map (·.2)
  | .insert k v => (b_insert [.ref a, .int k, v] s).map (·.2)
  | .set i v => pySetItem s (.ref a) (.int i) v
  | .del i => (bDelItem s (.ref a) (.int i)).map (·.2)

theorem normIndex_eq_pos (n : Nat) (i : Int) : normIndex n i = pos? n i := by
  unfold normIndex pos?
  by_cases h0 : i < 0
  · simp only [h0, if_true]
    by_cases h1 : 0 ≤ i + (n : Int) ∧ i + (n : Int) < n
    · have : ¬ (0 ≤ i ∧ i < n) := by omega
      simp only [h1, this, and_self, if_true, if_false, h0, true_and]
    · have : ¬ (0 ≤ i ∧ i < n) := by omega
      have h2 : ¬ (0 ≤ i + (n : Int)) := by omega
      simp [h1, this, h0, h2]
  · simp only [h0, if_false]
    by_cases h1 : 0 ≤ i ∧ i < n
    · simp [h1]
    · simp [h1, h0]

theorem eraseIdx_eq (xs : List Val) (j : Nat) : xs.eraseIdx j = xs.take j ++ xs.drop (j + 1) := by
  induction xs generalizing j with
  | nil => simp
  | cons x xs ih =>
    cases j with
    | zero => simp
    | succ j => simp [ih]

theorem set_eq (xs : List Val) (j : Nat) (v : Val) (h : j < xs.length) : xs.set j v = xs.take j ++ v :: xs.drop (j + 1) := by
  induction xs generalizing j with
  | nil => simp at h
  | cons x xs ih =>
    cases j with
    | zero => simp
    | succ j => simp at h; simp [ih j h]

theorem pos_lt {n : Nat} {i : Int} {j : Nat} (h : pos? n i = some j) : j < n := by
  unfold pos? at h
  split at h
  · injection h with h; omega
  · split at h
    · injection h with h; omega
    · cases h

theorem heap_set_same (h : Heap) (a : Nat) (o : HObj) (hg : h.get? a = some o) : h.set a o = h := by
  unfold Heap.set
  unfold Heap.get? at hg
  apply Array.ext
  · simp
  · intro i h1 h2
    rw [Array.getElem_setIfInBounds]
    split
    · rename_i e
      subst e
      have := Array.getElem?_eq_getElem h2
      rw [this] at hg
      injection hg with hg
      exact hg.symm
    · rfl

/-- the failures the specification's refusals map to: language-level errors, never "unmodelled" -/
def Refusal : PyErr → Prop
  | .parser _ => True
  | .indexError => True
  | _ => False

theorem checkArraySize_list {h : Heap} {a : Nat} {xs : List Val} (hg : h.get? a = some (.list xs)) :
    checkArraySize h (.ref a) = if xs.length ≥ 10000 then .error (.parser "Array size overflow") else .ok () := by
  simp [checkArraySize, pyLen, hg, maxArraySize]

/-- **one operation**: the builtin does to the object at `a` exactly what the specification does to the list, touches
    nothing else (the new heap is the old one with `a` replaced), and fails — changing nothing — exactly when the
    specification refuses -/
theorem implL_refines (s : BState) (a : Nat) (xs : List Val) (hg : s.heap.get? a = some (.list xs)) (op : LOp) :
    match specL xs op with
    | some ys => implL s a op = .ok { s with heap := s.heap.set a (.list ys) }
    | none => ∃ e, implL s a op = .error e ∧ Refusal e := by
  cases op with
  | push v =>
    simp only [specL, implL, b_push, checkArraySize_list hg]
    by_cases hc : xs.length ≥ 10000
    · simp only [hc, if_true]
      exact ⟨_, rfl, trivial⟩
    · simp only [hc, if_false, hg, ret, Except.map]
  | popLast =>
    simp only [specL, implL, b_pop, hg]
    by_cases he : xs.length = 0
    · have : xs = [] := List.length_eq_zero_iff.mp he
      subst this
      simp [Except.map]
      exact trivial
    · have hne : xs.isEmpty = false := by cases xs <;> simp_all
      have hlt : xs.length - 1 < xs.length := by omega
      simp [he, hne, Except.map, ret, List.getElem?_eq_getElem hlt, List.dropLast_eq_take]
  | popAt i =>
    simp only [specL, implL, b_pop, hg, intArg, pyInt]
    by_cases he : xs.isEmpty
    · have : xs = [] := by cases xs <;> simp_all
      subst this
      have hp : pos? 0 i = none := by
        unfold pos?
        have h1 : ¬ (0 ≤ i ∧ i < ((0 : Nat) : Int)) := by omega
        have h2 : ¬ (i < 0 ∧ 0 ≤ i + ((0 : Nat) : Int)) := by omega
        simp only [h1, h2, if_false]
      simp [hp, Except.map]
      exact trivial
    · simp only [he, Except.map]
      rw [normIndex_eq_pos]
      cases hp : pos? xs.length i with
      | none => simp; exact trivial
      | some j =>
        have hj := pos_lt hp
        simp [ret, List.getElem?_eq_getElem hj, eraseIdx_eq]
  | insert k v =>
    simp only [specL, implL, b_insert, checkArraySize_list hg]
    by_cases hc : xs.length ≥ 10000
    · simp only [hc, if_true]
      exact ⟨_, rfl, trivial⟩
    · have hj : (if k < 0 then max 0 (k + (xs.length : Int)) else min k (xs.length : Int)).toNat =
          (if k < 0 then (if k + (xs.length : Int) < 0 then 0 else (k + (xs.length : Int)).toNat)
           else (if k > (xs.length : Int) then xs.length else k.toNat)) := by
        by_cases hk : k < 0
        · simp only [hk, if_true]
          by_cases h2 : k + (xs.length : Int) < 0
          · simp [h2]; omega
          · simp [h2]; omega
        · simp only [hk, if_false]
          by_cases h2 : k > (xs.length : Int)
          · simp [h2]; omega
          · simp [h2]; omega
      simp only [hc, if_false, hg, intArg, pyInt, ret, Except.map, hj]
  | set i v =>
    simp only [specL, implL, pySetItem, hg, toInt?]
    rw [normIndex_eq_pos]
    cases hp : pos? xs.length i with
    | none => simp; exact trivial
    | some j => simp [set_eq xs j v (pos_lt hp)]
  | del i =>
    simp only [specL, implL, bDelItem, keyCast, isDict, hg, listKeyCast, toInt?]
    by_cases hge : i ≥ (xs.length : Int)
    · have hng : ¬ ((xs.length : Int) > i) := by omega
      simp [hge, hng, ret, Except.map]
      have := heap_set_same s.heap a (.list xs) hg
      rw [this]
    · have hgt : (xs.length : Int) > i := by omega
      simp only [hge, if_false]
      cases hp : pos? xs.length i with
      | none => simp [hgt, normIndex_eq_pos, hp, Except.map]; exact trivial
      | some j => simp [hgt, normIndex_eq_pos, hp, ret, Except.map, eraseIdx_eq]

/-- the mathematical list after a sequence of operations (a refused operation changes nothing) -/
def runSpecL (xs : List Val) (ops : List LOp) : List Val := ops.foldl (fun xs op => (specL xs op).getD xs) xs

/-- the heap after the same sequence through the builtins (a failed operation changes nothing) -/
def runImplL (s : BState) (a : Nat) (ops : List LOp) : BState :=
  ops.foldl (fun s op => match implL s a op with | .ok s' => s' | .error _ => s) s

theorem get_lt {h : Heap} {a : Nat} {o : HObj} (hg : h.get? a = some o) : a < h.size := by
  unfold Heap.get? at hg
  cases Nat.lt_or_ge a h.size with
  | inl hl => exact hl
  | inr hge => rw [Array.getElem?_eq_none hge] at hg; cases hg

/-- **ops_refine for lists**: after ANY sequence of push / pop / insert / index write / del on the list object at `a`,
    that object holds exactly the mathematical list after the same sequence, and every other object — and the random
    state, and the pending engine answers — is what it was -/
theorem ops_refine_list (ops : List LOp) : ∀ (s : BState) (a : Nat) (xs : List Val), s.heap.get? a = some (.list xs) →
    (runImplL s a ops).heap.get? a = some (.list (runSpecL xs ops)) ∧
    (∀ b, b ≠ a → (runImplL s a ops).heap.get? b = s.heap.get? b) ∧
    (runImplL s a ops).rng = s.rng ∧ (runImplL s a ops).rx = s.rx := by
  induction ops with
  | nil => intro s a xs hg; exact ⟨hg, fun _ _ => rfl, rfl, rfl⟩
  | cons op ops ih =>
    intro s a xs hg
    have hr := implL_refines s a xs hg op
    simp only [runImplL, runSpecL, List.foldl_cons]
    cases hs : specL xs op with
    | none =>
      rw [hs] at hr
      obtain ⟨e, he, _⟩ := hr
      simp only [he, Option.getD_none]
      exact ih s a xs hg
    | some ys =>
      rw [hs] at hr
      simp only [hr, Option.getD_some]
      have hlt := get_lt hg
      have hg' : Heap.get? (s.heap.set a (.list ys)) a = some (.list ys) := by rw [get?_set]; simp [hlt]
      obtain ⟨h1, h2, h3, h4⟩ := ih { s with heap := s.heap.set a (.list ys) } a ys hg'
      refine ⟨h1, ?_, h3, h4⟩
      intro b hb
      refine (h2 b hb).trans ?_
      show Heap.get? (s.heap.set a (.list ys)) b = _
      rw [get?_set]
      have : ¬ (a = b ∧ a < s.heap.size) := fun h => hb h.1.symm
      simp only [this, if_false]

end Sq
