/-
  SqLemmas/DecLemmas.lean — helper lemmas about the decimal model (digit counts, rounding).
-/
import Sq.Dec
namespace Sq.Dec

theorem ndigitsAux_pos (f n : Nat) : 1 ≤ ndigitsAux f n := by
  cases f with
  | zero => simp [ndigitsAux]
  | succ f => simp only [ndigitsAux]; split <;> omega

/-- `n < 10 ^ ndigits n` -/
theorem lt_pow_ndigitsAux : ∀ (f n : Nat), n ≤ f → n < 10 ^ ndigitsAux f n := by
  intro f
  induction f with
  | zero => intro n hn; have : n = 0 := by omega
            subst this; simp [ndigitsAux]
  | succ f ih =>
    intro n hn
    simp only [ndigitsAux]
    split
    · omega
    · rename_i h10
      have hdiv : n / 10 ≤ f := by omega
      have := ih (n / 10) hdiv
      rw [Nat.pow_succ]
      omega

theorem lt_pow_ndigits (n : Nat) : n < 10 ^ ndigits n := lt_pow_ndigitsAux n n (Nat.le_refl _)

/-- `n < 10^k` (k ≥ 1) implies `ndigits n ≤ k` -/
theorem ndigitsAux_le_of_lt_pow : ∀ (f n k : Nat), n ≤ f → 1 ≤ k → n < 10 ^ k → ndigitsAux f n ≤ k := by
  intro f
  induction f with
  | zero => intro n k hn hk _; simp [ndigitsAux]; omega
  | succ f ih =>
    intro n k hn hk hlt
    simp only [ndigitsAux]
    split
    · omega
    · rename_i h10
      have h10' : 10 ≤ n := by omega
      have hk2 : 2 ≤ k := by
        rcases Nat.lt_or_ge k 2 with h | h
        · have : k = 1 := by omega
          subst this; simp at hlt; omega
        · exact h
      have hdiv : n / 10 ≤ f := by omega
      have hlt' : n / 10 < 10 ^ (k - 1) := by
        have : 10 ^ k = 10 ^ (k - 1) * 10 := by
          rw [← Nat.pow_succ]; congr 1; omega
        rw [this] at hlt
        exact Nat.div_lt_of_lt_mul (by rw [Nat.mul_comm]; exact hlt)
      have := ih (n / 10) (k - 1) hdiv (by omega) hlt'
      omega

theorem ndigits_le_of_lt_pow (n k : Nat) (hk : 1 ≤ k) (h : n < 10 ^ k) : ndigits n ≤ k :=
  ndigitsAux_le_of_lt_pow n n k (Nat.le_refl _) hk h

/-- `10^(ndigits n - 1) ≤ n` for n ≠ 0; equivalently: `ndigits n > k → 10^k ≤ n` -/
theorem pow_le_of_lt_ndigits (n k : Nat) (hk : 1 ≤ k) (h : k < ndigits n) : 10 ^ k ≤ n := by
  rcases Nat.lt_or_ge n (10 ^ k) with hlt | hge
  · have := ndigits_le_of_lt_pow n k hk hlt
    omega
  · exact hge

theorem ndigits_pos (n : Nat) : 1 ≤ ndigits n := ndigitsAux_pos n n

/-- the quotient produced by any rounding mode is at most `c / 10^k + 1` -/
theorem roundDiv_le (mode : Rounding) (neg : Bool) (c k : Nat) : roundDiv mode neg c k ≤ c / 10 ^ k + 1 := by
  unfold roundDiv
  cases mode <;> simp only [] <;> (repeat' split) <;> omega

theorem roundDiv_ge (mode : Rounding) (neg : Bool) (c k : Nat) : c / 10 ^ k ≤ roundDiv mode neg c k := by
  unfold roundDiv
  cases mode <;> simp only [] <;> (repeat' split) <;> omega

/-- **`fix` returns at most 28 significant digits** -/
theorem fix_digits (d r : Dec) (h : fix d = .ok r) : ndigits r.coeff ≤ prec := by
  unfold fix at h
  split at h
  · -- zero coefficient
    rename_i hz
    simp only [Except.ok.injEq] at h
    rw [← h]
    simp [hz, ndigits, ndigitsAux, prec]
  · rename_i hnz
    simp only [] at h
    split at h
    · simp at h
    · rename_i hov
      split at h
      · -- rounding branch
        rename_i hlt
        -- k = number of digits dropped ≥ ndigits - 28
        have hk : (ndigits d.coeff : Int) - 28 ≤ ((max ((ndigits d.coeff : Int) + d.exp - (prec : Int)) etiny - d.exp).toNat : Int) := by
          simp only [prec]; omega
        have hq : roundDiv .halfEven d.neg d.coeff (max ((ndigits d.coeff : Int) + d.exp - (prec : Int)) etiny - d.exp).toNat ≤ 10 ^ 28 := by
          have h1 := roundDiv_le .halfEven d.neg d.coeff (max ((ndigits d.coeff : Int) + d.exp - (prec : Int)) etiny - d.exp).toNat
          have h2 := lt_pow_ndigits d.coeff
          -- c < 10^nd ≤ 10^(k+28)
          have hnd : ndigits d.coeff ≤ (max ((ndigits d.coeff : Int) + d.exp - (prec : Int)) etiny - d.exp).toNat + 28 := by omega
          have h3 : d.coeff < 10 ^ ((max ((ndigits d.coeff : Int) + d.exp - (prec : Int)) etiny - d.exp).toNat + 28) :=
            Nat.lt_of_lt_of_le h2 (Nat.pow_le_pow_right (by omega) hnd)
          rw [Nat.pow_add] at h3
          have h4 : d.coeff / 10 ^ (max ((ndigits d.coeff : Int) + d.exp - (prec : Int)) etiny - d.exp).toNat < 10 ^ 28 :=
            Nat.div_lt_of_lt_mul h3
          omega
        split at h
        · rename_i hbig
          split at h
          · simp at h
          · simp only [Except.ok.injEq] at h
            rw [← h]
            simp only []
            -- q has 29 digits and q ≤ 10^28, so q = 10^28 and q / 10 = 10^27
            have hge := pow_le_of_lt_ndigits _ 28 (by omega) (by simpa [prec] using hbig)
            have hlt27 : roundDiv .halfEven d.neg d.coeff (max ((ndigits d.coeff : Int) + d.exp - (prec : Int)) etiny - d.exp).toNat / 10 < 10 ^ 28 := by
              have : (10 : Nat) ^ 28 = 10000000000000000000000000000 := by decide
              omega
            exact ndigits_le_of_lt_pow _ 28 (by omega) hlt27
        · rename_i hsmall
          simp only [Except.ok.injEq] at h
          rw [← h]
          simp only []
          omega
      · -- no rounding: the coefficient already fits
        rename_i hge
        simp only [Except.ok.injEq] at h
        rw [← h]
        have : (ndigits d.coeff : Int) ≤ 28 := by simp only [prec] at hge hov; omega
        simp only [prec]; omega

end Sq.Dec
