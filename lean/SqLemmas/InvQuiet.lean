/-
  SqLemmas/InvQuiet.lean — C13 over whole programs: a program that names no mutator (push, pop, insert, remove, and the
  sugar for index assignment, compound index assignment and del) and contains no compound assignment leaves every object
  of the host's world exactly as it was — except the names mapping itself, which top-level assignments write.
  Instance of the generic invariant (InvMachine / InvRun) + the heap sweep (InvHeap).
-/
import SqLemmas.InvHeap
import SqLemmas.LogLemmas
namespace Sq.Inv

/-- the name is not one of the seven mutators -/
def QuietName (n : Name) : Prop := String.ofList n ∉ mutatorNames

/-- no compound assignment anywhere in the tree, no mutator named as a variable or as a callee (index assignment,
    compound index assignment and `del` are calls of `__setitem__`, `__setitem_with_op__`, `__delitem__`) -/
inductive Quiet : Op → Prop
  | noop : Quiet .noop
  | value {l} : Quiet (.value l)
  | code {ls} : (∀ l, l ∈ ls → Quiet l) → Quiet (.code ls)
  | bin {k a b} : Quiet a → Quiet b → Quiet (.bin k a b)
  | unary {k a} : Quiet a → Quiet (.unary k a)
  | assign {n v} : Quiet v → Quiet (.assign n v)
  | name {n} : QuietName n → Quiet (.name n)
  | ifx {c a b} : Quiet c → Quiet a → Quiet b → Quiet (.ifx c a b)
  | slice {a b c} : Quiet a → Quiet b → Quiet c → Quiet (.slice a b c)
  | call {n args} : QuietName n → (∀ a, a ∈ args → Quiet a) → Quiet (.call n args)
  | dict {kvs} : (∀ a, a ∈ kvs → Quiet a) → Quiet (.dict kvs)
  | lambda {ps body} : Quiet body → Quiet (.lambda ps body)

theorem opsOK_quiet : OpsOK (fun _ body _ => Quiet body) (· ∉ mutatorNames) Quiet QuietName False where
  builtin := fun _ h _ => h
  name := fun _ h => by cases h with | name h => exact h
  call := fun _ _ h => by cases h with | call h1 h2 => exact ⟨h1, h2⟩
  short := fun _ _ _ h => by cases h
  assign := fun _ _ h => by cases h with | assign h => exact h
  lambda := fun _ _ _ h => by cases h with | lambda h => exact h
  body := fun _ _ _ h => h
  code := fun _ h => by cases h with | code h => exact h
  bin := fun _ _ _ h => by cases h with | bin h1 h2 => exact ⟨h1, h2⟩
  unary := fun _ _ h => by cases h with | unary h => exact h
  ifx := fun _ _ _ h => by cases h with | ifx h1 h2 h3 => exact ⟨h1, h2, h3⟩
  slice := fun _ _ _ h => by cases h with | slice h1 h2 h3 => exact ⟨h1, h2, h3⟩
  dict := fun _ h => by cases h with | dict h => exact h

/-- the invariant instantiated: no mutator occurs as a value anywhere, every closure body and every pending node is quiet -/
abbrev QuietInv (c : Core) : Prop :=
  CoreNPg (fun _ body _ => Quiet body) (· ∉ mutatorNames) (fun _ => True) (fun _ => True) Quiet QuietName False c

abbrev QuietWorld (w : World) : Prop := WorldNPg (fun _ body _ => Quiet body) (· ∉ mutatorNames) (fun _ => True) (fun _ => True) w

theorem init_quiet (w : World) (bs : List Nat) (namesAddr budget : Nat) (tree : Op) (astNames : List (Name × Op))
    (hw : QuietWorld w) (ht : Quiet tree) (ha : ∀ p, p ∈ astNames → Quiet p.2) :
    QuietInv (initCfg w bs namesAddr budget tree astNames).core := by
  have hw' : QuietWorld { w with vms := w.vms ++ [{ scopes := [namesAddr], ops := 0 }] } := ⟨hw.heap, hw.rx, hw.probes⟩
  cases astNames with
  | nil => exact ⟨ht, fun fr hfr => (by cases hfr), hw'⟩
  | cons p rest =>
    obtain ⟨n, op⟩ := p
    refine ⟨ha (n, op) (by simp), ?_, hw'⟩
    intro fr hfr
    simp only [initCfg, Cfg.core, List.mem_singleton] at hfr
    subst hfr
    exact ⟨fun q hq => ha q (by simp [hq]), ht⟩

/-- **a quiet program changes no object of the host's world** (other than scope dictionaries — the names mapping):
    at every step of the run — through every lambda, every map / filter / reduce / sorted callback, every host
    trampoline, every non-mutating builtin and every assignment with its deep copy — each object that existed before
    the evaluation is exactly what it was -/
theorem quiet_run_preserves (w : World) (bs : List Nat) (namesAddr budget : Nat) (tree : Op) (astNames : List (Name × Op))
    (hw : QuietWorld w) (ht : Quiet tree) (ha : ∀ p, p ∈ astNames → Quiet p.2) (i a : Nat) (hlt : a < w.heap.size)
    (hs : a ∉ scopesOf w) (hn : a ≠ namesAddr) :
    (run i (initCfg w bs namesAddr budget tree astNames)).w.heap.get? a = w.heap.get? a := by
  have h0 := init_quiet w bs namesAddr budget tree astNames hw ht ha
  have hp := run_hp opsOK_quiet (fun _ => trivial) (fun _ h => h) (fun h => h) _ h0 i
  have hinit : (initCfg w bs namesAddr budget tree astNames).w = { w with vms := w.vms ++ [{ scopes := [namesAddr], ops := 0 }] } := rfl
  rw [hinit] at hp
  refine hp.keep a hlt ?_
  intro hm
  obtain ⟨vm, hvm, hav⟩ := mem_scopesOf.mp hm
  simp only [List.mem_append, List.mem_singleton] at hvm
  rcases hvm with h | h
  · exact hs (mem_scopesOf.mpr ⟨vm, h, hav⟩)
  · subst h; simp at hav; exact hn hav

/-- **assignments made during a lambda call never alter an outer or host binding** (mutator-free programs): from any
    configuration of the run on, as long as the scope dictionary at `a` — the host's names mapping, or the scope of an
    enclosing lambda call — is covered by another scope (it is not the top scope of any VM state), nothing the program
    does changes it: parameter bindings and assignments of the inner call go to the inner call's own scope -/
theorem quiet_covered_scope_unchanged (w : World) (bs : List Nat) (namesAddr budget : Nat) (tree : Op)
    (astNames : List (Name × Op)) (hw : QuietWorld w) (ht : Quiet tree) (ha : ∀ p, p ∈ astNames → Quiet p.2) (i n a : Nat)
    (hlt : a < (run i (initCfg w bs namesAddr budget tree astNames)).w.heap.size)
    (hcov : ∀ j, j < n → a ∉ topsOf (run (i + j) (initCfg w bs namesAddr budget tree astNames)).w) :
    (run (i + n) (initCfg w bs namesAddr budget tree astNames)).w.heap.get? a =
      (run i (initCfg w bs namesAddr budget tree astNames)).w.heap.get? a := by
  have h0 := init_quiet w bs namesAddr budget tree astNames hw ht ha
  have hi := inv_run opsOK_quiet (fun _ => trivial) _ h0 i
  rw [run_add]
  exact covered_scope_unchanged opsOK_quiet (fun _ => trivial) (fun _ h => h) (fun h => h) _ hi a hlt n
    (fun j hj => by rw [← run_add]; exact hcov j hj)

end Sq.Inv
