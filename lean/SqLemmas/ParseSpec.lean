/-
  SqLemmas/ParseSpec.lean — the *levelled derivation relation*: a declarative statement of
  "what the published grammar and the operator table dictate" (DESIGN.md §6, C06 [B]).

  `RExpr m a ts t b nxt`: the token list `ts`, followed by a look-ahead of type `nxt`, reads as the
  tree `t` in a context of level `m` and associativity `a` (`b`: the last suffix applied at this
  level was a plain index — what the statement forms `e[k] = v`, `del e[k]` need to know).
  One constructor per surface form; the only side conditions are the table's (`decide'`) and the
  one-token look-aheads the grammar needs (a NAME followed by `(` is a call, by `=>` a lambda;
  `| f` followed by `(` takes arguments).  No fuel, no error cases, no ordering of tests.
-/
import Sq.Parse
namespace Sq

/-- type of the next token (none = end of input) -/
abbrev LA := Option Tk

/-- the operator loop of a context (m, a) stops at this look-ahead -/
def stops (m : Nat) (a : Assoc) : LA → Prop
  | none => True
  | some ty => decide' m a ty = .stop

/-- literal atoms: NUMBER, STRING, True, False, None -/
def atomOf (t : Token) : Option Op :=
  match t.ty with
  | .NUMBER => (Dec.ofLexeme t.val).map (fun d => .value (.num d))
  | .STRING => some (.value (.str t.val))
  | .TRUE => some (.value (.bool true))
  | .FALSE => some (.value (.bool false))
  | .NONE => some (.value .none)
  | _ => none

def getitem (c k : Op) : Op := .call "__getitem__".toList [c, k]

/-- do the first two tokens read `NAME )` (the end of a lambda parameter list)? -/
def startsNameRparen : List Token → Bool
  | n :: r :: _ => n.ty == .NAME && r.ty == .RPAREN
  | _ => false

mutual

inductive RExpr : Nat → Assoc → List Token → Op → Bool → LA → Prop
  | mk {m a ts0 t0 ts t b nxt} :
      RPrim ts0 t0 ((peekTy ts).or nxt) → RSpine m a t0 false ts t b nxt → RExpr m a (ts0 ++ ts) t b nxt

/-- primaries and prefix operators; the LA is the type of the token that follows -/
inductive RPrim : List Token → Op → LA → Prop
  | atom {t e la} : atomOf t = some e → RPrim [t] e la
  | name {t la} : t.ty = .NAME → la ≠ some .LPAREN → la ≠ some .LAMBDA → RPrim [t] (.name t.val) la
  | call0 {n lp rp la} : n.ty = .NAME → lp.ty = .LPAREN → rp.ty = .RPAREN → RPrim [n, lp, rp] (.call n.val []) la
  | call {n lp ts args la} : n.ty = .NAME → lp.ty = .LPAREN → RArgs .RPAREN ts args →
      RPrim (n :: lp :: ts) (.call n.val args) la
  | lam1 {n lam ts e b la} : n.ty = .NAME → lam.ty = .LAMBDA → RExpr 0 .right ts e b la →
      RPrim (n :: lam :: ts) (.lambda [.name n.val] e) la
  | paren {lp ts e b rp la} : lp.ty = .LPAREN → RExpr 0 .right ts e b (some .RPAREN) → rp.ty = .RPAREN →
      RPrim (lp :: ts ++ [rp]) e la
  | lamN {lp ts0 e0 b0 comma ps params lam body e b la} : lp.ty = .LPAREN →
      RExpr 0 .right ts0 e0 b0 (some .COMMA) → comma.ty = .COMMA → RParams [e0] ps params → lam.ty = .LAMBDA →
      RExpr 0 .right body e b la →
      RPrim (lp :: ts0 ++ comma :: ps ++ lam :: body) (.lambda params e) la
  | list0 {lb rb la} : lb.ty = .LBRACKET → rb.ty = .RBRACKET → RPrim [lb, rb] (.call "list".toList []) la
  | list {lb ts args la} : lb.ty = .LBRACKET → RArgs .RBRACKET ts args → RPrim (lb :: ts) (.call "list".toList args) la
  | dict0 {lb rb la} : lb.ty = .LBRACE → rb.ty = .RBRACE → RPrim [lb, rb] (.call "dict".toList []) la
  | dict {lb ts kvs la} : lb.ty = .LBRACE → RDict [] ts kvs → RPrim (lb :: ts) (.dict kvs) la
  | neg {mi ts e b la} : mi.ty = .MINUS → RExpr uminusLevel .right ts e b la → RPrim (mi :: ts) (.unary .neg e) la
  | not {nt ts e b la} : nt.ty = .NOT → RExpr notLevel .right ts e b la → RPrim (nt :: ts) (.unary .not e) la

/-- the operator / suffix loop after a complete left operand `l` -/
inductive RSpine : Nat → Assoc → Op → Bool → List Token → Op → Bool → LA → Prop
  | nil {m a l b nxt} : stops m a nxt → RSpine m a l b [] l b nxt
  | bin {m a l b o lv la k tsr r br rest t bt nxt} :
      decide' m a o.ty = .take lv la → binKind o.ty = some k →
      RExpr lv la tsr r br ((peekTy rest).or nxt) →
      RSpine m a (.bin k l r) false rest t bt nxt →
      RSpine m a l b (o :: tsr ++ rest) t bt nxt
  | notin {m a l b o i lv la tsr r br rest t bt nxt} :
      o.ty = .NOT → decide' m a .NOT = .take lv la → i.ty = .IN →
      RExpr inLevel .nonassoc tsr r br ((peekTy rest).or nxt) →
      RSpine m a (.bin .notin l r) false rest t bt nxt →
      RSpine m a l b (o :: i :: tsr ++ rest) t bt nxt
  | ifx {m a l b o lv la tsc c bc el tse e2 be rest t bt nxt} :
      o.ty = .IF → decide' m a .IF = .take lv la →
      RExpr 0 .right tsc c bc (some .ELSE) → el.ty = .ELSE →
      RExpr 0 .right tse e2 be ((peekTy rest).or nxt) →
      RSpine m a (.ifx c l e2) false rest t bt nxt →
      RSpine m a l b (o :: tsc ++ el :: tse ++ rest) t bt nxt
  | index {m a l b o lv la tss k plain rest t bt nxt} :
      o.ty = .LBRACKET → decide' m a .LBRACKET = .take lv la →
      RSub tss k plain →
      RSpine m a (getitem l k) plain rest t bt nxt →
      RSpine m a l b (o :: tss ++ rest) t bt nxt
  | dot0 {m a l b o lv la n lp rp rest t bt nxt} :
      o.ty = .DOT → decide' m a .DOT = .take lv la → n.ty = .NAME → lp.ty = .LPAREN → rp.ty = .RPAREN →
      RSpine m a (.call n.val [l]) false rest t bt nxt →
      RSpine m a l b (o :: n :: lp :: rp :: rest) t bt nxt
  | dot {m a l b o lv la n lp tsa args rest t bt nxt} :
      o.ty = .DOT → decide' m a .DOT = .take lv la → n.ty = .NAME → lp.ty = .LPAREN →
      RArgs .RPAREN tsa args →
      RSpine m a (.call n.val (l :: args)) false rest t bt nxt →
      RSpine m a l b (o :: n :: lp :: tsa ++ rest) t bt nxt
  | pipe0 {m a l b o lv la n rest t bt nxt} :
      o.ty = .PIPE → decide' m a .PIPE = .take lv la → n.ty = .NAME → (peekTy rest).or nxt ≠ some .LPAREN →
      RSpine m a (.call n.val [l]) false rest t bt nxt →
      RSpine m a l b (o :: n :: rest) t bt nxt
  | pipe {m a l b o lv la n lp tsa args rest t bt nxt} :
      o.ty = .PIPE → decide' m a .PIPE = .take lv la → n.ty = .NAME → lp.ty = .LPAREN →
      RArgs .RPAREN tsa args →
      RSpine m a (.call n.val (l :: args)) false rest t bt nxt →
      RSpine m a l b (o :: n :: lp :: tsa ++ rest) t bt nxt

/-- `expr (, expr)* [,] close` — consumes the closing bracket -/
inductive RArgs : Tk → List Token → List Op → Prop
  | mk {close ts0 e b rest out} : RExpr 0 .right ts0 e b (peekTy rest) → RArgsTail close [e] rest out →
      RArgs close (ts0 ++ rest) out

inductive RArgsTail : Tk → List Op → List Token → List Op → Prop
  | close {close acc c} : c.ty = close → close ≠ .COMMA → RArgsTail close acc [c] acc.reverse
  | trailing {close acc cm c} : cm.ty = .COMMA → c.ty = close → RArgsTail close acc [cm, c] acc.reverse
  | more {close acc cm ts0 e b rest out} : cm.ty = .COMMA → peekTy (ts0 ++ rest) ≠ some close →
      RExpr 0 .right ts0 e b (peekTy rest) → RArgsTail close (e :: acc) rest out →
      RArgsTail close acc (cm :: ts0 ++ rest) out

/-- `k : v (, k : v)* [,] }` with the flat accumulator of DictOp -/
inductive RDict : List Op → List Token → List Op → Prop
  | last {acc tsk k bk col tsv v bv rb} : RExpr 0 .right tsk k bk (some .COLON) → col.ty = .COLON →
      RExpr 0 .right tsv v bv (some .RBRACE) → rb.ty = .RBRACE →
      RDict acc (tsk ++ col :: tsv ++ [rb]) (v :: k :: acc).reverse
  | lastComma {acc tsk k bk col tsv v bv cm rb} : RExpr 0 .right tsk k bk (some .COLON) → col.ty = .COLON →
      RExpr 0 .right tsv v bv (some .COMMA) → cm.ty = .COMMA → rb.ty = .RBRACE →
      RDict acc (tsk ++ col :: tsv ++ [cm, rb]) (v :: k :: acc).reverse
  | more {acc tsk k bk col tsv v bv cm rest out} : RExpr 0 .right tsk k bk (some .COLON) → col.ty = .COLON →
      RExpr 0 .right tsv v bv (some .COMMA) → cm.ty = .COMMA → peekTy rest ≠ some .RBRACE →
      RDict (v :: k :: acc) rest out →
      RDict acc (tsk ++ col :: tsv ++ cm :: rest) out

/-- lambda parameters after `( e ,`: … `NAME )` -/
inductive RParams : List Op → List Token → List Op → Prop
  | last {acc n rp} : n.ty = .NAME → rp.ty = .RPAREN → RParams acc [n, rp] (Op.name n.val :: acc).reverse
  | more {acc ts0 e b cm rest out} : startsNameRparen (ts0 ++ [cm]) = false →
      RExpr 0 .right ts0 e b (some .COMMA) → cm.ty = .COMMA → RParams (e :: acc) rest out →
      RParams acc (ts0 ++ cm :: rest) out

/-- what stands between `[` and `]` of a suffix: a plain index or one of the eight slice forms
    (consumes the closing bracket) -/
inductive RSub : List Token → Op → Bool → Prop
  | idx {ts e b rb} : RExpr 0 .right ts e b (some .RBRACKET) → rb.ty = .RBRACKET →
      RSub (ts ++ [rb]) e true
  | all {c rb} : c.ty = .COLON → rb.ty = .RBRACKET → RSub [c, rb] (.slice noneOp noneOp noneOp) false
  | step {c1 c2 ts e b rb} : c1.ty = .COLON → c2.ty = .COLON → RExpr 0 .right ts e b (some .RBRACKET) → rb.ty = .RBRACKET →
      RSub (c1 :: c2 :: ts ++ [rb]) (.slice noneOp noneOp e) false
  | stop {c ts e b rb} : c.ty = .COLON → RExpr 0 .right ts e b (some .RBRACKET) → rb.ty = .RBRACKET →
      RSub (c :: ts ++ [rb]) (.slice noneOp e noneOp) false
  | stopColon {c ts e b c2 rb} : c.ty = .COLON → RExpr 0 .right ts e b (some .COLON) → c2.ty = .COLON → rb.ty = .RBRACKET →
      RSub (c :: ts ++ [c2, rb]) (.slice noneOp e noneOp) false
  | start {ts e b c rb} : RExpr 0 .right ts e b (some .COLON) → c.ty = .COLON → rb.ty = .RBRACKET →
      RSub (ts ++ [c, rb]) (.slice e noneOp noneOp) false
  | startColon {ts e b c c2 rb} : RExpr 0 .right ts e b (some .COLON) → c.ty = .COLON →
      c2.ty = .COLON → rb.ty = .RBRACKET →
      RSub (ts ++ [c, c2, rb]) (.slice e noneOp noneOp) false
  | startStop {ts e b c ts2 e2 b2 rb} : RExpr 0 .right ts e b (some .COLON) → c.ty = .COLON →
      RExpr 0 .right ts2 e2 b2 (some .RBRACKET) → rb.ty = .RBRACKET →
      RSub (ts ++ c :: ts2 ++ [rb]) (.slice e e2 noneOp) false

end

/-- a statement may be followed by a separator (`;` or a line break: one NEWLINE token) or by the end of the text -/
def stmtEnd (nxt : LA) : Prop := nxt = none ∨ nxt = some .NEWLINE

/-- one statement (`none`: the empty statement) -/
inductive RStmt : List Token → Option Op → LA → Prop
  | empty {nxt} : stmtEnd nxt → RStmt [] none nxt
  | expr {ts e b nxt} : stmtEnd nxt → RExpr 0 .right ts e b nxt → RStmt ts (some e) nxt
  | assign {n eq ts v b nxt} : stmtEnd nxt → n.ty = .NAME → eq.ty = .ASSIGN → RExpr 0 .right ts v b nxt →
      RStmt (n :: eq :: ts) (some (.assign n.val v)) nxt
  | short {n o k ts v b nxt} : stmtEnd nxt → n.ty = .NAME → o.ty = .SHORT_OP → ShortK.ofText? o.val = some k →
      RExpr 0 .right ts v b nxt → RStmt (n :: o :: ts) (some (.short n.val k v)) nxt
  | del {d ts e c k nxt} : stmtEnd nxt → d.ty = .DEL → RExpr 0 .right ts e true nxt → indexParts e = some (c, k) →
      RStmt (d :: ts) (some (.call "__delitem__".toList [c, k])) nxt
  | setitem {ts e c k eq tsv v b nxt} : stmtEnd nxt → RExpr 0 .right ts e true (some .ASSIGN) → indexParts e = some (c, k) →
      eq.ty = .ASSIGN → RExpr 0 .right tsv v b nxt →
      RStmt (ts ++ eq :: tsv) (some (.call "__setitem__".toList [c, k, v])) nxt
  | setop {ts e c k o tsv v b nxt} : stmtEnd nxt → RExpr 0 .right ts e true (some .SHORT_OP) → indexParts e = some (c, k) →
      o.ty = .SHORT_OP → RExpr 0 .right tsv v b nxt →
      RStmt (ts ++ o :: tsv) (some (.call "__setitem_with_op__".toList [c, k, .value (.str o.val), v])) nxt

def pushStmt (acc : List Op) : Option Op → List Op
  | some o => o :: acc
  | none => acc

/-- a program: statements separated by one NEWLINE token each (blank statements are dropped) -/
inductive RCode : List Op → List Token → List Op → Prop
  | last {acc ts s} : RStmt ts s none → RCode acc ts (pushStmt acc s).reverse
  | more {acc ts s nl rest out} : RStmt ts s (some .NEWLINE) → nl.ty = .NEWLINE → RCode (pushStmt acc s) rest out →
      RCode acc (ts ++ nl :: rest) out

end Sq
