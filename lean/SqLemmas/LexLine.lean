/-
  SqLemmas/LexLine.lean — C15, character level: the lexer reads its LINE counter only to stamp tokens: starting `d` lines
  further gives the same tokens, values, offsets and errors, every line stamp moved by `d` (the analogue of LexBlank's offset
  invariance; used for line breaks inserted inside brackets).
-/
import SqLemmas.LexBlank
namespace Sq

def LexSt.lshift (d : Nat) (st : LexSt) : LexSt := { st with line := st.line + d }
def Token.lshift (d : Nat) (t : Token) : Token := { t with line := t.line + d }

def LexErr.lshift (_d : Nat) : LexErr → LexErr
  | e => e

def LexRes.lshift (d : Nat) : LexRes → LexRes
  | .tok t st rest => .tok (t.lshift d) (st.lshift d) rest
  | .skip st rest => .skip (st.lshift d) rest
  | .eof => .eof
  | .err e => .err (e.lshift d)

theorem mk_lshift (d : Nat) (ty : Tk) (v : List Char) (st : LexSt) (n : Nat) (dd : Int) (rest : List Char) :
    mk ty v (st.lshift d) n dd rest = (mk ty v st n dd rest).lshift d := by
  simp [mk, LexRes.lshift, LexSt.lshift, Token.lshift, Nat.add_right_comm]

theorem mkNL_lshift (d : Nat) (v : List Char) (st : LexSt) (n : Nat) (rest : List Char) :
    mkNL v (st.lshift d) n rest = (mkNL v st n rest).lshift d := by
  simp [mkNL, LexRes.lshift, LexSt.lshift, Token.lshift, Nat.add_right_comm]

theorem lexPunct_lshift (d : Nat) (st : LexSt) (c : Char) (cs : List Char) :
    lexPunct (st.lshift d) c cs = (lexPunct st c cs).lshift d := by
  unfold lexPunct
  split
  · split
    · exact mk_lshift _ _ _ _ _ _ _
    · simp [LexRes.lshift, LexErr.lshift, LexSt.lshift]
  · split
    · simp [LexRes.lshift, LexSt.lshift]
    · split
      · exact mk_lshift _ _ _ _ _ _ _
      · split
        · exact mk_lshift _ _ _ _ _ _ _
        · split
          · exact mk_lshift _ _ _ _ _ _ _
          · split
            · exact mk_lshift _ _ _ _ _ _ _
            · simp [LexRes.lshift, LexErr.lshift, LexSt.lshift]

theorem lexNumber_lshift (d : Nat) (st : LexSt) (c : Char) (cs : List Char) :
    lexNumber (st.lshift d) c cs = (lexNumber st c cs).lshift d := by
  unfold lexNumber
  split
  · rfl
  · split
    · split
      · rfl
      · split
        · rfl
        · exact mk_lshift _ _ _ _ _ _ _
      · exact mk_lshift _ _ _ _ _ _ _
    · exact mk_lshift _ _ _ _ _ _ _

theorem lexWord_lshift (d : Nat) (st : LexSt) (c : Char) (cs : List Char) :
    lexWord (st.lshift d) c cs = (lexWord st c cs).lshift d := by
  unfold lexWord
  split
  · exact mk_lshift _ _ _ _ _ _ _
  · split
    · rfl
    · exact lexNumber_lshift d st c cs
    · split
      · rfl
      · exact mk_lshift _ _ _ _ _ _ _
    · exact lexPunct_lshift d st c cs

theorem lexBracket_lshift (d : Nat) (st : LexSt) (c : Char) (cs : List Char) :
    lexBracket (st.lshift d) c cs = (lexBracket st c cs).lshift d := by
  unfold lexBracket
  repeat' split
  all_goals first | exact mk_lshift _ _ _ _ _ _ _ | exact lexWord_lshift d st c cs

/-- **one step is offset-invariant** -/
theorem lexStep_lshift (d : Nat) (st : LexSt) (s : List Char) : lexStep (st.lshift d) s = (lexStep st s).lshift d := by
  unfold lexStep
  split
  · rfl
  · rename_i c cs
    have hdep : (st.lshift d).depth = st.depth := rfl
    split
    · simp [LexRes.lshift, LexSt.lshift, Nat.add_right_comm]
    · split
      · rw [hdep]
        split
        · exact mkNL_lshift _ _ _ _ _
        · simp [LexRes.lshift, LexSt.lshift, Nat.add_right_comm]
      · split
        · rw [hdep]
          split
          · exact mkNL_lshift _ _ _ _ _
          · simp [LexRes.lshift, LexSt.lshift, Nat.add_right_comm]
        · split
          · exact mk_lshift _ _ _ _ _ _ _
          · exact lexBracket_lshift d st c cs

/-- an outcome with every offset moved by `d` -/
def lshiftOut (d : Nat) : LexOut → LexOut
  | .ok (ts, st) => .ok (ts.map (Token.lshift d), st.lshift d)
  | .error (e, ts) => .error (e.lshift d, ts.map (Token.lshift d))

/-- **all the remaining steps are offset-invariant** -/
theorem lexAllAux_lshift (d : Nat) : ∀ (fuel : Nat) (st : LexSt) (s : List Char),
    lexAllAux fuel (st.lshift d) s [] = lshiftOut d (lexAllAux fuel st s []) := by
  intro fuel
  induction fuel with
  | zero => intro st s; simp [lexAllAux, lshiftOut]
  | succ fuel ih =>
    intro st s
    simp only [lexAllAux]
    rw [lexStep_lshift]
    cases hr : lexStep st s with
    | eof => simp [LexRes.lshift, lshiftOut]
    | err e => simp [LexRes.lshift, lshiftOut]
    | skip st' rest => simp only [LexRes.lshift]; exact ih st' rest
    | tok t st' rest =>
      simp only [LexRes.lshift]
      rw [lexAllAux_acc fuel (st'.lshift d) rest [t.lshift d], lexAllAux_acc fuel st' rest [t], ih st' rest]
      cases lexAllAux fuel st' rest [] with
      | ok p => obtain ⟨ts, st1⟩ := p; simp [preOut, lshiftOut]
      | error p => obtain ⟨e, ts⟩ := p; simp [preOut, lshiftOut]


end Sq
