/-
  SqLemmas/InvSep.lean — C10 / C13 [B]: an object nobody mentions is changed by nobody.
  The generic invariant with the address predicate `Pr` ("this address may be mentioned by a value") holds along every run
  for EVERY program — mutators and compound assignments included (`OpsOK` with all node predicates `True`).  A machine step
  changes an existing object only if it is a TOP scope dictionary (assignments) or its address satisfies `Pr`: the seven
  mutators change their receiver, `c[k] op= v` changes `c` and possibly the list `c[k]`, `x += [..]` extends the list `x`
  is bound to — all of them reached through a value, hence `Pr`.  So an object whose address is mentioned by no value
  (a scope dictionary covered by a lambda call's scope, in a world where no value refers to scope dictionaries) cannot
  change while it is not a top scope.
-/
import SqLemmas.InvHeap
import SqLemmas.InvRun
import SqLemmas.HarmlessAll
import SqProps.C12
namespace Sq.Inv

variable {Pc : List Op → Op → Nat → Prop} {Pb : String → Prop} {Pq : String → Prop} {Pr : Nat → Prop}
variable {Po : Op → Prop} {Pn : Name → Prop} {Psh : Prop}
local notation "NP" => NPg Pc Pb Pq Pr
local notation "AllNP" => AllNPg Pc Pb Pq Pr
local notation "HeapNP" => HeapNPg Pc Pb Pq Pr
local notation "StNP" => StNPg Pc Pb Pq Pr
local notation "PD" => PDg Pc Pb Pq Pr
local notation "AllPD" => AllPDg Pc Pb Pq Pr
local notation "HeapPD" => HeapPDg Pc Pb Pq Pr
local notation "WorldNP" => WorldNPg Pc Pb Pq Pr
local notation "WorldPD" => WorldPDg Pc Pb Pq Pr
local notation "FrameP" => FramePg Po Pn Psh
local notation "CoreNP" => CoreNPg Pc Pb Pq Pr Po Pn Psh
local notation "CorePD" => CorePDg Pc Pb Pq Pr Po Pn Psh

theorem heapMod_refl (M : Nat → Prop) (h : Heap) : HeapMod M h h := ⟨Nat.le_refl _, fun _ _ _ => rfl⟩

theorem heapMod_set {M : Nat → Prop} (h : Heap) {a : Nat} (ha : M a) (o : HObj) : HeapMod M h (h.set a o) := by
  refine ⟨by rw [size_set]; exact Nat.le_refl _, fun b _ hm => ?_⟩
  rw [get?_set]
  have : ¬ (a = b ∧ a < h.size) := fun e => hm (e.1 ▸ ha)
  simp only [this, if_false]

theorem pr_of_ref {a : Nat} (h : NP (.ref a)) : Pr a := by cases h with | ref h => exact h

theorem of_ret' {r v : Val} {s1 s' : BState} (h : ret r s1 = .ok (v, s')) : s' = s1 := by
  simp [ret] at h; exact h.2.symm

/-- what a table entry may change: objects at addresses a value mentions -/
def ModP (Pc : List Op → Op → Nat → Prop) (Pb Pq : String → Prop) (Pr : Nat → Prop) (f : List Val → BState → BR) : Prop :=
  ∀ args s v s', AllNPg Pc Pb Pq Pr args → StNPg Pc Pb Pq Pr s → f args s = .ok (v, s') → HeapMod Pr s.heap s'.heap

theorem mod_push : ModP Pc Pb Pq Pr b_push := by
  intro args s v s' ha hs h
  unfold b_push at h
  split at h
  · rename_i c x
    split at h
    · cases h
    · split at h
      · rename_i a
        split at h
        · rw [of_ret' h]; exact heapMod_set _ (pr_of_ref (ha _ (by simp))) _
        · cases h
      · simp [U] at h
      · cases h
  · cases h


/-- close the goals left by splitting a mutator whose receiver is the first argument -/
macro "modclose" h:ident ha:ident : tactic => `(tactic|
  first
  | (cases $h:ident; done)
  | (simp [U] at $h:ident; done)
  | (rw [of_ret' $h:ident]; first | exact heapMod_refl _ _ | exact heapMod_set _ (pr_of_ref ($ha:ident _ (by simp))) _)
  | (cases $h:ident; first | exact heapMod_refl _ _ | exact heapMod_set _ (pr_of_ref ($ha:ident _ (by simp))) _))

theorem mod_pop : ModP Pc Pb Pq Pr b_pop := by
  intro args s v s' ha hs h
  unfold b_pop at h
  try simp only [] at h
  repeat' split at h
  all_goals modclose h ha

theorem mod_insert : ModP Pc Pb Pq Pr b_insert := by
  intro args s v s' ha hs h
  unfold b_insert at h
  try simp only [] at h
  repeat' split at h
  all_goals modclose h ha

theorem mod_remove : ModP Pc Pb Pq Pr b_remove := by
  intro args s v s' ha hs h
  unfold b_remove at h
  try simp only [] at h
  repeat' split at h
  all_goals modclose h ha

theorem mod_delitem : ModP Pc Pb Pq Pr b_delitem := by
  intro args s v s' ha hs h
  unfold b_delitem at h
  split at h
  · unfold bDelItem at h
    try simp only [] at h
    repeat' split at h
    all_goals modclose h ha
  · cases h

open SqProps.C13 in
theorem pyGetItem_ext (s : BState) (c k v : Val) (s' : BState) (h : pyGetItem s c k = .ok (v, s')) :
    HeapExt s.heap s'.heap := by
  unfold pyGetItem at h
  try dsimp only at h
  repeat' (first | split at h | (dsimp only at h; split at h))
  all_goals first
    | exact of_ret h
    | exact pres_ok_same h
    | exact pres_map h
    | exact pres_alloc h
    | exact pres_allocD h
    | (cases h; done)
    | (cases h; exact HeapExt.refl _)
    | (simp only [U] at h; cases h; done)
    | (simp only [ret] at h; first | exact pres_ok_same h | (cases h; exact HeapExt.refl _))

open SqProps.C13 in
theorem pyMulNative_ext (h : Heap) (a b v : Val) (h' : Heap) (hh : pyMulNative h a b = .ok (v, h')) : HeapExt h h' := by
  unfold pyMulNative at hh
  repeat' (first | split at hh | (dsimp only at hh; split at hh))
  all_goals first
    | (cases hh; done)
    | (cases hh; exact HeapExt.refl _)
    | (simp only [U] at hh; cases hh; done)
    | (simp only [Heap.alloc] at hh; cases hh; exact alloc_ext _ _)
    | exact map_pair_heap hh
    | (rename_i hal; cases hh; simp only [Heap.alloc, Prod.mk.injEq] at hal; obtain ⟨rfl, _⟩ := hal; exact alloc_ext _ _)

theorem pySetItem_mod {s : BState} {c k v : Val} {s' : BState} (hc : NP c) (h : pySetItem s c k v = .ok s') :
    HeapMod Pr s.heap s'.heap := by
  unfold pySetItem at h
  repeat' split at h
  all_goals first
    | (cases h; done)
    | (simp [U] at h; done)
    | (cases h; exact heapMod_set _ (pr_of_ref hc) _)

open SqProps.C13 in
theorem pyInplace_mod {s : BState} {k : ShortK} {cur v r : Val} {s' : BState} (hc : NP cur)
    (h : pyInplace s k cur v = .ok (r, s')) : HeapMod Pr s.heap s'.heap := by
  unfold pyInplace at h
  cases k <;> (try dsimp only at h)
  · -- +=
    split at h
    · split at h
      · try dsimp only at h
        split at h
        · rw [of_ret' h]; exact heapMod_set _ (pr_of_ref hc) _
        · cases h
      · cases h
    · cases ha : pyAdd s.heap cur v with
      | error e => rw [ha] at h; cases h
      | ok p =>
        obtain ⟨r0, h0⟩ := p
        rw [ha] at h
        simp [Except.map] at h
        obtain ⟨_, rfl⟩ := h
        exact heapMod_of_ext (pyAdd_ext _ _ _ _ _ ha)
  · -- -=
    have := pres_map h
    exact heapMod_of_ext this
  · -- *=
    split at h
    · split at h
      · split at h
        · simp [U] at h
        · rw [of_ret' h]; exact heapMod_set _ (pr_of_ref hc) _
      · cases h
    · cases ha : pyMulNative s.heap cur v with
      | error e => rw [ha] at h; cases h
      | ok p =>
        obtain ⟨r0, h0⟩ := p
        rw [ha] at h
        simp [Except.map] at h
        obtain ⟨_, rfl⟩ := h
        exact heapMod_of_ext (pyMulNative_ext _ _ _ _ _ ha)
  · -- /=
    have := pres_map h
    exact heapMod_of_ext this

open SqProps.C13 in
theorem bSetItem_mod {s : BState} {c k v r : Val} {s' : BState} (hc : NP c) (h : bSetItem s c k v = .ok (r, s')) :
    HeapMod Pr s.heap s'.heap := by
  unfold bSetItem at h
  split at h
  · cases h
  · split at h
    · cases h
    · split at h
      · cases h
      · rename_i v' h' hd
        split at h
        · rename_i s1 hset
          rw [of_ret' h]
          exact (heapMod_of_ext (SqProps.C12.deepcopy'_frame _ _ _ _ hd)).trans (pySetItem_mod hc hset)
        · cases h

open SqProps.C13 in
theorem bSetItemWithOp_mod {s : BState} {c k o v r : Val} {s' : BState} (hs : StNP s) (hc : NP c) (hk : NP k) (hv : NP v)
    (hnd : c ≠ .builtin "dict" ∨ ∀ q, Pq q) (h : bSetItemWithOp s c k o v = .ok (r, s')) : HeapMod Pr s.heap s'.heap := by
  unfold bSetItemWithOp at h
  split at h
  · cases h
  · split at h
    · cases h
    · rename_i k' hkc
      split at h
      · cases h
      · rename_i v' h' hd
        obtain ⟨hh', hv'⟩ := deepcopy'_np hs.1 hv hd
        have hs1 : StNP { s with heap := h' } := ⟨hh', hs.2⟩
        have m1 : HeapMod Pr s.heap h' := heapMod_of_ext (SqProps.C12.deepcopy'_frame _ _ _ _ hd)
        dsimp only at h
        split at h
        · cases h
        · split at h
          · cases h
          · rename_i cur s2 hget
            obtain ⟨hcur, hs2⟩ := pyGetItem_np hs1 hc hnd hget
            have m2 : HeapMod Pr h' s2.heap := heapMod_of_ext (pyGetItem_ext _ _ _ _ _ hget)
            split at h
            · cases h
            · rename_i nv s3 hin
              have m3 := pyInplace_mod (Pc := Pc) (Pb := Pb) (Pq := Pq) hcur hin
              split at h
              · rename_i s4 hset
                rw [of_ret' h]
                exact ((m1.trans m2).trans m3).trans (pySetItem_mod hc hset)
              · split at h <;> simp [U] at h

theorem mod_setitem : ModP Pc Pb Pq Pr b_setitem := by
  intro args s v s' ha hs h
  unfold b_setitem at h
  split at h
  · exact bSetItem_mod (ha _ (by simp)) h
  · cases h

theorem pd_not_dict {c : Val} (h : PD c) : c ≠ .builtin "dict" ∨ ∀ q, Pq q := by
  cases h with
  | builtin _ hd =>
    rcases hd with hd | hd
    · exact Or.inl (fun e => hd (by injection e))
    · exact Or.inr hd
  | _ => exact Or.inl (fun e => by cases e)

theorem mod_setitem_with_op (args : List Val) (s : BState) (v : Val) (s' : BState) (ha : AllPD args) (hs : StNP s)
    (h : b_setitem_with_op args s = .ok (v, s')) : HeapMod Pr s.heap s'.heap := by
  unfold b_setitem_with_op at h
  split at h
  · exact bSetItemWithOp_mod hs (ha _ (by simp)).np (ha _ (by simp)).np (ha _ (by simp)).np (pd_not_dict (ha _ (by simp))) h
  · cases h

/-- **every entry of the builtin table changes only objects a value mentions**: a non-mutator changes nothing
    (`callPure_nonmutating`), a mutator changes its receiver — and `c[k] op= v` possibly the list `c[k]` -/
theorem callPure_mod (name : String) (args : List Val) (s : BState) (v : Val) (s' : BState) (ha : AllPD args) (hs : StNP s)
    (h : callPure name args s = .ok (v, s')) : HeapMod Pr s.heap s'.heap := by
  by_cases hn : name ∈ mutatorNames
  · unfold callPure at h
    split at h
    · simp only [U] at h; cases h
    · split at h
      · rename_i p hp
        have hm := List.mem_of_find?_eq_some hp
        have hname : p.1 = name := by
          have := List.find?_some hp
          simpa using this
        rw [← hname] at hn
        simp only [callPureTable, List.mem_cons, List.mem_nil_iff, or_false] at hm
        rcases hm with rfl | rfl | rfl | rfl | rfl | rfl | rfl | rfl | rfl | rfl | rfl | rfl | rfl | rfl | rfl | rfl | rfl |
          rfl | rfl | rfl | rfl | rfl | rfl | rfl | rfl | rfl | rfl | rfl | rfl | rfl | rfl | rfl | rfl | rfl | rfl | rfl |
          rfl | rfl | rfl | rfl | rfl | rfl
        all_goals first
          | exact mod_push args s v s' ha.np hs h
          | exact mod_pop args s v s' ha.np hs h
          | exact mod_insert args s v s' ha.np hs h
          | exact mod_remove args s v s' ha.np hs h
          | exact mod_delitem args s v s' ha.np hs h
          | exact mod_setitem args s v s' ha.np hs h
          | exact mod_setitem_with_op args s v s' ha hs h
          | exact absurd hn (by decide)
      · simp only [U] at h; cases h
  · exact heapMod_of_ext (callPure_nonmutating name hn args s v s' h)

/-- the table, for the sweep -/
theorem pureOK_sep : PureOKg Pc Pb Pq Pr Pr :=
  fun name args w v s _ ha hw h => callPure_mod name args w.bstate v s ha ⟨hw.np.heap, hw.np.rx⟩ h

/-- a compound assignment `n op= v`: the deep copy allocates, the in-place operator changes at most the list `n` is bound
    to (reached through the value found in the scopes), the result is written to the top scope -/
theorem inplOK_sep (hok : OpsOK Pc Pb Po Pn Psh) : InplOKg Pc Pb Pq Pr Po Pn Psh Pr := by
  intro n sk vm v k w hfr hv hw
  unfold resume
  simp only []
  split
  · mrefl
  · rename_i v' h' hd
    obtain ⟨hh', hv'⟩ := deepcopy'_np hw.np.heap hv.np hd
    have m1 : HeapMod Pr w.heap h' := heapMod_of_ext (SqProps.C12.deepcopy'_frame _ _ _ _ hd)
    split
    · mrefl
    · rename_i vmv hvm
      split
      · mrefl
      · rename_i cur hl
        have hcur : NP cur := lookupName_np hh' _ _ _ (hok.builtin n hfr.2) hl
        split
        · mrefl
        · rename_i nv s hin
          have m2 : HeapMod Pr h' s.heap := pyInplace_mod (Pc := Pc) (Pb := Pb) (Pq := Pq) hcur hin
          split
          · rename_i h'' hwt
            refine HStepM.after_heap (m1.trans m2) ?_
            have hvm' : ({ w with heap := s.heap } : World).vm? vm = some vmv := hvm
            exact HStep.toM (writeTop_hp hvm' (SqProps.C13.HeapExt.refl _) hwt)
          · mrefl

/-- **one step, any program**: in a configuration satisfying the invariant, a machine step changes an existing object
    only if it is a top scope dictionary or its address satisfies `Pr` (some value mentions it) -/
theorem step_sep (hok : OpsOK Pc Pb Po Pn Psh) (budgets : List Nat) (c : Core) (hc : CorePD c) :
    HStepM Pr c.w (stepCore budgets c).w :=
  step_hp hok pureOK_sep (inplOK_sep hok) budgets c hc

/-- the heap never shrinks along a run -/
theorem run_size (hok : OpsOK Pc Pb Po Pn Psh) (hq : ∀ q, Pq q) (c : Cfg) (h0 : CoreNP c.core) :
    ∀ i, c.w.heap.size ≤ (run i c).w.heap.size := by
  intro i
  induction i with
  | zero => exact Nat.le_refl _
  | succ i ih =>
    rw [run_succ_right]
    have hinv := inv_run hok hq c h0 i
    exact Nat.le_trans ih (step_sep hok _ _ (core_pd hq hinv)).size

/-- **an object nobody mentions is changed by nobody**: along any run of ANY program (mutators, compound assignments,
    lambdas, higher-order builtins, host callbacks), an existing object whose address satisfies `¬ Pr` — no value of the
    initial configuration mentions it, and then none ever will — keeps its content for as long as it is not the top
    scope dictionary of a VM state -/
theorem unmentioned_object_unchanged (hok : OpsOK Pc Pb Po Pn Psh) (hq : ∀ q, Pq q) (c : Cfg) (h0 : CoreNP c.core)
    (a : Nat) (ha : a < c.w.heap.size) (hpr : ¬ Pr a) :
    ∀ n, (∀ i, i < n → a ∉ topsOf (run i c).w) → (run n c).w.heap.get? a = c.w.heap.get? a := by
  intro n
  induction n with
  | zero => intro _; rfl
  | succ n ih =>
    intro hcov
    rw [run_succ_right]
    have hinv := inv_run hok hq c h0 n
    have hstep := step_sep hok (run n c).budgets (run n c).core (core_pd hq hinv)
    have hsz := run_size hok hq c h0 n
    have := hstep.keep a (Nat.lt_of_lt_of_le ha hsz) (hcov n (Nat.lt_succ_self n)) hpr
    exact this.trans (ih (fun i hi => hcov i (Nat.lt_succ_of_lt hi)))
end Sq.Inv
