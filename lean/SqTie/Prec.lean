/- Tie: the operator table of smartquery/lexer.py equals the table the parser model climbs. -/
import SqGen.Generated
import Sq.Parse
namespace SqTie

def assocName : Sq.Assoc → String
  | .left => "left" | .right => "right" | .nonassoc => "nonassoc"

def tkName : Option Sq.Tk → String
  | some t => t.name
  | none => "UMINUS"

/-- `lexer.precedence` (regenerated from the working tree) is the model's `precTable`. -/
theorem prec_tie :
    SqGen.precedence = Sq.precTable.map (fun p => (assocName p.1, p.2.map tkName)) := by decide

end SqTie
