/- Tie: the key SET of FUNCTIONS is the model's builtin table (the textual order of the dict entries is irrelevant:
   nothing observable depends on it). -/
import SqGen.Generated
import Sq.Builtins
namespace SqTie

theorem functions_tie : (∀ n ∈ SqGen.functionNames, n ∈ Sq.builtinNames) ∧ (∀ n ∈ Sq.builtinNames, n ∈ SqGen.functionNames) ∧
    SqGen.functionNames.length = Sq.builtinNames.length := by decide +kernel

end SqTie
