/- Tie: the key set (and order) of FUNCTIONS is the model's builtin table. -/
import SqGen.Generated
import Sq.Builtins
namespace SqTie

theorem functions_tie : SqGen.functionNames = Sq.builtinNames := by decide

end SqTie
