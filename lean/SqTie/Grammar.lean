/- Tie: the 77 productions with their action functions and precedence annotations. -/
import SqGen.Generated
import Sq.Spec
namespace SqTie

theorem grammar_tie : SqGen.productions = Sq.Spec.productions := by decide

end SqTie
