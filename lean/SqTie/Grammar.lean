/- Tie: the 77 productions with their action functions and precedence annotations. -/
import SqGen.Generated
import Sq.Spec
import SqLemmas.ParseCFG
namespace SqTie

theorem grammar_tie : SqGen.productions = Sq.Spec.productions := by decide

/-- the context-free grammar of C06's `accepted_is_grammatical` IS the list of productions PLY built from rules.py
    in this run (left- and right-hand sides) -/
theorem cfg_is_generated : Sq.cfg = SqGen.productions.map (fun p => (p.1, p.2.1)) := by
  rw [grammar_tie]; rfl

end SqTie
