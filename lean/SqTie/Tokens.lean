/- Tie: token names, keyword table and reserved-unused keywords. -/
import SqGen.Generated
import Sq.Lex
import Sq.Spec
namespace SqTie

theorem tokens_tie : SqGen.tokens = Sq.Spec.tokens := by decide

theorem reserved_tie :
    SqGen.reserved = Sq.reservedTable.map (fun p => (p.1, p.2.name)) := by decide

theorem reserved_unused_tie :
    SqGen.reservedUnused = Sq.reservedUnused.map (·.name) := by decide

end SqTie
