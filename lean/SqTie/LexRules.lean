/- Tie: PLY's ordered lexer rule list (token, regex source, function-rule flag) and ignore set. -/
import SqGen.Generated
import Sq.Spec
namespace SqTie

theorem lexrules_tie : SqGen.lexRules = Sq.Spec.lexRules := by decide

theorem lexignore_tie : SqGen.lexIgnore = " \t" := by decide

end SqTie
