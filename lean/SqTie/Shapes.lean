/- Advisory tie (DESIGN.md §3.1): structural shape facts.  A failure here is not a verdict; it
   switches the run to the thorough correspondence budget for the mechanism concerned. -/
import SqGen.Generated
namespace SqTie

theorem op_classes_shape :
    ∀ c ∈ SqGen.opClasses, c.2 = "super-first" ∨ c.2 = "inherits" := by decide

theorem charge_compare_shape :
    SqGen.chargeCompare = "state.ops_evaluated >= state.max_ops_evaluated" := by decide

theorem resets_shape :
    SqGen.resetsInParse = ["lexpos=0", "lineno=1", "paren_count=0", "ast=None"] ∧
    SqGen.resetsInListNames = ["lexpos=0", "lineno=1", "paren_count=0"] := by decide

end SqTie
