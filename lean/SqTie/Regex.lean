/- Tie: every regex.* call site in functions.py passes timeout=REGEX_TIMEOUT and the constant is 50 ms. -/
import SqGen.Generated
import Sq.Builtins
namespace SqTie

theorem regex_timeout_tie : SqGen.regexTimeoutMicros = some Sq.regexTimeoutMicros := by decide

theorem regex_sites_tie :
    SqGen.regexCallSites =
      [("_match", "search", "REGEX_TIMEOUT"), ("_match_groups", "search", "REGEX_TIMEOUT"),
       ("_match_all", "findall", "REGEX_TIMEOUT")] := by decide

end SqTie
