/- Tie: every call into a regular-expression engine anywhere in the package goes to the third-party `regex` module (the one
   with a timeout) and passes timeout=REGEX_TIMEOUT; there is at least one such call; the constant is 50 ms.  Which function
   of the package makes the call, and how many there are, is not part of the tie. -/
import SqGen.Generated
import Sq.Builtins
namespace SqTie

theorem regex_timeout_tie : SqGen.regexTimeoutMicros = some Sq.regexTimeoutMicros := by decide

theorem regex_sites_tie :
    SqGen.regexCallSites ≠ [] ∧ ∀ s ∈ SqGen.regexCallSites, s.1 = "regex" ∧ s.2.2 = "REGEX_TIMEOUT" := by decide

end SqTie
