/- Tie: every external call / import in smartquery/*.py is one the model accounts for. -/
import SqGen.Generated
import Sq.Spec
namespace SqTie

theorem external_calls_tie : ∀ c ∈ SqGen.externalCalls, c ∈ Sq.Spec.externalCalls := by decide +kernel

theorem imports_tie : ∀ c ∈ SqGen.imports, c ∈ Sq.Spec.imports := by decide +kernel

end SqTie
