/- Tie: constants. -/
import SqGen.Generated
import Sq.Machine
namespace SqTie

theorem max_array_size_tie : SqGen.maxArraySize = Sq.maxArraySize := by decide
theorem cast_dict_keys_tie : SqGen.castDictKeysToStrings = true := by decide
theorem default_budget_tie :
    SqGen.defaultMaxOpsVM = Sq.defaultBudget ∧ SqGen.defaultMaxOpsEval = Sq.defaultBudget := by decide
theorem numeric_types_tie :
    SqGen.numericTypes = ["decimal.Decimal", "builtins.int", "builtins.float"] := by decide

end SqTie
