import Sq.Dec
import Sq.Str
import Sq.Lex
import Sq.Ast
import Sq.Parse
import Sq.Proto
