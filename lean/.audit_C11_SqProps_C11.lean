import SqProps.C11
#print axioms SqProps.C11.resets_establish_init
#print axioms SqProps.C11.parse_indep
#print axioms SqProps.C11.parse_is_fresh
#print axioms SqProps.C11.list_names_indep
#print axioms SqProps.C11.parse_keeps_no_cache
#print axioms SqProps.C11.list_names_keeps_cache
#print axioms SqProps.C11.history_keeps_no_cache
#print axioms SqProps.C11.history_indep_parse
#print axioms SqProps.C11.history_indep_names
#print axioms SqProps.C11.eval_fresh_vm
#print axioms SqProps.C11.closure_charges_creator_vm
