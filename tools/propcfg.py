"""Per-property configuration: proof obligations (theorem names are collected from the Lean sources),
tie theorems, correspondence slices, model-free monitors."""
import os, re

HERE = os.path.dirname(os.path.abspath(__file__))
LEAN = os.path.join(os.path.dirname(HERE), 'lean')

TRUSTED_BASE = [
    "Lean 4.33.0 kernel (thorough tier: compiled .olean files re-checked by leanchecker); axioms allowed in any property "
    "theorem: propext, Classical.choice, Quot.sound (audited with #print axioms on every run); no sorry/admit/native_decide/bv_decide/own axioms",
    "tools/extract.py: translator of /repo's working tree (operator table, token/keyword tables, PLY's ordered lexer rules, the 77 "
    "productions, FUNCTIONS key set, constants, regex call-site kwargs, external-call list) into lean/SqGen/Generated.lean",
    "tools/corr.py, sqimpl.py, evalimpl.py, slices.py and the generators: the correspondence check (model driver vs implementation "
    "on the same inputs); its coverage bounds what 'the model behaves like the code' means",
    "the Lean compiler producing the native model driver sqdrv (used for correspondence runs only, never for a theorem)",
    "modelled, validated differentially, not verified: CPython 3.12 decimal / str / list / dict / copy.deepcopy / sorted stability, "
    "PLY's LALR table construction, the third-party regex engine (opaque oracle), random (deterministic stand-in on both sides)",
    "host functions: the fixed family probe / apply / try_apply plus plain data; 'for all host bindings' is proved for that family",
]


def theorems_of(mod):
    """fully qualified theorem names declared in a Lean module (namespace taken from the file)"""
    path = os.path.join(LEAN, mod.replace('.', '/') + '.lean')
    src = open(path).read()
    src = re.sub(r'/-.*?-/', '', src, flags=re.S)
    ns = re.search(r'^namespace\s+(\S+)', src, re.M).group(1)
    return [ns + '.' + m for m in re.findall(r'^theorem\s+([A-Za-z_][\w\'.]*)', src, re.M)]


def P(mod):
    return [{'module': mod, 'name': n, 'advisory': False} for n in theorems_of(mod)]


def T(mod, *names, advisory=False):
    return [{'module': mod, 'name': 'SqTie.' + n, 'advisory': advisory} for n in names]


TIE_PREC = T('SqTie.Prec', 'prec_tie')
TIE_TOK = T('SqTie.Tokens', 'tokens_tie', 'reserved_tie', 'reserved_unused_tie')
TIE_LEX = T('SqTie.LexRules', 'lexrules_tie', 'lexignore_tie')
TIE_GRAM = T('SqTie.Grammar', 'grammar_tie', 'cfg_is_generated')
TIE_FN = T('SqTie.Functions', 'functions_tie')
TIE_CONST = T('SqTie.Consts', 'max_array_size_tie', 'cast_dict_keys_tie', 'default_budget_tie', 'numeric_types_tie')
TIE_RX = T('SqTie.Regex', 'regex_timeout_tie', 'regex_sites_tie')
TIE_IMP = T('SqTie.Imports', 'external_calls_tie', 'imports_tie')
SHAPE_OPS = T('SqTie.Shapes', 'op_classes_shape', 'charge_compare_shape', advisory=True)
SHAPE_RESETS = T('SqTie.Shapes', 'resets_shape', advisory=True)

PROPS = {
    'C01': dict(obligations=lambda: P('SqProps.C01') + T('SqTie.Consts', 'default_budget_tie') + SHAPE_OPS,
                slices=['prog_budget'], monitors=['c01'],
                pending=['session_partial (per-call statement for closure-free histories)', 'prefix clause for hosts that swallow the limit error (try_apply) is not claimed by the property']),
    'C02': dict(obligations=lambda: P('SqProps.C02') + TIE_FN + TIE_IMP + TIE_GRAM,
                slices=['builtin_args'], monitors=['c02'],
                pending=['the I/O half (no file / process / network / import / dynamic execution) is not a theorem about the model: external-call whitelist tie + audit-hook monitor']),
    'C03': dict(obligations=lambda: P('SqProps.C03') + P('SqProps.C03Set') + T('SqTie.Consts', 'max_array_size_tie') + TIE_FN,
                slices=['ops'], monitors=['c03'],
                pending=['the global length bound as a run invariant (false as stated: concat / str->list conversions, findings D10 / D11 / D18); proved: every adder at the cap refuses and changes nothing, and conversely a successful push / insert had room and leaves every object within max(cap, its length before) (push_insert_keep_cap); and a successful index assignment had room and leaves its container within the cap (setitem_success_within_cap); a slice read with any bounds and step returns at most as many elements as its source (slice_read_no_longer_than_source); the compound form c[k] op= v extends the ELEMENT c[k] unchecked (same family as D10)']),
    'C04': dict(obligations=lambda: P('SqProps.C04') + T('SqTie.Consts', 'numeric_types_tie') + TIE_FN,
                slices=['num'], monitors=['c04'],
                pending=['int / floor / ceil / one-argument round are the findings D13, sum over host ints D16 (unbounded by design of the code); min / max / abs / sum over decimals / round(x, n) / + - * / ** are proved']),
    'C05': dict(obligations=lambda: P('SqProps.C05') + TIE_RX,
                slices=['regex'], monitors=['c05'],
                pending=['regex_cost_bound (abstract cost model under "the engine honours its timeout")']),
    'C06': dict(obligations=lambda: P('SqProps.C06') + TIE_PREC + TIE_TOK + TIE_LEX + TIE_GRAM,
                slices=['parse_tok', 'parse_rand', 'lex_chars', 'session_cache'], monitors=['c06'],
                pending=[]),
    'C07': dict(obligations=lambda: P('SqProps.C07') + P('SqProps.C07Den') + TIE_FN + TIE_CONST,
                slices=['prog', 'ops', 'alias', 'session_cache'], monitors=[],
                pending=[]),
    'C08': dict(obligations=lambda: P('SqProps.C08') + P('SqProps.C08Rat') + T('SqTie.LexRules', 'lexrules_tie'),
                slices=['num'], monitors=['c08'],
                pending=['float() against ℚ, and `**` outside the modelled part (inexact powers, fractional / negative / exponent-form exponents: correspondence with CPython only); + - * /, the comparisons, round(x, n), round(x) and exact `**` are theorems against ℚ in SqProps/C08Rat.lean']),
    'C09': dict(obligations=lambda: P('SqProps.C09') + P('SqProps.C09Den') + SHAPE_OPS,
                slices=['probe'], monitors=['c09'],
                pending=[]),
    'C10': dict(obligations=lambda: P('SqProps.C10') + P('SqProps.C10Run') + P('SqProps.C10Den'),
                slices=['scope', 'session_scope'], monitors=['c10'],
                pending=['the hypothesis of covered_scopes_survive_any_program — no value of the host world mentions the scope dictionary — is world-relative (a host that stores its names mapping inside itself is outside it); scope_balanced over all runs; for mutator-free programs assignments_in_calls_leave_covered_scopes needs no such hypothesis']),
    'C11': dict(obligations=lambda: P('SqProps.C11') + SHAPE_RESETS,
                slices=['session'], monitors=['c11'],
                pending=['histories that contain earlier EVALS: independent up to the D9 finding (a stored lambda charges its creator VM); proved for histories of parse / list_names calls of any outcome, and for cached parsers via C17.cache_transparent']),
    'C12': dict(obligations=lambda: P('SqProps.C12') + P('SqProps.C12Assign'),
                slices=['alias'], monitors=['c12'],
                pending=['Closed / KeysPlain (no dangling addresses, hashable dict keys) are hypotheses about the heap, shown for examples, not proved as run invariants']),
    'C13': dict(obligations=lambda: P('SqProps.C13') + P('SqProps.C13All') + P('SqProps.C13Run') + TIE_FN,
                slices=['builtin_args'], monitors=['c13'],
                pending=['which of the mentioned objects a mutator changes (its receiver; the list c[k] for c[k] += ..) is stated per table entry (InvSep.mod_*), over whole runs as: only top scopes and objects some value mentions (step_sep, unmentioned_object_unchanged); the mutator-free case changes nothing (quiet_program_changes_no_host_object)']),
    'C14': dict(obligations=lambda: P('SqProps.C14') + T('SqTie.Consts', 'cast_dict_keys_tie'),
                slices=['ops'], monitors=['c14'],
                pending=['the value copies made by `c[k] = v` (deep copy before the store) composed with ops_refine_list; dict and list refinement over all operation sequences, slices with bounds (slice_is_contiguous_segment), and `[::k]` for every integer k (k > 0: slice_with_positive_step_takes_every_kth; k < 0: slice_with_negative_step_takes_every_kth_from_the_end; k = 0 refused) are proved']),
    'C15': dict(obligations=lambda: P('SqProps.C15') + TIE_LEX + TIE_GRAM + TIE_TOK,
                slices=['layout'], monitors=['c15'],
                pending=['trailing commas / redundant parentheses / the three call spellings at the CHARACTER level (proved at the token level through parse_iff); at the character level: extra blanks between tokens, comments at line ends, line breaks (LF, CRLF) inside brackets are proved over whole texts']),
    'C16': dict(obligations=lambda: P('SqProps.C16') + TIE_TOK,
                slices=['malformed'], monitors=['c16'],
                pending=[]),
    'C17': dict(obligations=lambda: P('SqProps.C17'),
                slices=['session_cache'], monitors=['c17'],
                pending=['host mutation of earlier results between calls (the trees are immutable values in the model, so it cannot alter them; the implementation side is covered by the session_cache slice and the c17 monitor)']),
    'C18': dict(obligations=lambda: P('SqProps.C18') + TIE_LEX + TIE_TOK,
                slices=['names', 'session_cache', 'name_lookup'], monitors=['c18'],
                pending=['lookupOf classifies the lookup sites of the machine by inspection of Sq/Machine.lean (enter .name, doCall, resume shortK are the only callers of lookupName); the whole-run theorem evaluation_looks_up_only_listed_names is proved']),
    'C19': dict(obligations=lambda: P('SqProps.C19'),
                slices=['rand'], monitors=['c19'],
                pending=[]),
    'C20': dict(obligations=lambda: P('SqProps.C20') + TIE_LEX,
                slices=['errmsg'], monitors=['c20'],
                pending=['the token is the FIRST one at which no continuation is grammatical (viable-prefix property of the LALR automaton): correspondence only']),
}

for _k, _v in PROPS.items():
    _v['obligations'] = _v['obligations']()


# properties whose outcome the reference semantics fix uniquely (DESIGN.md section 4): which differences count
REFERENCE = {'C01': 'c01', 'C06': 'any', 'C09': 'c09', 'C07': 'c07', 'C08': 'value', 'C14': 'value', 'C15': 'any', 'C18': 'any', 'C20': 'any'}


def _head(a):
    return a.split(' ;;')[0]


def _parserish(h):
    return h.startswith('err parser') or h.startswith('err opslimit')


def reference_failure(kind, d):
    a, b = d['impl'], d['model']
    if kind == 'any':
        return True
    ha, hb = _head(a), _head(b)
    if kind == 'c01':
        # the reference semantics count the operations a program needs (ops_counted: one per node evaluation): a run that ends in
        # the ops-limit error on one side and not on the other is a run that returned normally though it needed N operations,
        # or was cut short before them
        return ha.startswith('err opslimit') != hb.startswith('err opslimit')
    if kind == 'c09':
        # the observables the property names: the ordered log of the probe calls and the value returned.  The reference semantics
        # are proved to evaluate lazily / exactly once / left to right (SqProps.C09*), so a program on which the probe log or
        # the value differs is a failing input; runs cut short by the operation budget say nothing about order
        if ha.startswith('err opslimit') or hb.startswith('err opslimit'):
            return False
        seg = lambda x: [t for t in x.split(' ;;') if t.strip().startswith('log')]
        return seg(a) != seg(b) or (ha.startswith('ok') and hb.startswith('ok') and ha != hb)
    if ha.startswith('ok') or hb.startswith('ok'):
        if kind == 'value':
            return ha != hb
        return a != b          # c07: value, names-after, ops, log
    # both failed: only "language-level ParserError vs anything else" is prescribed
    if _parserish(ha) != _parserish(hb):
        return True
    if kind == 'c07':
        return a.split(' ;;')[1:] != b.split(' ;;')[1:]     # names-after / ops / log of a failing run
    return False
