"""Per-property configuration: proof obligations (theorem names + modules), ties, slices, monitors."""

TRUSTED_BASE = [
    "Lean 4.33.0 kernel (thorough tier: re-checked by leanchecker); axioms allowed: propext, Classical.choice, Quot.sound",
    "tools/extract.py (translator: tables, constants, call sites of /repo's working tree -> SqGen/Generated.lean)",
    "tools/corr.py + tools/sqimpl.py + tools/evalimpl.py (correspondence: generators, in-process runner, canonicaliser, diff)",
    "the Lean compiler for the native model driver (correspondence runs only)",
    "CPython 3.12 decimal/str/list/dict/copy.deepcopy, PLY's LALR construction, third-party regex: modelled, validated differentially, not verified",
]


def T(mod, *names, advisory=False):
    return [{'module': mod, 'name': n, 'advisory': advisory} for n in names]


PROPS = {
    'C01': {
        'obligations': T('SqProps.C01', 'SqProps.C01.charge_first', 'SqProps.C01.opsLimit_is_parser_error',
                         'SqProps.C01.charge_then_enter', 'SqProps.C01.stepCore_budget_irrelevant',
                         'SqProps.C01.step_mono', 'SqProps.C01.budget_mono')
        + T('SqTie.Consts', 'SqTie.default_budget_tie')
        + T('SqTie.Shapes', 'SqTie.op_classes_shape', 'SqTie.charge_compare_shape', advisory=True),
        'slices': ['prog_budget'],
        'monitors': [],
    },
}
