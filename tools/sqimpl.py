"""Load the implementation under test from a scratch copy of /repo's *current working tree*
and expose it in the neutral forms of the line protocol (DESIGN.md §3.2).

SqParser() writes gen/parsetab.py + gen/lextab.py into its own package directory on every
construction, so the package is never imported from /repo itself."""
import atexit, os, shutil, sys, tempfile, decimal

REPO = os.environ.get('SQ_REPO', '/repo')
_scratch = None


def scratch_dir():
    """Copy <repo>/smartquery to a fresh temp dir (once per process tree; workers inherit
    SQ_SCRATCH) and return the directory to put on sys.path."""
    global _scratch
    if _scratch:
        return _scratch
    env = os.environ.get('SQ_SCRATCH')
    if env and os.path.isdir(os.path.join(env, 'smartquery')):
        _scratch = env
        return env
    d = tempfile.mkdtemp(prefix='sqv_')
    shutil.copytree(os.path.join(REPO, 'smartquery'), os.path.join(d, 'smartquery'),
                    ignore=shutil.ignore_patterns('__pycache__'))
    os.environ['SQ_SCRATCH'] = d
    _scratch = d
    atexit.register(lambda: shutil.rmtree(d, ignore_errors=True))
    return d


def load():
    """import the scratch copy; returns the module namespace object"""
    d = scratch_dir()
    if d not in sys.path:
        sys.path.insert(0, d)
    import smartquery.sq_parser as sp, smartquery.rules as rules, smartquery.lexer as lexer, \
        smartquery.ast_ops as ast_ops, smartquery.functions as functions, smartquery.exceptions as exc, \
        smartquery.custom_types as ct, smartquery.scoped_dict as sd, smartquery.vm_state as vs
    assert os.path.realpath(sp.__file__).startswith(os.path.realpath(d)), sp.__file__

    class NS:
        pass
    ns = NS()
    ns.sp, ns.rules, ns.lexer, ns.ast_ops, ns.functions, ns.exc, ns.ct, ns.sd, ns.vs = \
        sp, rules, lexer, ast_ops, functions, exc, ct, sd, vs
    return ns


# ---------------------------------------------------------------- neutral forms
def hx(s):
    return s.encode('utf-8', 'surrogatepass').hex() if s else '-'


def unhx(h):
    return '' if h == '-' else bytes.fromhex(h).decode('utf-8', 'surrogatepass')


def dec_repr(d, custom):
    sign, digits, exp = d.as_tuple()
    if not isinstance(exp, int):
        return 'O:DecimalSpecial'
    coeff = int(''.join(map(str, digits))) if digits else 0
    return f'D:{sign}:{coeff}:{exp}:{"c" if custom else "b"}'


BIN = {'+': 'add', '-': 'sub', '*': 'mul', '**': 'pow', '/': 'div', '==': 'eq', '!=': 'ne', '>': 'gt',
       '<': 'lt', '>=': 'ge', '<=': 'le', 'not in': 'notin', 'in': 'in', 'and': 'and', 'or': 'or'}
SHORT = {'+=': 'iadd', '-=': 'isub', '*=': 'imul', '/=': 'idiv'}


def lit(ns, v):
    if v is None:
        return 'N'
    if v is True:
        return 'T'
    if v is False:
        return 'F'
    if isinstance(v, decimal.Decimal):
        return dec_repr(v, isinstance(v, ns.ct.Decimal))
    if isinstance(v, str):
        return 'S:' + hx(v)
    return 'O:' + type(v).__name__


def tree(ns, op):
    """neutral S-expression of an implementation syntax tree (iterative-safe for depth ~ 900)"""
    A = ns.ast_ops
    t = type(op)
    if t is A.ValueOp:
        return '(val ' + lit(ns, op.v) + ')'
    if t is A.NameOp:
        return '(name ' + hx(op.name) + ')'
    if t is A.BinOp:
        return f'(bin {BIN.get(op.op, "?" + hx(op.op))} {tree(ns, op.op1)} {tree(ns, op.op2)})'
    if t is A.UnaryOp:
        return f'(un {"neg" if op.op == "-" else "not" if op.op == "not" else "?"} {tree(ns, op.op1)})'
    if t is A.CallOp:
        return '(call ' + hx(op.name) + ''.join(' ' + tree(ns, a) for a in op.args) + ')'
    if t is A.CodeOp:
        return '(code' + ''.join(' ' + tree(ns, a) for a in op.lines) + ')'
    if t is A.AssignOp:
        return f'(assign {hx(op.name)} {tree(ns, op.value)})'
    if t is A.ShortOp:
        return f'(short {hx(op.name)} {SHORT.get(op.op, "?")} {tree(ns, op.value)})'
    if t is A.IfExprOp:
        return f'(if {tree(ns, op.cond)} {tree(ns, op.op1)} {tree(ns, op.op2)})'
    if t is A.SliceOp:
        return f'(slice {tree(ns, op.start)} {tree(ns, op.stop)} {tree(ns, op.step)})'
    if t is A.DictOp:
        return '(dict' + ''.join(' ' + tree(ns, k) + ' ' + tree(ns, v) for k, v in op.d) + ')'
    if t is A.LambdaOp:
        return '(lambda (params' + ''.join(' ' + tree(ns, a) for a in op.args) + ') ' + tree(ns, op.expr) + ')'
    if t is A.NoOp:
        return '(noop)'
    if op is None:
        return '(none)'
    return '(?' + t.__name__ + ')'


class Impl:
    """one SqParser plus the outside-only observation points"""

    def __init__(self, ns=None, parse_cache=None):
        self.ns = ns or load()
        self.err = {}
        rules = self.ns.rules
        if not getattr(rules.p_error, '_sqv_wrapped', False):
            orig = rules.p_error

            def p_error(p):
                Impl._last_err_pos = p.lexpos if p is not None else -1
                Impl._last_err_val = p.value if p is not None else None
                return orig(p)
            p_error._sqv_wrapped = True
            rules.p_error = p_error
        self.p = self.ns.sp.SqParser(parse_cache=parse_cache)

    _last_err_pos = None
    _last_err_val = None

    def classify(self, e):
        """error class of the protocol"""
        E = self.ns.exc
        if isinstance(e, E.OpsExecutionLimitExceededError):
            return 'opslimit'
        if isinstance(e, E.ParserError):
            return 'parser'
        return type(e).__name__

    def parse_out(self, src):
        """the PARSE result line for the implementation"""
        Impl._last_err_pos = None
        try:
            t = self.p.parse(src)
        except self.ns.exc.ParserError as e:
            msg = str(e)
            if Impl._last_err_pos is not None:
                return f'E syn {Impl._last_err_pos} {hx(msg)}'
            if msg.startswith('Illegal character'):
                return 'E lex ' + hx(msg)
            if msg.endswith('is reserved keyword'):
                return 'E res ' + hx(msg)
            return 'E parser ' + hx(msg)
        except RecursionError:
            return 'X RecursionError'
        except Exception as e:  # anything else is itself a finding for C16
            return 'X ' + type(e).__name__ + ' ' + hx(str(e))
        return 'ok ' + tree(self.ns, t)

    def names_out(self, src):
        out = []
        try:
            for n in self.p.list_names(src):
                out.append(hx(n))
        except self.ns.exc.ParserError as e:
            return 'names ' + ' '.join(out) + ' E lex ' + hx(str(e))
        except Exception as e:
            return 'names ' + ' '.join(out) + ' X ' + type(e).__name__
        return 'names ' + ' '.join(out)

    def lex_out(self, src):
        lx = self.p.lex
        lx.lexpos = 0
        lx.lineno = 1
        lx.paren_count = 0
        lx.input(src)
        out = []
        try:
            while True:
                t = lx.token()
                if t is None:
                    break
                v = t.value
                if t.type == 'NUMBER':
                    v = src[t.lexpos:lx.lexpos]  # the lexeme; PLY leaves lexpos after the match
                out.append(f'({t.type} {hx(v)} {t.lexpos} {t.lineno})')
        except self.ns.exc.ParserError as e:
            return 'toks ' + ' '.join(out) + ' E lex ' + hx(str(e))
        return 'toks ' + ' '.join(out)
