"""Translator: re-reads /repo's current working tree (scratch copy) and regenerates
lean/SqGen/Generated.lean — the declarative facts of the code that can be extracted faithfully and
mechanically (DESIGN.md §3.1).  Tie theorems in lean/SqTie/ compare them with the model's tables.
Rewrites the file only when its text changes."""
import ast, inspect, os, sys
HERE = os.path.dirname(os.path.abspath(__file__))
sys.path.insert(0, HERE)
import sqimpl

OUT = os.path.join(os.path.dirname(HERE), 'lean', 'SqGen', 'Generated.lean')

# stdlib modules that cannot touch files, processes, the network, the import system or compile / run code
SAFE_MODULES = {'typing', 'abc', 'dataclasses', 'decimal', 'math', 'functools', 'contextlib', 'copy', 'collections', 'itertools',
                'operator', 'enum', 'numbers', 'fractions', 'string', 're', 'bisect', 'heapq', 'unicodedata', 'time', 'datetime',
                'random', 'regex', 'statistics', 'textwrap', 'json', 'struct', 'array', 'weakref', 'reprlib', 'difflib'}
# the functions of `regex` / `re` that run the matching engine on a subject
RX_ENTRY = {'search', 'match', 'fullmatch', 'findall', 'finditer', 'sub', 'subn', 'split', 'splititer', 'subf', 'subfn'}
# Python builtins that compute on their arguments only (no I/O, no reflection on names, no code execution): which of them a
# file calls is not recorded
HARMLESS_BUILTINS = {'abs', 'all', 'any', 'bool', 'bytes', 'callable', 'chr', 'dict', 'divmod', 'enumerate', 'filter', 'float',
                     'format', 'frozenset', 'hash', 'id', 'int', 'isinstance', 'issubclass', 'iter', 'len', 'list', 'map', 'max', 'min',
                     'next', 'object', 'ord', 'pow', 'range', 'repr', 'reversed', 'round', 'set', 'slice', 'sorted', 'str', 'sum', 'super',
                     'tuple', 'type', 'zip', 'KeyError', 'ValueError', 'TypeError', 'IndexError', 'LookupError', 'Exception',
                     'AttributeError', 'StopIteration', 'ZeroDivisionError', 'ArithmeticError', 'RuntimeError', 'NotImplementedError',
                     'property', 'staticmethod', 'classmethod', 'complex', 'bin', 'hex', 'oct', 'ascii', 'bytearray', 'memoryview'}


def lstr(s):
    out = ['"']
    for ch in s:
        if ch == '\\':
            out.append('\\\\')
        elif ch == '"':
            out.append('\\"')
        elif ch == '\n':
            out.append('\\n')
        elif ch == '\t':
            out.append('\\t')
        elif ch == '\r':
            out.append('\\r')
        else:
            out.append(ch)
    out.append('"')
    return ''.join(out)


def llist(xs, f=lstr):
    return '[' + ', '.join(f(x) for x in xs) + ']'


def extract():
    ns = sqimpl.load()
    d = sqimpl.scratch_dir()
    pkg = os.path.join(d, 'smartquery')
    L = ns.lexer
    p = ns.sp.SqParser()
    facts = {}
    facts['precedence'] = [(a[0], list(a[1:])) for a in L.precedence]
    facts['tokens'] = list(L.tokens)
    facts['reserved'] = list(L.reserved.items())
    facts['reservedUnused'] = list(L.reserved_unused.values())
    # PLY's master regex: ordered (funcname-or-None, tokname) list + the alternation text
    rules = []
    for master, names_list in [(x[0], x[1]) for x in p.lex.lexstatere['INITIAL']]:
        import re as _re
        # group name -> pattern text is not stored separately; recover from the module
        for ent in names_list:
            if ent is None:
                continue
            func, tokname = ent
            if func is not None:
                rules.append((tokname or func.__name__[2:], inspect.getdoc(func) if False else func.__doc__, True))
            else:
                rules.append((tokname, getattr(L, 't_' + tokname), False))
    facts['lexRules'] = rules
    facts['lexIgnore'] = p.lex.lexstateignore['INITIAL']
    facts['productions'] = [(pr.name, list(pr.prod), pr.func or '', pr.prec[1] if pr.prec else 0, pr.prec[0] if pr.prec else '')
                            for pr in p.yacc.productions]
    F = ns.functions
    facts['functionNames'] = list(F.FUNCTIONS.keys())
    facts['maxArraySize'] = F.MAX_ARRAY_SIZE
    rt = F.REGEX_TIMEOUT
    facts['regexTimeoutMicros'] = None if rt is None else int(round(rt * 1_000_000))
    facts['castDictKeys'] = bool(F.CAST_DICT_KEYS_TO_STRINGS)
    facts['defaultMaxOpsVM'] = ns.vs.VMState().max_ops_evaluated
    facts['defaultMaxOpsEval'] = inspect.signature(ns.sp.SqParser.eval).parameters['max_ops_evaluated'].default
    facts['numericTypes'] = [t.__module__ + '.' + t.__name__ for t in ns.ast_ops.NUMERIC_TYPES]
    # ---- source walks
    sites, calls, imports = [], set(), set()
    pybuiltins = set(dir(__import__('builtins')))
    op_classes, resets = [], {}
    charge = '?'
    for fn in sorted(os.listdir(pkg)):
        if not fn.endswith('.py'):
            continue
        src = open(os.path.join(pkg, fn)).read()
        tree = ast.parse(src)
        mod = fn[:-3]
        # imports: a module without any file / process / network / import / code-execution capability counts by its NAME
        # only (which names a file takes from `typing` is nobody's business); every other import counts by module AND name
        mods, froms = {}, {}
        for node in ast.walk(tree):
            if isinstance(node, ast.Import):
                for a in node.names:
                    root = a.name.split('.')[0]
                    mods[(a.asname or a.name).split('.')[0]] = a.name
                    imports.add(root if root in SAFE_MODULES else a.name)
            elif isinstance(node, ast.ImportFrom):
                m = ('.' * node.level) + (node.module or '')
                root = m.split('.')[0]
                for a in node.names:
                    froms[a.asname or a.name] = (m, a.name)
                    if root in SAFE_MODULES:
                        imports.add(root)
                    elif root == 'smartquery' or node.level:
                        imports.add('smartquery')
                        mods[a.asname or a.name] = 'smartquery.' + a.name     # `from smartquery import lexer` binds a module
                    else:
                        imports.add(m + ':' + a.name)
        # calls, with enclosing function: Python builtins by name, functions of imported modules, imported names — NOT
        # methods of local values (renaming a local variable changes nothing)
        def walk(n, enclosing):
            for ch in ast.iter_child_nodes(n):
                enc = enclosing
                if isinstance(ch, (ast.FunctionDef, ast.Lambda)):
                    enc = getattr(ch, 'name', enclosing + '.<lambda>')
                if isinstance(ch, ast.Call):
                    f = ch.func
                    if isinstance(f, ast.Attribute) and isinstance(f.value, ast.Name):
                        if f.value.id in mods and not mods[f.value.id].startswith('smartquery') and mods[f.value.id].split('.')[0] not in SAFE_MODULES:
                            calls.add(f'{mod}/{mods[f.value.id]}.{f.attr}')
                        elif f.value.id in froms and froms[f.value.id][0].split('.')[0] not in ({'smartquery', ''} | SAFE_MODULES):
                            calls.add(f'{mod}/{froms[f.value.id][0]}:{froms[f.value.id][1]}.{f.attr}')
                        # every call INTO a regular-expression engine (the third-party `regex` or the stdlib `re`, under any
                        # alias), whichever function of the package makes it: engine module, engine function, timeout argument
                        if mods.get(f.value.id) in ('regex', 're') and f.attr in RX_ENTRY:
                            kw = {k.arg: ast.unparse(k.value) for k in ch.keywords}
                            sites.append((mods[f.value.id], f.attr, kw.get('timeout', '')))
                    elif isinstance(f, ast.Name) and f.id in froms and froms[f.id][0] in ('regex', 're') and froms[f.id][1] in RX_ENTRY:
                        kw = {k.arg: ast.unparse(k.value) for k in ch.keywords}
                        sites.append((froms[f.id][0], froms[f.id][1], kw.get('timeout', '')))
                    elif isinstance(f, ast.Name) and f.id in froms and froms[f.id][0].split('.')[0] not in ({'smartquery', ''} | SAFE_MODULES):
                        calls.add(f'{mod}/{froms[f.id][0]}:{froms[f.id][1]}')
                    elif isinstance(f, ast.Name) and f.id in pybuiltins and f.id not in HARMLESS_BUILTINS:
                        calls.add(f'{mod}/{f.id}')
                walk(ch, enc)
        walk(tree, mod)
        if mod == 'ast_ops':
            for node in tree.body:
                if isinstance(node, ast.ClassDef):
                    ev = [b for b in node.body if isinstance(b, ast.FunctionDef) and b.name == 'eval']
                    if node.name == 'Op':
                        for n in ast.walk(node):
                            if isinstance(n, ast.Compare) and 'max_ops_evaluated' in ast.unparse(n):
                                charge = ast.unparse(n)
                        continue
                    if not ev:
                        op_classes.append((node.name, 'inherits'))
                        continue
                    first = ev[0].body[0]
                    ok = isinstance(first, ast.Expr) and ast.unparse(first.value) == 'super().eval(state)'
                    op_classes.append((node.name, 'super-first' if ok else 'other'))
        if mod == 'sq_parser':
            for node in ast.walk(tree):
                if isinstance(node, ast.FunctionDef) and node.name in ('parse', 'list_names'):
                    rs = []
                    for n in ast.walk(node):
                        if isinstance(n, ast.Assign):
                            for t in n.targets:
                                u = ast.unparse(t)
                                if u.startswith('self.lex.'):
                                    rs.append(u[len('self.lex.'):] + '=' + ast.unparse(n.value))
                    resets[node.name] = rs
    facts['regexCallSites'] = sorted(set(sites))
    facts['externalCalls'] = sorted(calls)
    facts['imports'] = sorted(imports)
    facts['opClasses'] = op_classes
    facts['chargeCompare'] = charge
    facts['resetsInParse'] = resets.get('parse', [])
    facts['resetsInListNames'] = resets.get('list_names', [])
    return facts


def render(f):
    o = ['/- GENERATED by tools/extract.py from the current working tree of /repo. DO NOT EDIT. -/',
         'namespace SqGen', '']
    o.append('def precedence : List (String × List String) :=\n  ' +
             llist(f['precedence'], lambda a: f'({lstr(a[0])}, {llist(a[1])})'))
    o.append('def tokens : List String := ' + llist(f['tokens']))
    o.append('def reserved : List (String × String) := ' + llist(f['reserved'], lambda a: f'({lstr(a[0])}, {lstr(a[1])})'))
    o.append('def reservedUnused : List String := ' + llist(f['reservedUnused']))
    o.append('/-- (token, regex source, defined by a function) in PLY master-regex order -/')
    o.append('def lexRules : List (String × String × Bool) :=\n  ' +
             llist(f['lexRules'], lambda a: f'({lstr(a[0])}, {lstr(a[1])}, {"true" if a[2] else "false"})'))
    o.append('def lexIgnore : String := ' + lstr(f['lexIgnore']))
    o.append('/-- (lhs, rhs, action function, precedence level, associativity) -/')
    o.append('def productions : List (String × List String × String × Nat × String) :=\n  ' +
             llist(f['productions'], lambda a: f'({lstr(a[0])}, {llist(a[1])}, {lstr(a[2])}, {a[3]}, {lstr(a[4])})'))
    o.append('def functionNames : List String := ' + llist(f['functionNames']))
    o.append(f'def maxArraySize : Nat := {f["maxArraySize"]}')
    o.append('def regexTimeoutMicros : Option Nat := ' + ('none' if f['regexTimeoutMicros'] is None else f'some {f["regexTimeoutMicros"]}'))
    o.append(f'def castDictKeysToStrings : Bool := {"true" if f["castDictKeys"] else "false"}')
    o.append(f'def defaultMaxOpsVM : Nat := {f["defaultMaxOpsVM"]}')
    o.append(f'def defaultMaxOpsEval : Nat := {f["defaultMaxOpsEval"]}')
    o.append('def numericTypes : List String := ' + llist(f['numericTypes']))
    o.append('/-- (enclosing function, regex.<callee>, source of the timeout= argument or "") -/')
    o.append('def regexCallSites : List (String × String × String) := ' +
             llist(f['regexCallSites'], lambda a: f'({lstr(a[0])}, {lstr(a[1])}, {lstr(a[2])})'))
    o.append('def externalCalls : List String := ' + llist(f['externalCalls']))
    o.append('def imports : List String := ' + llist(f['imports']))
    o.append('def opClasses : List (String × String) := ' + llist(f['opClasses'], lambda a: f'({lstr(a[0])}, {lstr(a[1])})'))
    o.append('def chargeCompare : String := ' + lstr(f['chargeCompare']))
    o.append('def resetsInParse : List String := ' + llist(f['resetsInParse']))
    o.append('def resetsInListNames : List String := ' + llist(f['resetsInListNames']))
    o += ['', 'end SqGen', '']
    return '\n'.join(o)


def main():
    text = render(extract())
    old = open(OUT).read() if os.path.exists(OUT) else None
    if old != text:
        os.makedirs(os.path.dirname(OUT), exist_ok=True)
        with open(OUT + '.tmp', 'w') as fh:
            fh.write(text)
        os.replace(OUT + '.tmp', OUT)
        print('Generated.lean rewritten')
    else:
        print('Generated.lean unchanged')


if __name__ == '__main__':
    main()
