"""A pristine interpreter that answers single API calls, each in a FORKED child: the child sees the library exactly as a
process that has just imported it (no parse / eval has ever run), so its answer is the reference for "depends only on the
arguments of that call" across everything that lives at module / class / process level.

protocol: one JSON request per line on stdin {heap, call}; one line on stdout: the outcome string of monimpl._do_call."""
import json, os, select, signal, sys
sys.path.insert(0, os.path.dirname(os.path.abspath(__file__)))
import sqimpl, evalimpl, monimpl          # noqa: E402

ns = sqimpl.load()


def audit_answer(req):
    """evaluate each source in this pristine child with an audit hook armed around eval only (the parser is constructed
    before): any file / process / network / import / code-execution event is reported"""
    im = sqimpl.Impl(ns)
    monimpl._install_audit()
    out = []
    for src in req['srcs']:
        names = dict(evalimpl.Host({}).fns)
        names.update({'s': 'a1b22c', 'l': [3, 1, 2], 'd': {'k': 1}})
        monimpl._audit['events'].clear()
        monimpl._audit['on'] = True
        try:
            im.p.eval(src, names, max_ops_evaluated=2000)
        except BaseException:      # noqa: BLE001
            pass
        finally:
            monimpl._audit['on'] = False
        out.append(sorted(set(monimpl._audit['events'])))
    return json.dumps(out)


def answer(req):
    if req.get('kind') == 'audit':
        return audit_answer(req)
    host = evalimpl.Host({})
    im = sqimpl.Impl(ns)
    host.classify = im.classify
    maps = list(evalimpl.Reader(ns, host).val(evalimpl.sread(req['heap'])[0]))
    return monimpl._do_call(im, host, tuple(req['call']), maps)


def main():
    for line in sys.stdin:
        line = line.strip()
        if not line:
            continue
        r, w = os.pipe()
        pid = os.fork()
        if pid == 0:
            os.close(r)
            try:
                out = answer(json.loads(line))
            except BaseException as e:      # noqa: BLE001
                out = 'ZYGOTE-ERROR ' + type(e).__name__ + ' ' + str(e)[:200]
            os.write(w, out.encode('utf-8', 'surrogatepass'))
            os._exit(0)
        os.close(w)
        chunks = []
        ok = True
        while True:
            rd, _, _ = select.select([r], [], [], 30)
            if not rd:
                os.kill(pid, signal.SIGKILL)
                ok = False
                break
            b = os.read(r, 65536)
            if not b:
                break
            chunks.append(b)
        os.close(r)
        os.waitpid(pid, 0)
        out = b''.join(chunks).decode('utf-8', 'surrogatepass') if ok else 'ZYGOTE-TIMEOUT'
        sys.stdout.write(out.replace('\n', '\\n') + '\n')
        sys.stdout.flush()


if __name__ == '__main__':
    main()
