#!/usr/bin/env python3
"""check.py <Cxx> --tier quick|thorough [--replay file]   (DESIGN.md §4)

Stages: snapshot+regenerate (translator) -> proof stage (lake build of the property's theorem and tie
modules, axiom audit, source grep) -> correspondence slices (model vs implementation) -> model-free
monitors on the real code -> verdict.  Exit 0: property held on everything explored (known findings
printed as KNOWN-FINDING lines).  Exit 1: `VIOLATION property=<id> replay=<path>` (with the suffix
no-failing-input-found when a proof obligation / tie / correspondence broke but no concrete failing
input was found).  Exit 2: tooling failure or internal time-out — never a verdict."""
import argparse, fcntl, json, os, re, subprocess, sys, time, traceback
HERE = os.path.dirname(os.path.abspath(__file__))
ROOT = os.path.dirname(HERE)
LEAN = os.path.join(ROOT, 'lean')
sys.path.insert(0, HERE)
PY = '/venv/bin/python'

ALLOWED_AXIOMS = {'propext', 'Classical.choice', 'Quot.sound'}
FORBIDDEN = re.compile(r'\b(sorry|admit|native_decide|bv_decide|implemented_by|unsafe)\b|^\s*axiom\s|maxHeartbeats\s+0')


def log(*a):
    print(*a, flush=True)


def sh(cmd, cwd=None, timeout=3600):
    p = subprocess.run(cmd, cwd=cwd, stdout=subprocess.PIPE, stderr=subprocess.STDOUT, timeout=timeout, text=True)
    return p.returncode, p.stdout


class Lock:
    def __init__(self, path):
        self.path = path

    def __enter__(self):
        self.f = open(self.path, 'w')
        fcntl.flock(self.f, fcntl.LOCK_EX)

    def __exit__(self, *a):
        fcntl.flock(self.f, fcntl.LOCK_UN)
        self.f.close()


def strip_comments(text):
    text = re.sub(r'/-.*?-/', lambda m: '\n' * m.group(0).count('\n'), text, flags=re.S)
    return re.sub(r'--.*', '', text)


def proof_stage(cfg):
    """returns dict(obligations, discharged, broken=[...], detail=[...])"""
    res = {'obligations': 0, 'discharged': 0, 'broken': [], 'advisory_broken': [], 'detail': [], 'axioms': {}}
    with Lock(os.path.join(LEAN, '.lake-lock')):
        rc, out = sh([PY, os.path.join(HERE, 'extract.py')], cwd=ROOT)
        if rc != 0:
            # the translator could not read the tree (e.g. the package does not import): every tie is unchecked
            res['broken'].append({'kind': 'translator', 'name': 'tools/extract.py', 'log': out[-2000:]})
            res['translator_failed'] = True
        res['detail'].append(out.strip()[-200:])
        # model + driver first: without them nothing can be said
        rc, out = sh(['lake', 'build', 'Sq', 'sqdrv'], cwd=LEAN)
        if rc != 0:
            raise RuntimeError('model does not build:\n' + out[-3000:])
        mods = {}
        for ob in cfg['obligations']:
            mods.setdefault(ob['module'], []).append(ob)
        for mod, obs in mods.items():
            rc, out = sh(['lake', 'build', mod], cwd=LEAN)
            ok = rc == 0
            for ob in obs:
                res['obligations'] += 1
                if not ok:
                    (res['advisory_broken'] if ob.get('advisory') else res['broken']).append(
                        {'kind': 'tie' if mod.startswith('SqTie') else 'theorem', 'name': ob['name'], 'module': mod,
                         'log': out[-1500:]})
            if not ok:
                continue
            # axiom audit for this module's theorems
            audit = os.path.join(LEAN, f'.audit_{cfg["id"]}_{mod.replace(".", "_")}.lean')
            with open(audit, 'w') as fh:
                fh.write(f'import {mod}\n' + ''.join(f'#print axioms {ob["name"]}\n' for ob in obs))
            rc, out = sh(['lake', 'env', 'lean', audit], cwd=LEAN)
            os.unlink(audit)
            found = {}
            for m in re.finditer(r"^'(.+)' (does not depend on any axioms|depends on axioms: \[([^\]]*)\])", out, re.M):
                axs = set(a.strip() for a in (m.group(3) or '').replace('\n', ' ').split(',') if a.strip())
                found[m.group(1)] = axs
            src = open(os.path.join(LEAN, mod.replace('.', '/') + '.lean')).read()
            bad_src = [l for l in strip_comments(src).split('\n') if FORBIDDEN.search(l)]
            for ob in obs:
                axs = found.get(ob['name'])
                if rc != 0 or axs is None:
                    res['broken'].append({'kind': 'audit', 'name': ob['name'], 'module': mod, 'log': out[-800:]})
                elif not axs <= ALLOWED_AXIOMS or bad_src:
                    res['broken'].append({'kind': 'axioms', 'name': ob['name'], 'module': mod,
                                          'log': f'axioms={sorted(axs)} forbidden-source-lines={bad_src[:3]}'})
                else:
                    res['discharged'] += 1
                    res['axioms'][ob['name']] = sorted(axs)
        # forbidden tokens anywhere in the model (theorems mention model definitions)
        for dp, _, fs in os.walk(os.path.join(LEAN, 'Sq')):
            for f in fs:
                if f.endswith('.lean'):
                    for l in strip_comments(open(os.path.join(dp, f)).read()).split('\n'):
                        if FORBIDDEN.search(l):
                            res['broken'].append({'kind': 'forbidden-token', 'name': f, 'log': l.strip()[:200]})
    return res


def leanchecker(cfg):
    mods = sorted({ob['module'] for ob in cfg['obligations']})
    rc, out = sh(['lake', 'env', 'leanchecker'] + mods, cwd=LEAN, timeout=3000)
    return rc == 0, out[-500:]


def load_known(pid):
    path = os.path.join(ROOT, 'known_findings.jsonl')
    out = []
    if os.path.exists(path):
        for l in open(path):
            l = l.strip()
            if l and not l.startswith('#'):
                e = json.loads(l)
                if e['property'] == pid:
                    out.append(e)
    return out


def main():
    ap = argparse.ArgumentParser()
    ap.add_argument('prop')
    ap.add_argument('--tier', default=os.environ.get('VERIF_TIER', 'quick'))
    ap.add_argument('--replay')
    args = ap.parse_args()
    pid = args.prop
    seed = int(os.environ.get('VERIF_SEED', '0') or 0)
    t0 = time.time()
    import propcfg
    cfg = propcfg.PROPS[pid]
    cfg['id'] = pid
    ev_path = os.path.join(ROOT, 'evidence', f'{pid}.json')
    os.makedirs(os.path.join(ROOT, 'evidence', 'replays'), exist_ok=True)
    try:
        if args.replay:
            import replay
            sys.exit(replay.run(pid, args.replay))
        proof = proof_stage(cfg)
        lc = None
        if args.tier == 'thorough' and not proof['broken']:
            ok, out = leanchecker(cfg)
            lc = {'ok': ok, 'tail': out}
            if not ok:
                proof['broken'].append({'kind': 'leanchecker', 'name': 'leanchecker', 'log': out})
        escalate = bool(proof['broken'] or proof['advisory_broken'])
        import slices, monitors
        ctx = {'seed': seed, 'tier': args.tier, 'escalate': escalate, 'pid': pid}
        slice_results = []
        for name in cfg['slices']:
            r = getattr(slices, 'slice_' + name)(ctx)
            slice_results.append(r)
            log(f'[{pid}] slice {name}: {r["cases"]} cases, {len(r["disagreements"])} disagreements, '
                f'{r.get("unmodelled", 0)} unmodelled, {r["wall_s"]:.1f}s')
        corr_broken = [r for r in slice_results if r['disagreements']]
        escalate = escalate or bool(corr_broken)
        ctx['escalate'] = escalate
        ctx['disagreements'] = [d for r in corr_broken for d in r['disagreements']]
        mon_results = []
        for name in cfg['monitors']:
            if not hasattr(monitors, 'monitor_' + name):
                continue
            r = getattr(monitors, 'monitor_' + name)(ctx)
            mon_results.append(r)
            log(f'[{pid}] monitor {name}: {r["cases"]} cases, {len(r["failing"])} failing, {r["wall_s"]:.1f}s')
        # a monitor whose harness cannot drive the code any more (it reaches into the library: fake random source, VM state
        # factory, audit hook) no longer checks anything: that is a broken obligation, not a pass
        mon_broken = [r for r in mon_results if r.get('harness_errors', 0) > max(3, r['cases'] // 10)]
        for r in mon_broken:
            log(f'[{pid}] monitor {r["name"]} could not run {r["harness_errors"]} of {r["cases"]} cases: {r.get("harness_error_sample")}')
        known = load_known(pid)
        failing = [f for r in mon_results for f in r['failing']]
        # functional properties: the model IS the reference (its theorems show it has the characteristics the property
        # names), so a model/implementation difference in an observable the property prescribes is a failing input
        ref = propcfg.REFERENCE.get(pid)
        if ref:
            for r in corr_broken:
                for d in r['disagreements']:
                    if propcfg.reference_failure(ref, d):
                        failing.append({'signature': f'reference-mismatch:{r["name"]}',
                                        'what': f'the implementation answers {d["impl"][:200]!r} where the reference semantics give {d["model"][:200]!r}',
                                        'input': {'case': d['input'], 'line': d['line']}})
        new_failing, known_hit = [], {}
        for f in failing:
            k = next((e for e in known if e.get('status') == 'known' and e['signature'] == f.get('signature')), None)
            if k:
                known_hit.setdefault(k['id'], (k, f))
            else:
                new_failing.append(f)
        # known findings whose fixed witness is listed: re-run the witness
        for e in known:
            if e.get('status') == 'known' and e['id'] not in known_hit and e.get('witness'):
                w = monitors.rerun_witness(ctx, e)
                if w:
                    known_hit[e['id']] = (e, w)
        violations = 0
        lines = []
        replay_path = os.path.join(ROOT, 'evidence', 'replays', f'{pid}-{args.tier}-{seed}.json')
        if new_failing:
            violations = len(new_failing)
            with open(replay_path, 'w') as fh:
                json.dump({'property': pid, 'kind': 'failing-input', 'failing': new_failing[:20],
                           'broken_obligations': proof['broken'], 'disagreements': ctx['disagreements'][:10]}, fh, indent=1, default=str)
            lines.append(f'VIOLATION property={pid} replay={replay_path}')
        elif proof['broken'] or corr_broken or mon_broken:
            violations = 1
            with open(replay_path, 'w') as fh:
                json.dump({'property': pid, 'kind': 'no-failing-input-found',
                           'no_longer_checks': [f'{b["kind"]}:{b["name"]}' for b in proof['broken']] +
                                               [f'correspondence-slice:{r["name"]}' for r in corr_broken] +
                                               [f'monitor:{r["name"]} ({r["harness_errors"]} of {r["cases"]} cases could not be run: {r.get("harness_error_sample")})' for r in mon_broken],
                           'broken_obligations': proof['broken'],
                           'disagreements': ctx['disagreements'][:20]}, fh, indent=1, default=str)
            lines.append(f'VIOLATION property={pid} replay={replay_path} no-failing-input-found')
        for kid, (e, f) in sorted(known_hit.items()):
            log(f'KNOWN-FINDING: property={pid} {kid} {e["note"]}')
        evaluations = sum(r['cases'] for r in slice_results) + sum(r['cases'] for r in mon_results)
        distinct = sum(r.get('distinct_nontrivial', 0) for r in slice_results) + sum(r.get('distinct_nontrivial', 0) for r in mon_results)
        samples = []
        for r in slice_results + mon_results:
            samples += [{'from': r['name'], 'case': s} for s in r.get('samples', [])[:3]]
        samples += [{'from': 'proof-obligation', 'case': ob['name']} for ob in cfg['obligations'][:4]]
        evidence = {
            'property_id': pid, 'tier': args.tier, 'seed': seed, 'level': 'proof',
            'coverage': {
                'obligations': proof['obligations'], 'discharged': proof['discharged'],
                'checker_cmd': f'cd lean && lake build {" ".join(sorted({o["module"] for o in cfg["obligations"]}))} '
                               f'&& #print axioms on each theorem' + (' && lake env leanchecker' if args.tier == 'thorough' else ''),
                'trusted_base': propcfg.TRUSTED_BASE + cfg.get('trusted_extra', []),
                'theorems': [o['name'] for o in cfg['obligations']],
                'axioms_used': proof['axioms'],
                'pending_theorems': cfg.get('pending', []),
                'broken_obligations': [f'{b["kind"]}:{b["name"]}' for b in proof['broken']],
                'advisory_broken': [f'{b["kind"]}:{b["name"]}' for b in proof['advisory_broken']],
                'leanchecker': lc,
                'evaluations': evaluations, 'distinct_nontrivial': distinct,
                'rule': '; '.join(f'{r["name"]}: {r.get("rule", "")}' for r in slice_results + mon_results),
                'samples': samples,
                'programs': sum(r['cases'] for r in slice_results),
                'disagreements_checked': sum(len(r['disagreements']) for r in slice_results),
                'slices': [{k: v for k, v in r.items() if k not in ('disagreements', 'samples')} | {'disagreements': r['disagreements'][:5]} for r in slice_results],
                'monitors': [{k: v for k, v in r.items() if k not in ('failing', 'samples')} | {'failing': r['failing'][:5]} for r in mon_results],
                'known_findings_reconfirmed': sorted(known_hit),
                'explanation': cfg.get('explanation', ''),
            },
            'assumptions': cfg.get('assumptions', []),
            'wall_s': round(time.time() - t0, 2),
            'violations': violations,
        }
        with open(ev_path, 'w') as fh:
            json.dump(evidence, fh, indent=1, default=str)
        for l in lines:
            print(l, flush=True)
        log(f'[{pid}] {args.tier} seed={seed}: obligations {proof["discharged"]}/{proof["obligations"]}, '
            f'{evaluations} evaluations, violations={violations}, {time.time() - t0:.1f}s')
        sys.exit(1 if violations else 0)
    except SystemExit:
        raise
    except subprocess.TimeoutExpired as e:
        log('TIMEOUT', e)
        sys.exit(2)
    except Exception:
        traceback.print_exc()
        sys.exit(2)


if __name__ == '__main__':
    main()
