#!/usr/bin/env python3
"""Confirm a seeded change (tests pass, demo fails with it / passes without) in a scratch worktree, run the
property's check against it (applied to /repo, undone straight afterwards), and file it under /verif/seeded/."""
import json, os, shutil, subprocess, sys, time
ROOT = os.path.dirname(os.path.dirname(os.path.abspath(__file__)))
PY = '/venv/bin/python'


def sh(cmd, cwd=None, env=None, timeout=1800):
    p = subprocess.run(cmd, cwd=cwd, env=env, stdout=subprocess.PIPE, stderr=subprocess.STDOUT, text=True, timeout=timeout, shell=isinstance(cmd, str))
    return p.returncode, p.stdout


def confirm(diff, demo):
    wt = '/tmp/sv_wt'
    sh(f'git -C /repo worktree remove --force {wt}')
    shutil.rmtree(wt, ignore_errors=True)
    rc, out = sh(f'git -C /repo worktree add --detach {wt} HEAD')
    assert rc == 0, out
    env = dict(os.environ, PYTHONPATH=wt)
    res = {}
    try:
        rc, out = sh([PY, demo], cwd=wt, env=env)
        res['demo_clean_rc'] = rc
        rc, out = sh(['git', 'apply', diff], cwd=wt)
        res['apply_rc'] = rc
        rc, out = sh([PY, '-m', 'pytest', '-q', '-p', 'no:cacheprovider', '-x'], cwd=wt, env=env)
        res['tests_rc'] = rc
        res['tests_tail'] = out.strip().split('\n')[-1]
        sh('git checkout -- smartquery/gen', cwd=wt)
        rc, out = sh([PY, demo], cwd=wt, env=env)
        res['demo_mutant_rc'] = rc
        res['demo_mutant_tail'] = out.strip()[-300:]
    finally:
        sh(f'git -C /repo worktree remove --force {wt}')
        shutil.rmtree(wt, ignore_errors=True)
    res['confirmed'] = res.get('demo_clean_rc') == 0 and res.get('apply_rc') == 0 and res.get('tests_rc') == 0 and res.get('demo_mutant_rc', 0) != 0
    return res


def run_check(diff, pid, tier='quick', seed=1):
    assert sh('git -C /repo status --porcelain')[1].strip() == '', 'repo not clean'
    rc, out = sh(['git', '-C', '/repo', 'apply', diff])
    assert rc == 0, out
    # the evidence file of the property describes the UNCHANGED tree: keep it aside while the change is applied
    ev = os.path.join(ROOT, 'evidence', f'{pid}.json')
    keep = open(ev).read() if os.path.exists(ev) else None
    try:
        t0 = time.time()
        rc, out = sh([PY, 'tools/check.py', pid, '--tier', tier], cwd=ROOT, env=dict(os.environ, VERIF_SEED=str(seed)), timeout=3000)
        return {'rc': rc, 'wall_s': round(time.time() - t0, 1), 'tail': out.strip().split('\n')[-6:],
                'violation_line': next((l for l in out.split('\n') if l.startswith('VIOLATION')), None)}
    finally:
        sh('git -C /repo checkout -- .')
        sh('git -C /repo clean -fdq smartquery')
        if keep is not None:
            open(ev, 'w').write(keep)


def main():
    pid, name = sys.argv[1], sys.argv[2]
    src = f'/tmp/seed/{pid}/out'
    diff, demo, meta = f'{src}/{name}.diff', f'{src}/{name}_demo.py', f'{src}/{name}.json'
    for base in ('/tmp/seed_out', '/tmp/seed_out3', '/tmp/seed_out4', '/tmp/seed_out5', '/tmp/seed_out6', '/tmp/seed_out7', '/tmp/seed_out8'):          # later rounds: one directory per change
        alt = f'{base}/{pid}_{name}'
        if os.path.isdir(alt):
            diff, demo, meta = f'{alt}/patch.diff', f'{alt}/demo.py', f'{alt}/meta.json'
    dst = os.path.join(ROOT, 'seeded', f'{pid}_{name}')
    conf = confirm(diff, demo)
    out = {'property': pid, 'name': name, 'confirmation': conf}
    if conf['confirmed']:
        also = sys.argv[3:] or []
        out['check'] = {pid: run_check(diff, pid)}
        for other in also:
            out['check'][other] = run_check(diff, other)
        os.makedirs(dst, exist_ok=True)
        shutil.copy(diff, os.path.join(dst, 'patch.diff'))
        shutil.copy(demo, os.path.join(dst, 'demo.py'))
        m = json.load(open(meta)) if os.path.exists(meta) else {}
        m.update({'breaks_property': pid, 'what_was_run': f'confirmed in a scratch worktree (tests pass, demo exits non-zero with the patch, 0 without); '
                  f'then `git -C /repo apply` + `tools/check.py {pid} --tier quick` + `git checkout -- .`',
                  'confirmation': conf, 'check_results': out['check']})
        json.dump(m, open(os.path.join(dst, 'meta.json'), 'w'), indent=1)
    print(json.dumps(out, indent=1))


if __name__ == '__main__':
    main()
