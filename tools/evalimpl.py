"""Implementation side of the EVAL protocol command (DESIGN.md §3.2-3.4): run SqParser.eval on the real
code with the harness' host functions, a deterministic stand-in for `random`, a recording proxy for
`regex`, and render outcome / names-after / ops / log in the canonical aliasing-aware form."""
import decimal, sys
import sqimpl
from sqimpl import hx, unhx


# ---------------------------------------------------------------- S-expressions
def sread(s):
    toks = s.replace('(', ' ( ').replace(')', ' ) ').split()
    stack = [[]]
    for t in toks:
        if t == '(':
            stack.append([])
        elif t == ')':
            x = stack.pop()
            stack[-1].append(x)
        else:
            stack[-1].append(t)
    assert len(stack) == 1, 'unbalanced'
    return stack[0]


def field(es, name, default=None):
    for e in es:
        if isinstance(e, list) and e and e[0] == name:
            return e[1:]
    return default


# ---------------------------------------------------------------- deterministic random
def set_random(ns, v):
    """swap the `random` module object the builtins use (a change of the library may have removed it: then leave things alone)"""
    if v is not None and hasattr(ns.functions, 'random'):
        ns.functions.random = v


class FakeRandom:
    """same LCG as Sq.lcgNext in the model"""

    def __init__(self, seed):
        self.x = seed

    def _next(self):
        self.x = (self.x * 6364136223846793005 + 1442695040888963407) % 2 ** 64
        return self.x

    def random(self):
        return (self._next() >> 11) / 2 ** 53

    def randint(self, a, b):
        if not isinstance(a, int) or not isinstance(b, int):
            raise TypeError('randint needs ints')
        if a > b:
            raise ValueError('empty range')
        return a + (self._next() >> 33) % (b - a + 1)

    def choice(self, seq):
        if not len(seq):
            raise IndexError('Cannot choose from an empty sequence')
        return seq[(self._next() >> 33) % len(seq)]

    def shuffle(self, x):
        for i in reversed(range(1, len(x))):
            j = (self._next() >> 33) % (i + 1)
            x[i], x[j] = x[j], x[i]


class RxRecorder:
    """proxy for the `regex` module: forwards to the real engine and records its answers"""

    def __init__(self, real):
        self._real = real
        self.I, self.M, self.S = real.I, real.M, real.S
        self.answers = []
        self.calls = []

    def search(self, pattern, s, flags=0, timeout=None, **kw):
        self.calls.append(('search', pattern, s, int(flags), timeout, kw))
        try:
            m = self._real.search(pattern, s, flags=flags, timeout=timeout, **kw)
        except Exception as e:
            self.answers.append(('raised', type(e).__name__))
            raise
        self.answers.append(('none',) if m is None else ('m', m.group(0), m.groups()))
        return m

    def __getattr__(self, k):
        # anything else of the engine module a changed library may use (sub, escape, compile, fullmatch, ...): the real thing;
        # the call is noted so that the correspondence sees that the engine was used in a way the model does not know
        if k.startswith('_'):
            raise AttributeError(k)
        self.calls.append(('other:' + k,))
        return getattr(self._real, k)

    def findall(self, pattern, s, flags=0, timeout=None, **kw):
        self.calls.append(('findall', pattern, s, int(flags), timeout, kw))
        try:
            r = self._real.findall(pattern, s, flags=flags, timeout=timeout, **kw)
        except Exception as e:
            self.answers.append(('raised', type(e).__name__))
            raise
        self.answers.append(('all', list(r)))
        return r


# ---------------------------------------------------------------- values
class Host:
    """host functions of DESIGN.md §3.3, bound to one evaluation's log and probe table"""

    def __init__(self, probes):
        self.log = []
        self.probes = probes
        h = self

        def probe(*a):
            if len(a) != 1:
                raise TypeError('probe takes one argument')
            h.log.append(('p', a[0]))
            key = None
            x = a[0]
            if isinstance(x, decimal.Decimal):
                if x == x.to_integral_value():
                    key = int(x)
            elif isinstance(x, int) and not isinstance(x, bool):
                key = x
            act = h.probes.get(key) if key is not None else None
            if act is None:
                return x
            if act[0] == 'ret':
                return act[1]
            raise act[1]

        def apply(*a):
            if not a:
                raise TypeError('apply needs a function')
            return a[0](*a[1:])

        def try_apply(*a):
            if not a:
                raise TypeError('try_apply needs a function')
            try:
                return a[0](*a[1:])
            except Exception as e:
                h.log.append(('c', h.classify(e)))
                return None
        self.fns = {'probe': probe, 'apply': apply, 'try_apply': try_apply}
        self.ids = {id(v): k for k, v in self.fns.items()}
        self.classify = lambda e: type(e).__name__


def make_exc(ns, cls):
    if cls == 'parser':
        return ns.exc.ParserError('host')
    return {'ValueError': ValueError, 'TypeError': TypeError, 'KeyError': KeyError, 'IndexError': IndexError,
            'AttributeError': AttributeError, 'ZeroDivisionError': ZeroDivisionError}[cls]('host')


class Reader:
    """canonical value syntax -> Python objects (shared objects by number)"""

    def __init__(self, ns, host):
        self.ns, self.host, self.objs = ns, host, {}

    def val(self, e):
        ns = self.ns
        if isinstance(e, str):
            if e == 'N':
                return None
            if e == 'T':
                return True
            if e == 'F':
                return False
            k, _, r = e.partition(':')
            if k == 'D':
                sg, c, ex, kind = r.split(':')
                t = (int(sg), tuple(int(ch) for ch in c), int(ex))
                return ns.ct.Decimal(t) if kind == 'c' else decimal.Decimal(t)
            if k == 'I':
                return int(r)
            if k == 'S':
                return unhx(r)
            if k == 'B':
                return ns.functions.FUNCTIONS[r]
            if k == 'H':
                return self.host.fns[r]
            if k == 'FL':
                return float.fromhex(r)
            raise ValueError('bad atom ' + e)
        tag = e[0]
        if tag == 'U':
            return tuple(self.val(x) for x in e[1:])
        if tag == 'SL':
            f = lambda a: None if a == 'N' else int(a[2:])
            return slice(f(e[1]), f(e[2]), f(e[3]))
        if tag == 'R':
            return self.objs[int(e[1])]
        if tag == 'L':
            l = []
            self.objs[int(e[1])] = l
            for x in e[2:]:
                l.append(self.val(x))
            return l
        if tag == 'M':
            d = {}
            self.objs[int(e[1])] = d
            for k, v in e[2:]:
                kk = self.val(k)
                d[kk] = self.val(v)
            return d
        raise ValueError('bad value ' + str(e))


class Writer:
    def __init__(self, ns, host):
        self.ns, self.host = ns, host
        self.seen = {}
        self.keep = []
        self.fn_ids = {id(v): k for k, v in ns.functions.FUNCTIONS.items()}

    def val(self, v):
        ns = self.ns
        if v is None:
            return 'N'
        if v is True:
            return 'T'
        if v is False:
            return 'F'
        t = type(v)
        if isinstance(v, decimal.Decimal):
            return sqimpl.dec_repr(v, isinstance(v, ns.ct.Decimal))
        if t is int:
            return 'I:' + str(v)
        if t is str:
            return 'S:' + hx(v)
        if t is tuple:
            return '(U' + ''.join(' ' + self.val(x) for x in v) + ')'
        if t is slice:
            f = lambda a: 'N' if a is None else ('I:' + str(a) if type(a) is int else 'O:' + type(a).__name__)
            return f'(SL {f(v.start)} {f(v.stop)} {f(v.step)})'
        if t is list or t is dict:
            i = self.seen.get(id(v))
            if i is not None:
                return f'(R {i})'
            i = len(self.seen)
            self.seen[id(v)] = i
            self.keep.append(v)
            if t is list:
                return f'(L {i}' + ''.join(' ' + self.val(x) for x in v) + ')'
            return f'(M {i}' + ''.join(' (' + self.val(k) + ' ' + self.val(x) + ')' for k, x in v.items()) + ')'
        if id(v) in self.host.ids:
            return 'H:' + self.host.ids[id(v)]
        if id(v) in self.fn_ids:
            return 'B:' + self.fn_ids[id(v)]
        if getattr(v, '__qualname__', '') == 'LambdaOp.eval.<locals>.f':
            return 'C'
        return 'O:' + t.__name__


def rx_extra(answers):
    out = []
    w = lambda v: 'N' if v is None else ('S:' + hx(v) if isinstance(v, str) else
                                        '(U' + ''.join(' ' + ('N' if x is None else 'S:' + hx(x)) for x in v) + ')')
    for a in answers:
        if a[0] == 'none':
            out.append('none')
        elif a[0] == 'raised':
            out.append(f'(raised {a[1]})')
        elif a[0] == 'm':
            out.append('(m ' + w(a[1]) + ''.join(' ' + w(g) for g in a[2]) + ')')
        else:
            out.append('(all' + ''.join(' ' + w(x) for x in a[1]) + ')')
    return '(rx ' + ' '.join(out) + ')'


def run_eval(im, es, observe=None):
    """returns (answer_line, extras, info) ; info carries raw objects for monitors"""
    ns = im.ns
    src = unhx(field(es, 'src')[0])
    budget = field(es, 'budget', [None])[0]
    rng = int(field(es, 'rng', ['1'])[0])
    probes_spec = field(es, 'probes', [])
    host = Host({})
    rd = Reader(ns, host)
    names = rd.val(field(es, 'names')[0])
    for p in probes_spec:
        if p[1] == 'raise':
            host.probes[int(p[0])] = ('raise', make_exc(ns, p[2]))
        else:
            host.probes[int(p[0])] = ('ret', rd.val(p[2]))
    host.classify = im.classify
    # `(primed a|b)`: the parser retains its trees for this case (parse_cache = {}) and evaluates the SAME text once before,
    # for another names mapping (a: an equal copy, b: every data value replaced by the number 2, c: without the entries that rebind builtin names), with its own host log and
    # random stream.  The answer compared with the model is the SECOND evaluation's: whatever a node, a table at module level or
    # the parser remembers about the first evaluation must not show (the model evaluates the text once, from nothing).
    primed = field(es, 'primed')
    if primed:
        im.p.parse_cache = {}
        try:
            ph = Host({})
            ph.classify = im.classify
            pn = Reader(ns, ph).val(field(es, 'names')[0])
            for q in probes_spec:
                ph.probes[int(q[0])] = ('raise', make_exc(ns, q[2])) if q[1] == 'raise' else ('ret', Reader(ns, ph).val(q[2]))
            if primed[0] == 'b' and isinstance(pn, dict):
                for k in list(pn):
                    if not callable(pn[k]):
                        pn[k] = decimal.Decimal(2)
            if primed[0] == 'c' and isinstance(pn, dict):
                # the first evaluation sees the BUILTINS where the real mapping rebinds their names
                for k in list(pn):
                    if k in ns.functions.FUNCTIONS:
                        del pn[k]
            rr = getattr(ns.functions, 'random', None)
            set_random(ns, FakeRandom(rng))
            try:
                kw0 = {} if budget is None or budget == 'default' else {'max_ops_evaluated': int(budget)}
                im.p.eval(src, pn, **kw0)
            except RecursionError:
                pass
            except Exception:
                pass
            finally:
                set_random(ns, rr)
        except Exception:
            pass
    try:
        return _run_eval_body(im, es, ns, src, budget, rng, host, rd, names)
    finally:
        if primed:
            im.p.parse_cache = None


def _run_eval_body(im, es, ns, src, budget, rng, host, rd, names):
    # the implementation's own parse tree (eval parses expr.rstrip())
    try:
        t = im.p.parse(src.rstrip())
    except ns.exc.ParserError as e:
        return 'parse-error', '', None
    except RecursionError:
        return 'X RecursionError', '', None
    tree = sqimpl.tree(ns, t) if t is not None else '(none)'
    # ast_names: (astfns (hexname (params hex...) hexbodysrc)...) -> LambdaOp(args, expr=parse(body))
    ast_names, ast_extra = None, ''
    spec = field(es, 'astfns')
    if spec:
        ast_names, parts = {}, []
        for nm, params, body in spec:
            try:
                bt = im.p.parse(unhx(body))
            except ns.exc.ParserError:
                return 'parse-error', '', None
            lam = ns.ast_ops.LambdaOp(args=[ns.ast_ops.NameOp(unhx(q)) for q in params[1:]], expr=bt)
            ast_names[unhx(nm)] = lam
            parts.append(f'({nm} {sqimpl.tree(ns, lam)})')
        ast_extra = ' (astnames ' + ' '.join(parts) + ')'
    fake = FakeRandom(rng)
    real_random, real_regex = getattr(ns.functions, 'random', None), getattr(ns.functions, 'regex', None)
    rx = RxRecorder(real_regex if not isinstance(real_regex, RxRecorder) else real_regex._real)
    states = []
    VM = ns.vs.VMState

    def vm_factory(*a, **k):
        s = VM(*a, **k)
        states.append(s)
        return s
    set_random(ns, fake); ns.functions.regex = rx
    ns.sp.VMState = vm_factory
    info = {'host': host, 'names': names, 'rx': rx, 'states': states}
    try:
        kw = {} if budget is None or budget == 'default' else {'max_ops_evaluated': int(budget)}
        try:
            if ast_names is not None:
                kw['ast_names'] = ast_names
            res = im.p.eval(src, names, **kw)
            out = None
        except RecursionError:
            return 'X RecursionError', '', info
        except Exception as e:
            res, out = None, 'err ' + im.classify(e)
            info['exc'] = e
    finally:
        set_random(ns, real_random)
        if real_regex is not None:
            ns.functions.regex = real_regex
        elif hasattr(ns.functions, 'regex'):
            del ns.functions.regex
        ns.sp.VMState = VM
    info['result'] = res
    w = Writer(ns, host)
    if out is None:
        out = 'ok ' + w.val(res)
    nm = w.val(names)
    lg = ''.join(' (p ' + w.val(a) + ')' if k == 'p' else f' (c {a})' for k, a in host.log)
    ops = states[0].ops_evaluated if states else 0
    line = f'{out} ;; names {nm} ;; ops {ops} ;; log{lg}'
    return line, f'(tree {tree}) {rx_extra(rx.answers)}{ast_extra}', info


def answer(im, cmd, rest):
    es = sread(rest)
    if cmd == 'EVAL':
        line, extra, _ = run_eval(im, es)
        return line + '\t' + extra
    return 'bad-op'


# ---------------------------------------------------------------- sessions (C11 / C17)
class LRU2:
    """bounded LRU mapping of size 2 (most recent last; a hit moves the entry to the end)"""

    def __init__(self, n=2):
        self.n, self.d = n, {}

    def __contains__(self, k):
        return k in self.d

    def __getitem__(self, k):
        v = self.d.pop(k)
        self.d[k] = v
        return v

    def __setitem__(self, k, v):
        if k in self.d:
            self.d[k] = v
        else:
            self.d[k] = v
            while len(self.d) > self.n:
                del self.d[next(iter(self.d))]


class Evict:
    """always-evicting mapping: forgets everything at once"""

    def __contains__(self, k):
        return False

    def __getitem__(self, k):
        raise KeyError(k)

    def __setitem__(self, k, v):
        pass


class ReadThrough(dict):
    """a dict subclass whose `[]` consults a (here: empty) backing store for absent keys and hands back its answer:
    `k in cache` is False, `cache[k]` is None"""

    def __missing__(self, k):
        return None


def _ddict():
    import collections
    return collections.defaultdict(lambda: None)


def make_cache(kind):
    return {'none': lambda: None, 'dict': dict, 'lru2': LRU2, 'evict': Evict, 'ddict': _ddict, 'readthrough': ReadThrough}[kind]()


_fresh_table = {}


def fresh_parse(ns, text):
    """what a freshly constructed SqParser answers for parse(text): ('ok', tree) | ('err', cls, msg)"""
    r = _fresh_table.get(text)
    if r is None:
        im = sqimpl.Impl(ns)
        try:
            t = im.p.parse(text)
            r = ('ok', sqimpl.tree(ns, t))
        except ns.exc.ParserError as e:
            m = str(e)
            r = ('err', 'lex' if m.startswith('Illegal character') else 'res' if m.endswith('is reserved keyword') else 'syn', m)
        except Exception as e:
            r = ('err', 'X' + type(e).__name__, str(e))
        _fresh_table[text] = r
    return r


def run_session(im0, es, observe=None):
    ns = im0.ns
    kind = field(es, 'cache')[0]
    cache = make_cache(kind)
    im = sqimpl.Impl(ns, parse_cache=cache)
    host = Host({})
    host.classify = im.classify
    rd = Reader(ns, host)
    maps = rd.val(field(es, 'heap')[0])
    outs, texts = [], []
    VM = ns.vs.VMState
    real_random = getattr(ns.functions, 'random', None)
    for c in field(es, 'calls'):
        kindc = c[0]
        if kindc == 'parse':
            src = unhx(c[1])
            texts.append(src)
            try:
                t = im.p.parse(src)
                outs.append('ok ' + sqimpl.tree(ns, t))
            except ns.exc.ParserError as e:
                outs.append('err parser ' + hx(str(e)))
            except Exception as e:
                outs.append('X ' + type(e).__name__)
        elif kindc == 'names':
            src = unhx(c[1])
            lim = None if c[2] == 'all' else int(c[2])
            got, tail = [], ''
            try:
                it = im.p.list_names(src)
                for n in it:
                    if lim is not None and len(got) >= lim:
                        break          # abandoned midway
                    got.append(hx(n))
            except ns.exc.ParserError as e:
                tail = ' err parser ' + hx(str(e))
            except Exception as e:
                tail = ' X ' + type(e).__name__
            outs.append('names ' + ' '.join(got) + tail)
        elif kindc == 'eval':
            src = unhx(c[1])
            texts.append(src.rstrip())
            names = None if c[2] == 'none' else maps[int(c[2])]
            states = []

            def vm_factory(*a, **k):
                s = VM(*a, **k)
                states.append(s)
                return s
            ns.sp.VMState = vm_factory
            set_random(ns, FakeRandom(int(c[4])))
            kw = {} if c[3] == 'default' else {'max_ops_evaluated': int(c[3])}
            w = Writer(ns, host)
            try:
                try:
                    res = im.p.eval(src, names, **kw) if names is not None else im.p.eval(src, **kw)
                    hd = 'ok ' + w.val(res)
                except RecursionError:
                    outs.append('X RecursionError')
                    break
                except ns.exc.ParserError as e:
                    hd = ('err parser ' + hx(str(e))) if not states else 'err ' + im.classify(e)
                except Exception as e:
                    hd = 'err ' + im.classify(e)
            finally:
                ns.sp.VMState = VM
                set_random(ns, real_random)
            outs.append(f'{hd} ;; names {w.val(names) if names is not None else "-"} ;; ops {states[0].ops_evaluated if states else 0}')
        elif kindc == 'hostpush':
            names = maps[int(c[1])]
            tgt = names.get(unhx(c[2]))
            if type(tgt) is list:
                tgt.append(Reader(ns, host).val(c[3]))
                outs.append('host ok')
            else:
                outs.append('host skip')
        else:
            outs.append('bad-call')
    return ' || '.join(outs), ''


def fresh_entry(ns, t):
    r = fresh_parse(ns, t)
    return f'({hx(t)} ok {r[1]})' if r[0] == 'ok' else f'({hx(t)} err {r[1]} {hx(r[2])})'


_answer_eval = answer


def answer(im, cmd, rest):
    if cmd == 'SESSION':
        line, extra = run_session(im, sread(rest))
        return line
    if cmd == 'FRESH':
        return fresh_entry(im.ns, unhx(rest))
    return _answer_eval(im, cmd, rest)
