#!/usr/bin/env python3
"""`tools/check.py Cxx --replay <file>`: re-run what a replay file recorded against the CURRENT tree.

A replay file (evidence/replays/<id>-<tier>-<seed>.json, written by check.py next to a VIOLATION line) holds
  * `failing`: inputs on which a model-free monitor saw the property fail, or on which the implementation disagrees with the
    reference semantics (`reference-mismatch:*`, the protocol line is under input.line);
  * `disagreements`: protocol lines on which implementation and model answered differently;
  * `broken_obligations`: theorems / ties that no longer checked (module + name).
Each is run again: the protocol lines through implementation and model driver, the monitor payloads through the monitor
that produced them, the broken obligations through `lake build` of their module.  Exit 1 with a VIOLATION line when
anything still reproduces, exit 0 when nothing does (the tree no longer shows the failure)."""
import json, os, sys
HERE = os.path.dirname(os.path.abspath(__file__))
ROOT = os.path.dirname(HERE)
LEAN = os.path.join(ROOT, 'lean')


def log(*a):
    print(*a, flush=True)


def run(pid, path):
    import corr, propcfg, check
    rep = json.load(open(path))
    if rep.get('property') not in (None, pid):
        log(f'replay file is for {rep.get("property")}, not {pid}')
        return 2
    # the model and the driver must exist (and the generated tables must be those of the current tree)
    cfg = propcfg.PROPS[pid]
    cfg['id'] = pid
    with check.Lock(os.path.join(LEAN, '.lake-lock')):
        rc, out = check.sh([check.PY, os.path.join(HERE, 'extract.py')], cwd=ROOT)
        rc2, out2 = check.sh(['lake', 'build', 'Sq', 'sqdrv'], cwd=LEAN)
        if rc2 != 0:
            log('model does not build:\n' + out2[-1500:])
            return 2
        still_broken = []
        for b in rep.get('broken_obligations', []):
            mod = b.get('module')
            if not mod:
                continue
            rc3, out3 = check.sh(['lake', 'build', mod], cwd=LEAN)
            log(f'obligation {b.get("kind")}:{b.get("name")} ({mod}): ' + ('still does not check' if rc3 != 0 else 'checks again'))
            if rc3 != 0:
                still_broken.append(f'{b.get("kind")}:{b.get("name")}')
    reproduced, tried, skipped = 0, 0, 0
    # protocol lines: disagreements + reference mismatches
    lines, seen = [], set()
    for d in rep.get('disagreements', []):
        if d.get('line'):
            lines.append((d['line'], d.get('input', '')))
    for f in rep.get('failing', []):
        inp = f.get('input')
        if isinstance(inp, dict) and isinstance(inp.get('line'), str) and str(f.get('signature', '')).startswith('reference-mismatch'):
            lines.append((inp['line'], inp.get('case', '')))
    uniq = []
    for l, d in lines:
        if l in seen:
            continue
        seen.add(l)
        if len(l) >= 20000:
            skipped += 1        # truncated when it was recorded
            continue
        uniq.append((l, d))
    if uniq:
        io, mo, diffs, dt = corr.compare([l for l, _ in uniq])
        ref = propcfg.REFERENCE.get(pid)
        for i, (l, d) in enumerate(uniq):
            tried += 1
            if i in diffs:
                reproduced += 1
                kind = 'failing input (reference semantics)' if ref and propcfg.reference_failure(ref, {'impl': io[i], 'model': mo[i]}) else 'disagreement'
                log(f'REPRODUCED {kind}: {str(d)[:300]!r}\n    implementation: {io[i][:300]}\n    model:          {mo[i][:300]}')
            else:
                log(f'no longer differs: {str(d)[:200]!r}')
    # monitor payloads
    for f in rep.get('failing', []):
        if str(f.get('signature', '')).startswith('reference-mismatch'):
            continue
        mon, inp = f.get('monitor'), f.get('input')
        line = None
        if mon and isinstance(inp, dict):
            line = f'MON {mon} ' + json.dumps(inp)
        elif isinstance(inp, str) and inp.startswith('MON ') and len(inp) < 400:
            line = inp
        if line is None:
            skipped += 1
            log(f'cannot re-run this entry on its own (signature {f.get("signature")}): {str(f.get("what"))[:200]}')
            continue
        tried += 1
        out = corr.run_impl([line])[0]
        try:
            r = json.loads(out)
            fails = r.get('fail', [])
        except Exception:
            fails = [{'signature': 'harness', 'what': out[:300]}] if out.startswith('X ') else []
            if not fails:
                skipped += 1
                log(f'the recorded input is not a complete payload of monitor {mon} (signature {f.get("signature")}); re-run the check instead')
                continue
        if fails:
            reproduced += 1
            log(f'REPRODUCED monitor {mon}: {fails[0].get("signature")}: {str(fails[0].get("what"))[:400]}')
        else:
            log(f'no longer fails: monitor {mon}, signature {f.get("signature")}')
    log(f'replay of {os.path.basename(path)}: {tried} inputs re-run, {reproduced} reproduced, {skipped} not replayable on their own, '
        f'{len(still_broken)} obligations still broken')
    if reproduced or still_broken:
        print(f'VIOLATION property={pid} replay={path}' + ('' if reproduced else ' no-failing-input-found'), flush=True)
        return 1
    return 0
