"""Seeded generators for the correspondence slices and monitors (DESIGN.md §3.2).
Every random choice comes from random.Random(f"{seed}/{slice}/{i}")."""
import itertools, random

# ---- G-tok: token alphabet (texts); rendered with single blanks
TOK_ALPHABET = ['a', 'b', '1', '"s"', '+', '-', '*', '**', '/', '==', '<', '>=', '=', '+=', '=>', ',', '.', '|',
                ':', '(', ')', '[', ']', '{', '}', ';', '\n', 'and', 'or', 'in', 'not', 'if', 'else',
                'True', 'None', 'del', 'for', 'elif', '!=', '*=']


def tok_strings(maxlen):
    for n in range(0, maxlen + 1):
        for tup in itertools.product(TOK_ALPHABET, repeat=n):
            yield ' '.join(tup)


def tok_strings_sample(rng, n, lo, hi):
    for _ in range(n):
        k = rng.randint(lo, hi)
        yield ' '.join(rng.choice(TOK_ALPHABET) for _ in range(k))


# ---- grammar-directed random sentences (token lists)
NAMES = ['a', 'b', 'c', 'f', 'g', 'x', '%m n%', 'len', 'map']
BINOPS = ['+', '-', '*', '**', '/', '==', '!=', '>', '<', '>=', '<=', 'in', 'not in', 'and', 'or']


class SentenceGen:
    def __init__(self, rng, maxdepth=6):
        self.r = rng
        self.maxdepth = maxdepth

    def atom(self):
        r = self.r
        k = r.randrange(8)
        if k == 0:
            return [r.choice(['0', '1', '2', '10', '3.5', '007', '12.50'])]
        if k == 1:
            return [r.choice(['"s"', "'t'", '""', 'r"\\n"', '"a b"', '"("', '")"', '"[x"', '"hi :)"', '"# {"', "'}'"])]
        if k == 2:
            return [r.choice(['True', 'False', 'None'])]
        return [r.choice(NAMES)]

    def args(self, d, lo=1, hi=3):
        out = []
        n = self.r.randint(lo, hi)
        for i in range(n):
            if i:
                out.append(',')
            out += self.expr(d + 1)
        if n and self.r.random() < 0.2:
            out.append(',')
        return out

    def expr(self, d=0):
        r = self.r
        if d >= self.maxdepth or r.random() < 0.25:
            return self.atom()
        k = r.randrange(17)
        if k <= 3:
            return self.expr(d + 1) + r.choice(BINOPS).split(' ') + self.expr(d + 1)
        if k == 4:
            return [r.choice(['-', 'not'])] + self.expr(d + 1)
        if k == 5:
            return ['('] + self.expr(d + 1) + [')']
        if k == 6:
            return [r.choice(NAMES), '('] + (self.args(d, 0, 3)) + [')']
        if k == 7:
            return self.expr(d + 1) + ['.', r.choice(NAMES), '('] + self.args(d, 0, 2) + [')']
        if k == 8:
            if r.random() < 0.5:
                return self.expr(d + 1) + ['|', r.choice(NAMES)]
            return self.expr(d + 1) + ['|', r.choice(NAMES), '('] + self.args(d, 1, 2) + [')']
        if k == 9:
            return self.expr(d + 1) + ['['] + self.subscript(d) + [']']
        if k == 10:
            return ['['] + self.args(d, 0, 3) + [']']
        if k == 11:
            n = r.randint(0, 3)
            out = ['{']
            for i in range(n):
                if i:
                    out.append(',')
                out += self.expr(d + 1) + [':'] + self.expr(d + 1)
            if n and r.random() < 0.3:
                out.append(',')
            return out + ['}']
        if k == 12:
            return self.expr(d + 1) + ['if'] + self.expr(d + 1) + ['else'] + self.expr(d + 1)
        if k == 13:
            if r.random() < 0.5:
                return [r.choice(NAMES), '=>'] + self.expr(d + 1)
            n = r.randint(2, 3)
            ps = []
            for i in range(n):
                if i:
                    ps.append(',')
                ps.append(r.choice(NAMES))
            return ['('] + ps + [')', '=>'] + self.expr(d + 1)
        if k == 14:
            return [r.choice(['for', 'while', 'elif', 'break', 'continue', 'def', 'raise'])] if r.random() < 0.1 else self.atom()
        return self.atom()

    def subscript(self, d):
        r = self.r
        k = r.randrange(9)
        e = lambda: self.expr(d + 1)
        return [e(), [':'], e() + [':'] + e(), e() + [':'], [':'] + e(), e() + [':', ':'], [':'] + e() + [':'],
                [':', ':'] + e(), e()][k]

    def statement(self):
        r = self.r
        k = r.randrange(10)
        if k == 0:
            return [r.choice(NAMES), '='] + self.expr()
        if k == 1:
            return [r.choice(NAMES), r.choice(['+=', '-=', '*=', '/='])] + self.expr()
        if k == 2:
            return ['del'] + self.expr(2) + ['['] + self.expr(2) + [']']
        if k == 3:
            return self.expr(2) + ['['] + self.expr(2) + [']', '='] + self.expr()
        if k == 4:
            return self.expr(2) + ['['] + self.expr(2) + [']', r.choice(['+=', '-=', '*=', '/='])] + self.expr()
        if k == 5:
            return []
        return self.expr()

    def program(self):
        n = self.r.choice([1, 1, 1, 2, 3, 4])
        out = []
        for i in range(n):
            if i:
                out.append(self.r.choice([';', '\n', '\n', '\r\n']))
            out += self.statement()
        return out


def render(tokens, rng=None):
    """join tokens; with rng, vary the blanks (always at least what keeps tokens apart)"""
    if rng is None:
        return ' '.join(tokens)
    out = []
    for t in tokens:
        out.append(t)
        out.append(rng.choice([' ', ' ', '  ', '\t', ' \t ']))
    return ''.join(out)


MUT_TOKENS = TOK_ALPHABET + ['while', 'False', "'t'", '3.5', '%m n%', '/=', '<=', '>']


def mutations(rng, tokens, k):
    """k random one-token deletions / insertions / replacements"""
    out = []
    for _ in range(k):
        t = list(tokens)
        m = rng.randrange(3)
        if m == 0 and t:
            del t[rng.randrange(len(t))]
        elif m == 1:
            t.insert(rng.randint(0, len(t)), rng.choice(MUT_TOKENS))
        elif t:
            t[rng.randrange(len(t))] = rng.choice(MUT_TOKENS)
        out.append(t)
    return out


# ---- G-lex: character level
LEX_ALPHABET = ['a', 'r', 'n', '_', '1', '0', '.', ' ', '\n', '\r', ';', '"', "'", '\\', '%', '#', '(', ']', '=', '*',
                '>', '-', '!', 'ж', '٣', '\t', '/', '+']


def char_strings(maxlen):
    for n in range(0, maxlen + 1):
        for tup in itertools.product(LEX_ALPHABET, repeat=n):
            yield ''.join(tup)


def char_strings_sample(rng, n, lo, hi):
    for _ in range(n):
        k = rng.randint(lo, hi)
        yield ''.join(rng.choice(LEX_ALPHABET) for _ in range(k))
