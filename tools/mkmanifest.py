#!/usr/bin/env python3
"""Rewrite the per-check level texts of MANIFEST.json from the table below (what is proved / tied / searched NOW);
everything else in the manifest is kept.  Run after the theorem inventory changes."""
import json, os
ROOT = os.path.dirname(os.path.dirname(os.path.abspath(__file__)))
TB = ('Trusted base: Lean kernel (+leanchecker in thorough), axioms ⊆ {propext, Classical.choice, Quot.sound}, translator tools/extract.py, '
      'correspondence tools, CPython/PLY/regex modelled not verified (DESIGN.md section 7).')
L = {
 'C01': ('Theorems on the CEK machine: charge_first / charge_then_enter, budget_mono (lock-step monotonicity in N), ops_counted (counter = number of node '
         'evaluations over whole runs), log_only_grows / aborted_prefix (effects of an aborted run are a prefix). Ties: default budgets, advisory shape ties. '
         'Correspondence: programs re-run at budgets around their need; monitors count node evaluations model-free.',
         'session-level statement for histories with closures crossing evals is finding D9.'),
 'C02': ('Theorems: every one of the 42 builtins and every machine transition keeps configurations of plain data plain (plain_data_is_closed_under_steps, '
         'plain_data_along_runs; side condition D15). Critical ties: FUNCTIONS key set, capability-based import / external-call whitelist, grammar. '
         'Correspondence: builtin x argument-shape matrix; monitors: deep type walk, audit hook, first-use audit in a pristine interpreter.',
         'the I/O half rests on the whitelist tie + audit monitors, not on a theorem about CPython.'),
 'C03': ('Theorems: every element-adding operation at 10000 elements -> ParserError and no state change; push grows by exactly one; conversely a successful push / insert had room (push_success_shape, insert_success_shape) and leaves every object within max(cap, length before) (push_insert_keep_cap), setitem_success_within_cap; slice_selects_at_most_length / slice_read_no_longer_than_source (any slice, any bounds and step, returns at most the source length); concat_doubles (D10). '
         'Tie: MAX_ARRAY_SIZE. Correspondence: container op sequences around the cap; monitor: every adder form incl. multi-step targets on full containers.',
         'global bound is false as stated (findings D10, D11, D18).'),
 'C04': ('Theorems: fix_digits, mul_is_decimal, pow_is_decimal, dec_ops_fix_digits, sub_div_digits, min/max return an argument, abs <= 28, sum_of_decimals_digits, round_digits_arg; D12/D13 witnesses. '
         'Correspondence: numeric slice over host ints/bools/Decimals; monitor: digit count of every arithmetic node and numeric builtin.',
         'inexact Decimal ** is an explicit `unmodelled` outcome; findings D12, D13, D16.'),
 'C05': ('PARTIAL. Theorems: every engine request of match/match_groups/match_all carries timeout = 50000 us; one engine call per builtin call. Critical tie: '
         'REGEX_TIMEOUT and timeout= at each call site. Monitor: wall clock on an adversarial corpus (isolated workers, hang detection).',
         'assumes the third-party engine honours timeout=; compile phase is finding D14.'),
 'C06': ('Theorems: parser_accepts_exactly_the_grammar (parseTokens = ok tree <-> the levelled derivation relation derives it), derived_tree_unique, '
         'accepted_is_derivable_in_published_grammar + tie cfg_is_generated (the 77 PLY productions), precedence table theorems; D7/D8 witnesses. '
         'Correspondence: model parser = PLY automaton on all short token strings + random texts + cached sessions.', 'findings D7, D8.'),
 'C07': ('Reference semantics: Sq/Denote.lean defines evalOp compositionally (independent of the machine); machine_implements_semantics / '
         'eval_call_implements_semantics (SqLemmas/DenoteSound.lean) prove the abstract machine computes exactly that outcome and world for every node, '
         'function application and whole eval call; semantics_covers_machine / semantics_iff_machine (DenoteComplete: the converse, by strong induction on machine steps) — semantics and machine define the same relation (eval_call_iff_semantics_with_ast_names: the machine halts with done v / failed e in world w iff the semantics prescribes it, for every way eval starts an evaluation); fuel monotone and irrelevant. Plus characteristics theorems, ops_equal_node_evaluations, frame lemma, '
         'big-step theorems. Decision: correspondence of type-directed programs with the model reading the source text itself; the driver cross-checks '
         'evalOp against the machine on every EVAL line (denote counters).', 'translation-validation style.'),
 'C08': ('Theorems: literal_exact, add/sub/mul exact-then-rounded-once, fix_rounds_to_nearest (nearest, ties to even, whole domain), '
         'division_is_correctly_rounded (sticky digit proved sufficient), cmp_is_exact_order; against Q (RatSpec): arithmetic_is_correctly_rounded '
         '(|r - (a op b)| <= 1/2 ulp(r) for + - * /, all operands), comparisons_are_rational_order, quotient_identity, round_to_places_is_nearest (round(x, n): exponent -n, within half a unit of that place, ties to even, exact when nothing is dropped), round_to_integer_is_nearest, power_is_correctly_rounded (exact powers). Correspondence vs CPython decimal; Fraction oracle monitor.',
         'inexact ** and float() against Q: correspondence only.'),
 'C09': ('Theorems: one-transition lemmas plus big-step theorems over sub-evaluations of any length (strict_bin_big_step, and/or/if-else laziness, '
         'args_big_step, dict_big_step, slice_big_step, hof_big_step for the callbacks of map / filter / reduce / sorted, operand_then_frame) via the frame lemma. '
         'Correspondence: probe-log slice; monitors: probe order / count, value of and/or chains.',
         'the order statements are also read off the compositional semantics (C09Den), which the machine implements exactly.'),
 'C10': ('Theorems: lookup order, writes go to the top scope, scope_balanced / scopes_restored / host_scope_beneath over all runs, eval_ends_with_host_scope_only. '
         'Correspondence: scope and session-scope slices; monitors: scope leaks, zero-argument ast lambdas, re-entrant eval, mappings with __missing__.',
         'covered_scopes_survive_any_program (InvSep: with mutators and compound assignments, an object no value mentions changes only while it is a top scope) is relative to a host world in which no value refers to scope dictionaries.'),
 'C11': ('Theorems: history_indep_* for parse / list_names histories of any outcome, history_indep_eval, cache_transparent (C17) for cached parsers; D9 theorem. '
         'Correspondence: histories on one SqParser; monitors: fresh-parser repeat and pristine-interpreter (forked zygote) reference.', 'finding D9.'),
 'C12': ('Theorems: deepcopy_frame, copy_reaches_only_new_objects, stored_copy_is_independent, stored_copy_has_same_content (deepcopy_iso: copy and original '
         'unfold to the same tree at every depth; memo-walk invariant copy_spec), stored_copy_keeps_sharing (one injective address map), assign_binds_same_content, all assignment forms store the copy. Correspondence: alias slice with '
         'shared host objects; monitor: reachability disjointness.', 'Closed / KeysPlain are hypotheses on the heap.'),
 'C13': ('Theorems: every one of the 35 non-mutating builtins preserves all existing objects; quiet_program_changes_no_host_object (over whole runs a program '
         'without mutators / compound assignments changes no pre-existing object other than scope dictionaries). Correspondence: builtin x argument matrix; snapshot monitor.',
         'programs with mutators: a step changes only top scopes and objects some value mentions (InvSep.step_sep; per entry mod_push ... mod_setitem_with_op).'),
 'C14': ('Theorems: ops_refine_dict and ops_refine_list (every operation sequence refines the mathematical dict / Python list spec, other objects untouched), one key '
         'cast everywhere, failing reads are ParserErrors, slice_is_contiguous_segment (xs[a:b] for all bounds), slice_with_positive_step_takes_every_kth / step_slice_read_returns_new_list (xs[::k], every k > 0: ceil(n/k) elements, the j-th is xs[j*k], a new object), slice_with_negative_step_takes_every_kth_from_the_end (xs[::-k]: the j-th is xs[n-1-j*k]; k = 1 reverses), a zero step is refused; for EVERY slice (any bounds, any step): slice_positions_inside_none_dropped + slice_elements_are_the_selected_positions (positions inside the list, one element per position, the j-th element is the one at the j-th position). Correspondence: op sequences exhaustive to depth 2/3 + random, step slices in 40% of the random sequences.', 'the copies made by c[k] = v composed with the list refinement: separate theorems (C12), not one statement.'),
 'C15': ('Theorems: token-level insignificance (closer_irrelevant, blank statements, trailing separators / commas) through parse_iff; character level: '
         'extra_blank_between_tokens / comment_at_line_end / line_break_in_brackets _same_program (whole texts: an insertion at any point between two lexer steps changes neither tokens nor tree), parser_reads_kind_and_value. Critical ties: '
         'lexer rules, grammar. Correspondence + metamorphic monitor: plain vs decorated renderings incl. bare number / prefix-operator receivers.',
         'trailing commas / redundant parentheses at the character level: token-level theorems only.'),
 'C16': ('Theorems: each listed failure is a ParserError at every position; parse outcomes are a tree or one of three ParserError kinds. Correspondence: malformed slice; '
         'fuzz monitor for never-a-non-Exception / never-a-crash (watched worker pool).', 'the no-crash half is measured; finding D17.'),
 'C17': ('Theorems: cache_transparent (simulation over every sequence of parse / list_names / eval, every forgetting / reordering policy, every genuine pre-warmed cache). '
         'Correspondence: histories x cache kinds with near-duplicate texts; lock-step monitor.', 'host mutation of cached trees: implementation side only.'),
 'C18': ('Theorems: list_names = NAME tokens in order; tree_names_from_tokens; evaluation_looks_up_only_listed_names (every lookup of a whole run, through lambdas / HOF '
         'callbacks / trampolines, is a listed or implicit name — generic configuration invariant). Correspondence: names slices.', 'lookup sites classified by inspection of the model.'),
 'C19': ('Theorems for every generator state: rand0_range, rand(a,b) in [a,b], rand(list) member, shuffle_is_permutation, argument unchanged. Correspondence with a '
         'deterministic stand-in; real-random monitor incl. non-name arguments.', 'library specs of `random` assumed.'),
 'C20': ('Theorems: offending_token_is_a_token_of_the_text, syntax_error_names_a_token_and_its_physical_line, end_of_text_error, line counting lemmas. Correspondence: full '
         'message + offending position on erroneous multi-line texts.', 'viable-prefix property of the LALR automaton: correspondence only.'),
}
p = os.path.join(ROOT, 'MANIFEST.json')
m = json.load(open(p))
for c in m['checks']:
    t, note = L[c['property_id']]
    c['level_claimed']['text'] = t
    c['level_note'] = note + ' ' + TB
json.dump(m, open(p, 'w'), indent=1, ensure_ascii=False)
print('ok', len(m['checks']))
