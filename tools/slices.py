"""Correspondence slices (DESIGN.md §3.2): each generates protocol lines from the run's seed, runs the
implementation and the Lean model on them, and reports disagreements + what was covered."""
import collections, os, random, time
import corr, gens, proggen, sqimpl
from sqimpl import hx

ROOT = os.path.dirname(os.path.dirname(os.path.abspath(__file__)))


def big(ctx):
    return ctx['tier'] == 'thorough'


def sz(ctx, quick, thorough):
    """case budget: quick tier; 4x quick (capped) when a proof obligation / tie / slice broke and the failing-input
    search is on; the thorough budget in the thorough tier"""
    if ctx['tier'] == 'thorough':
        return thorough
    if ctx.get('escalate'):
        return min(thorough, 4 * quick)
    return quick


def _finish(name, lines, descr, io, mo, diffs, dt, rule, nontrivial, dist=None, keep=30):
    # keep the disagreements in the outcome itself (value / error class) first: those are the ones a functional property prescribes
    diffs = sorted(diffs, key=lambda i: 0 if io[i].split(' ;;')[0] != mo[i].split(' ;;')[0] else 1)
    dis = [{'input': descr[i], 'line': lines[i][:20000], 'impl': io[i][:1500], 'model': mo[i][:1500]} for i in diffs[:keep]]
    unm = collections.Counter(m.split(' ')[1] if ' ' in m else m for m in mo if m.startswith('U '))
    distinct = len({lines[i] for i in nontrivial})
    step = max(1, len(lines) // 5)
    rec = {'name': name, 'cases': len(lines), 'distinct_nontrivial': distinct, 'rule': rule,
           'samples': [descr[i] for i in range(0, len(lines), step)][:5],
           'disagreements': dis, 'n_disagreements': len(diffs), 'unmodelled': sum(unm.values()),
           'unmodelled_reasons': dict(unm.most_common(12)), 'dist': dist or {}, 'wall_s': dt}
    if corr.DEN_LAST:
        # how often the compositional semantics (Sq/Denote.lean) gave the machine's report on this slice's EVAL lines
        rec['denote'] = dict(corr.DEN_LAST)
    return rec


def corpus_lines(name):
    d = os.path.join(ROOT, 'corpus', name)
    out = []
    if os.path.isdir(d):
        for f in sorted(os.listdir(d)):
            for l in open(os.path.join(d, f)):
                l = l.rstrip('\n')
                if l and not l.startswith('#'):
                    out.append(l)
    return out


# ------------------------------------------------------------------ parsing
def _parse_dist(io):
    c = collections.Counter()
    for a in io:
        c[a.split(' ')[0] + (' ' + a.split(' ')[1] if a.startswith('E ') else '')] += 1
    return dict(c)


def slice_parse_tok(ctx):
    """G-tok: every token string over a 40-symbol alphabet up to length 3 (quick) / 4 (thorough)"""
    n = sz(ctx, 3, 4)
    srcs = corpus_srcs('parse') + list(gens.tok_strings(n))
    rng = random.Random(f'{ctx["seed"]}/parse_tok')
    srcs += list(gens.tok_strings_sample(rng, sz(ctx, 30000, 400000), n + 1, n + 3))
    lines = ['PARSE ' + hx(s) for s in srcs]
    io, mo, d, dt = corr.compare(lines)
    nontriv = [i for i, a in enumerate(io) if a.startswith('ok')]
    return _finish('parse_tok', lines, srcs, io, mo, d, dt,
                   f'all token strings of length <= {n} over {len(gens.TOK_ALPHABET)} symbols (exhaustive) + seeded sample of '
                   f'length {n + 1}..{n + 3}; non-trivial = accepted by the implementation (distinct source texts)',
                   nontriv, _parse_dist(io))


def corpus_srcs(name):
    return [sqimpl.unhx(l) for l in corpus_lines(name)]


def slice_parse_rand(ctx):
    """grammar-directed random sentences, depth <= 8, and their one-token mutations; varied blanks"""
    N = sz(ctx, 15000, 250000)
    srcs = []
    for i in range(N):
        rng = random.Random(f'{ctx["seed"]}/parse_rand/{i}')
        g = gens.SentenceGen(rng, rng.randint(2, 8))
        p = g.program()
        srcs.append(gens.render(p, rng if i % 3 == 0 else None))
        for m in gens.mutations(rng, p, 2):
            srcs.append(gens.render(m))
    lines = ['PARSE ' + hx(s) for s in srcs]
    io, mo, d, dt = corr.compare(lines)
    nontriv = [i for i, a in enumerate(io) if a.startswith('ok')]
    return _finish('parse_rand', lines, srcs, io, mo, d, dt,
                   'random sentences of the grammar (every production, depth <= 8) + 2 one-token mutations each; '
                   'non-trivial = accepted', nontriv, _parse_dist(io))


def slice_lex_chars(ctx):
    """G-lex: every character string up to length 3 (quick) / 4 (thorough) over a 28-character alphabet,
    through LEX, NAMES and PARSE"""
    n = sz(ctx, 3, 4)
    srcs = list(gens.char_strings(n))
    rng = random.Random(f'{ctx["seed"]}/lex_chars')
    srcs += list(gens.char_strings_sample(rng, sz(ctx, 20000, 200000), n + 1, 12))
    lines, descr = [], []
    for s in srcs:
        for c in ('LEX', 'NAMES', 'PARSE'):
            lines.append(c + ' ' + hx(s))
            descr.append(c + ' ' + repr(s))
    io, mo, d, dt = corr.compare(lines)
    nontriv = [i for i, a in enumerate(io) if ' E ' not in a and not a.startswith('E ') and len(a) > 6]
    return _finish('lex_chars', lines, descr, io, mo, d, dt,
                   f'all strings of length <= {n} over {len(gens.LEX_ALPHABET)} characters + seeded longer strings, each through '
                   'LEX / NAMES / PARSE; non-trivial = lexes without error and yields >= 1 token', nontriv)


# ------------------------------------------------------------------ evaluation
def _eval_dist(io):
    c = collections.Counter()
    for a in io:
        h = a.split(' ;;')[0].split(' ')
        c[h[0] + (' ' + h[1] if h[0] == 'err' and len(h) > 1 else '')] += 1
    return dict(c)


def _prog_cases(ctx, tag, n, **kw):
    lines, srcs = [], []
    kinds = collections.Counter()
    for i in range(n):
        rng = random.Random(f'{ctx["seed"]}/{tag}/{i}')
        l, s, k = proggen.eval_case(rng, **kw)
        lines.append(l)
        srcs.append(s)
        kinds.update(k)
    return lines, srcs, kinds


def slice_prog(ctx):
    """G-prog: type-directed programs over every node kind / statement form / builtin; compared: value with
    aliasing structure, names-after, error class, ops charged, probe log"""
    N = sz(ctx, 20000, 400000)
    lines, srcs, kinds = _prog_cases(ctx, 'prog', N)
    cl = corpus_lines('eval')
    lines = cl + lines
    srcs = ['corpus'] * len(cl) + srcs
    # higher-order lambdas: closures built, returned, stored, passed and called later (dynamic scoping)
    ho = gens2.closure_cases(ctx['seed'], max(500, N // 10))
    lines += [c[0] for c in ho]
    srcs += ['[closures] ' + c[1] for c in ho]
    # one lambda active several times at once (recursion, self-application, recursion under map / try_apply)
    re_ = gens2.reentry_cases(ctx['seed'], max(300, N // 40))
    re_ += gens2.literal_fresh_cases(ctx['seed'] + 3, max(200, N // 60))
    lines += [c[0] for c in re_]
    srcs += ['[re-entrant] ' + c[1] for c in re_]
    io, mo, d, dt = corr.compare(lines)
    nontriv = [i for i, a in enumerate(io) if a.startswith('ok') or a.startswith('err')]
    r = _finish('prog', lines, srcs, io, mo, d, dt,
                'type-directed random programs (host names of every plain type, shared objects, host probe/apply/try_apply, '
                'budgets 5..2000); non-trivial = parsed and evaluated to a value or an error (distinct lines)', nontriv, _eval_dist(io))
    r['generator_branches'] = dict(kinds)
    return r


def slice_prog_budget(ctx):
    """C01: each program first at a large budget to learn its need K, then at N in {1,2,K-1,K,K+1,K+2, default}"""
    N = sz(ctx, 2500, 30000)
    base, srcs, kinds = _prog_cases(ctx, 'budget', N, budget=100000, rand_ok=True)
    # programs that call lambdas supplied through ast_names (their body evaluations must be charged to the same budget)
    extra = gens2.scope_cases(ctx['seed'], N // 3)
    base += [c[0].replace('(budget 3000)', '(budget 100000)') for c in extra]
    srcs += ['[ast_names] ' + c[1] for c in extra]
    io0 = corr.run_impl(base)
    lines, descr = [], []
    for l, s, a in zip(base, srcs, io0):
        a = a.split('\t')[0]
        if not (a.startswith('ok') or a.startswith('err')):
            continue
        try:
            K = int(a.split(';; ops ')[1].split(' ')[0]) + 1
        except Exception:
            continue
        for b in sorted({1, 2, max(1, K - 1), K, K + 1, K + 2}) + ['default']:
            lines.append(l.replace('(budget 100000)', f'(budget {b})'))
            descr.append(f'budget={b} need={K}: {s}')
    io, mo, d, dt = corr.compare(lines)
    nontriv = [i for i, a in enumerate(io) if a.startswith('err opslimit')]
    r = _finish('prog_budget', lines, descr, io, mo, d, dt,
                'programs re-run at budgets {1, 2, K-1, K, K+1, K+2, default} where K = ops needed + 1; '
                'non-trivial = runs that end in the ops-limit error', nontriv, _eval_dist(io))
    return r


# ------------------------------------------------------------------ property-specific evaluation slices
import gens2, histgen


def _prime(i, l):
    """every third evaluation case runs `primed` (tools/evalimpl.py): on a parser that retains its trees, after one earlier
    evaluation of the same text for another names mapping - the model still evaluates the text once, from nothing"""
    if i % 3 == 1 and l.startswith('EVAL ') and '(primed' not in l:
        return l + ' (primed %s)' % 'abc'[(i // 3) % 3]
    return l


def _eval_slice(name, cases, rule, nontriv_pred=None):
    lines = [_prime(i, c[0]) for i, c in enumerate(cases)]
    descr = [c[1] for c in cases]
    io, mo, d, dt = corr.compare(lines)
    pred = nontriv_pred or (lambda a: a.startswith('ok') or a.startswith('err'))
    nontriv = [i for i, a in enumerate(io) if pred(a)]
    return _finish(name, lines, descr, io, mo, d, dt, rule, nontriv, _eval_dist(io))


def slice_ops(ctx):
    """G-ops: container operation sequences (C14, C03)"""
    cases = gens2.ops_cases(ctx['seed'], sz(ctx, 3000, 60000), sz(ctx, 2, 3), big_every=40)
    cases += gens2.literal_fresh_cases(ctx['seed'], sz(ctx, 400, 5000))
    cases += gens2.slice_exhaustive_cases()
    return _eval_slice('ops', cases, 'slice.indices exhaustively (lengths 0..6, bounds and steps -8..8 and absent); list/dict operation sequences: exhaustive to depth 2 (quick) / 3 (thorough) over 10 ops x start '
                       'lengths {0,2}, random sequences to length 25, start lengths incl. 9998..10001; non-trivial = evaluated (distinct)')


def slice_num(ctx):
    cases = gens2.num_cases(ctx['seed'], sz(ctx, 20000, 300000))
    return _eval_slice('num', cases, 'numeric expression trees over literals of 1..40 digits (forced ties at the 28th digit), host ints / '
                       'bools / Decimals with exponents to +-999990, every operator, compound assignment and numeric builtin')


def slice_probe(ctx):
    cases = gens2.probe_cases(ctx['seed'], sz(ctx, 15000, 200000))
    return _eval_slice('probe', cases, 'expression shapes with a host probe at every leaf (and/or/if-else, operators, call arguments, list / '
                       'dict / slice parts, index-assignment parts) under random truthy / falsy / raising probe tables; compared: '
                       'ordered probe log, value, error class', lambda a: 'log (p' in a)


def slice_scope(ctx):
    cases = ([c[:2] for c in gens2.bare_scope_cases(ctx['seed'], 200)] + gens2.scope_cases(ctx['seed'], sz(ctx, 8000, 100000)) + gens2.closure_cases(ctx['seed'] + 7, sz(ctx, 3000, 40000))
             + gens2.reentry_cases(ctx['seed'] + 11, sz(ctx, 500, 6000)))
    return _eval_slice('scope', cases, 'one name bound at builtin / host / top-level / parameter level, lambda bodies that read, assign, '
                       'compound-assign or raise, called via apply / map / sorted / reduce / try_apply / recursion')


def slice_alias(ctx):
    cases = gens2.alias_cases(ctx['seed'], sz(ctx, 8000, 100000))
    return _eval_slice('alias', cases, 'all assignment forms from host objects with internal sharing, then mutations through either side; '
                       'values compared with aliasing structure')


def slice_builtin_args(ctx):
    names = list(sqimpl.load().functions.FUNCTIONS.keys())
    cases = gens2.builtin_cases(ctx['seed'], names, sz(ctx, 4000, 60000))
    return _eval_slice('builtin_args', cases, 'every entry of FUNCTIONS x argument shapes (0 args, every single shape, 8x8 pairs exhaustive; '
                       'random 2..4-tuples; callbacks); result and the arguments afterwards compared (aliasing-aware)')


def slice_rand(ctx):
    cases = gens2.rand_cases(ctx['seed'], sz(ctx, 4000, 40000))
    return _eval_slice('rand', cases, 'rand() / rand(a,b) / rand(list) / shuffle(list) with the deterministic stand-in for `random` on both sides')


def slice_regex(ctx):
    cases = gens2.regex_cases(ctx['seed'], sz(ctx, 3000, 30000))
    return _eval_slice('regex', cases, 'the three regex builtins x argument / flag shapes; the engine\'s answers are fed to the model')


# ------------------------------------------------------------------ sessions
def _session_cmp(lines, io, mo):
    """call-by-call comparison; a model answer `U …` ends the comparable prefix of that session"""
    diffs = []
    for i, (a, b) in enumerate(zip(io, mo)):
        if b.startswith('U ') or a.startswith('X ') or a.startswith('HARNESS'):
            continue
        for x, y in zip(a.split(' || '), b.split(' || ')):
            if y.startswith('U ') or ' U ' in y or x.startswith('X '):
                break
            if x != y:
                diffs.append(i)
                break
    return diffs


def _sessions(ctx, tag, n, caches, texts=None, evals_only=False, script=None, script_every=0):
    seed = ctx['seed']
    texts = texts or histgen.pool(seed)
    variants = [v for t in texts for v in histgen.near_dups(t)]
    corr.pool()
    table = histgen.fresh_table(variants + histgen.NAMESRC)
    lines, descr = [], []
    for i in range(n):
        rng = random.Random(f'{seed}/{tag}/{i}')
        l, c = histgen.history(rng, texts, rng.choice(caches), evals_only, script=(script if script_every and i % script_every == 0 else None))
        lines.append(histgen.with_table(l, c, table))
        descr.append(l[:80] + ' ' + ' ; '.join(str(x[:3]) for x in c)[:600])
    return lines, descr


def slice_session(ctx):
    """G-hist (C11): parsers without a cache and parsers with a plain dict cache (the property speaks about every SqParser)"""
    lines, descr = _sessions(ctx, 'hist', sz(ctx, 1500, 20000), ['none', 'none', 'dict'])
    io, mo, _, dt = corr.compare(lines)
    d = _session_cmp(lines, io, mo)
    return _finish('session', lines, descr, io, mo, d, dt,
                   'histories of 2..10 parse / eval / list_names(partial) / host-mutation calls on one SqParser, 1..3 names mappings, texts '
                   'from a pool of valid, lexically / syntactically invalid (unbalanced, premature end), failing and ops-limited sources; '
                   'every call compared (result / error class+message / names-after / ops); the model answers each call from a '
                   'fresh-parser table', list(range(len(lines))))


def slice_session_cache(ctx):
    """G-hist x cache kinds (C17): a disagreement counts only if the same history WITHOUT cache agrees
    (otherwise it is C11's business)"""
    lines, descr = _sessions(ctx, 'histc', sz(ctx, 1200, 16000), ['dict', 'lru2', 'evict', 'ddict', 'readthrough'])
    io, mo, _, dt = corr.compare(lines)
    d0 = _session_cmp(lines, io, mo)
    d = []
    if d0:
        import re
        plain = [re.sub(r'\(cache \w+\)', '(cache none)', lines[i]) for i in d0]
        io2, mo2, _, _ = corr.compare(plain)
        bad2 = set(_session_cmp(plain, io2, mo2))
        d = [i for j, i in enumerate(d0) if j not in bad2]
    return _finish('session_cache', lines, descr, io, mo, d, dt,
                   'the same kind of histories with parse_cache in {dict, LRU(2), always-evicting}, repeated and near-duplicate sources '
                   '(differing in trailing blanks / newlines), failing sources', list(range(len(lines))))


# ------------------------------------------------------------------ text-level slices (C15, C16, C18, C20)
import layoutgen


def slice_layout(ctx):
    """G-layout: plain vs decorated rendering of the same program, both through PARSE on both sides"""
    N = sz(ctx, 10000, 150000)
    srcs = []
    kinds = {}
    for i in range(N):
        r = random.Random(f'{ctx["seed"]}/layout/{i}')
        a, b = layoutgen.layout_pair(r, kinds)
        srcs += [a, b]
        if i % 25 == 0:
            # an earlier rejected text on the same parser must not change how later layout is read
            srcs.append(r.choice(['f(1', '[1, 2', 'g(1 +', '{1: 2', '1 + 2)', '((', 'x = [', '"abc', 'a $ b']))
    lines = ['PARSE ' + hx(s) for s in srcs]
    io, mo, d, dt = corr.compare(lines)
    nontriv = [i for i, a in enumerate(io) if a.startswith('ok')]
    r = _finish('layout', lines, srcs, io, mo, d, dt,
                'random programs rendered plain and decorated (blanks/tabs, comments, line breaks in brackets, ; vs newline, blank '
                'statements, CRLF, trailing commas, redundant parentheses, the three call styles); non-trivial = accepted', nontriv, _parse_dist(io))
    r['generator_branches'] = kinds
    return r


def slice_errmsg(ctx):
    """erroneous texts: stray token / truncation in multi-line programs; PARSE output incl. offending position and message"""
    N = sz(ctx, 20000, 300000)
    srcs = []
    for i in range(N):
        r = random.Random(f'{ctx["seed"]}/errmsg/{i}')
        srcs.append(layoutgen.error_text(r))
    lines = ['PARSE ' + hx(s) for s in srcs]
    io, mo, d, dt = corr.compare(lines)
    nontriv = [i for i, a in enumerate(io) if a.startswith('E ')]
    return _finish('errmsg', lines, srcs, io, mo, d, dt,
                   'valid multi-line programs (newline / CRLF / ; separators, multi-line bracketed literals, comments) broken by one '
                   'stray token at a random position or truncated at a random character; compared: error kind, offending position, '
                   'full message; non-trivial = rejected', nontriv, _parse_dist(io))


def slice_names(ctx):
    """NAMES over program texts (every syntactic role), %...% names, names next to strings / comments / keywords, invalid texts"""
    N = sz(ctx, 10000, 120000)
    srcs = []
    for i in range(N):
        r = random.Random(f'{ctx["seed"]}/names/{i}')
        k = r.randrange(4)
        if k == 0:
            srcs.append(layoutgen.error_text(r))
        elif k == 1:
            srcs.append(layoutgen.layout_pair(r)[1])
        elif k == 2:
            srcs.append(proggen.eval_case(r)[1])
        else:
            parts = [r.choice(['%a b%', '%x.y%', '%a+b%', 'name', 'for', 'and', 'andy', 'not_x', '"str name"', "'q'", '# c name\n', 'f(',
                               ')', 'x.y', '1e5', '12ab', '_u', 'ж', '%unterminated', '=>', 'x=1', 'del', 'True', 'None_', '$', '%%', '% %'])
                     for _ in range(r.randint(1, 8))]
            srcs.append(r.choice([' ', '', '\n', ';']).join(parts))
    lines = ['NAMES ' + hx(s) for s in srcs]
    io, mo, d, dt = corr.compare(lines)
    nontriv = [i for i, a in enumerate(io) if len(a) > 7]
    return _finish('names', lines, srcs, io, mo, d, dt,
                   'list_names over erroneous texts, decorated programs, G-prog programs and token soups with %...% names, keywords, '
                   'strings, comments; non-trivial = at least one name yielded', nontriv)


def slice_malformed(ctx):
    """C16: arbitrary strings, truncations at every character, unbalanced brackets, unterminated strings through PARSE and NAMES;
    programs failing in each listed way through EVAL (error class compared)"""
    N = sz(ctx, 6000, 60000)
    lines, descr = [], []
    for i in range(N):
        r = random.Random(f'{ctx["seed"]}/malformed/{i}')
        k = r.randrange(5)
        if k == 0:
            s = ''.join(r.choice(gens.LEX_ALPHABET + ['x', '(', ')', '{', '}', ',', ':', '|', '<', 'f', '2']) for _ in range(r.randint(0, 14)))
        elif k == 1:
            t = layoutgen.layout_pair(r)[1]
            s = t[:r.randrange(len(t) + 1)]
        elif k == 2:
            s = r.choice(['(', '[', '{', '((', '[(', '"', "'", 'r"', '"\\', 'f(', 'f(1,', '{1:', 'x =', 'x +=', 'del', 'del x[', 'a if', 'a if b else',
                          'x =>', '(a, b) =>', 'not', '-', 'a.', 'a |', 'a[1:', '%x', '1 +\n', '[1,\n', ')', ']', '}', 'for', 'while 1'])
        else:
            s = layoutgen.error_text(r)
        for c in ('PARSE', 'NAMES'):
            lines.append(c + ' ' + hx(s))
            descr.append(c + ' ' + repr(s))
    planted = ['items({"a": 1})[0][2]', 'enumerate([1])[0][5]', 'items({"a": 1})[3]', 'undefined_var', 'nofn(1)', 'u += 1', '[1,2][5]', '{"a": 1}["b"]', 'pop([])', 'x = []\nx[3]', '"abc"[7]', 'd = {}\nd["k"]',
               'for', 'x = while', '1 $ 2', '1 +', 'f(']
    ctxs = ['{E}', '[1, {E}]', 'len({E})', '{{"k": {E}}}', '{{{E}: 1}}', '[1,2,3][{E}:]', '[1,2,3][{E}]', 'v => {E}', 'apply(v => {E}, 1)',
            '{E} if True else 1', '1 if {E} else 2', '1 if False else {E}', 'x = {E}', 'x = [0]\nx[0] = {E}', 'x = [0]\nx[0] += {E}',
            'x = 1\nx += {E}', '-{E}', 'not {E}', '1 + {E}', '{E} and 1', 'map([1], v => {E})', 'str({E})']
    for p in planted:
        for c in ctxs:
            if '\n' in p and not c.startswith('{E}'):
                continue
            src = c.replace('{E}', p) if '\n' not in p else p
            lines.append(gens2.eval_line(src, budget=200))
            descr.append('EVAL ' + src)
    for b in (1, 2, 3, 5):
        lines.append(gens2.eval_line('f = n => f(n + 1)\nf(0)', budget=b))
        descr.append(f'EVAL budget {b}')
    io, mo, d, dt = corr.compare(lines)
    nontriv = [i for i, a in enumerate(io) if a.startswith('E ') or a.startswith('err') or ' E ' in a]
    return _finish('malformed', lines, descr, io, mo, d, dt,
                   'random character strings, truncations of valid programs at a random character, unbalanced / unterminated fragments '
                   '(PARSE and NAMES); each listed language-level failure planted at 22 syntactic positions (EVAL); non-trivial = an error outcome',
                   nontriv)


def slice_session_scope(ctx):
    """C10: sequences of evals of VALID texts only (so nothing here depends on error recovery), with and without a names
    mapping: top-level assignments must land in the caller's mapping (or vanish with names=None), never in the builtins"""
    lines, descr = _sessions(ctx, 'histscope', sz(ctx, 700, 8000), ['none'], texts=list(histgen.VALID), evals_only=True,
                             script=histgen.scope_script, script_every=3)
    io, mo, _, dt = corr.compare(lines)
    d = _session_cmp(lines, io, mo)
    return _finish('session_scope', lines, descr, io, mo, d, dt,
                   'histories of 2..10 evals of valid texts (assignments to builtin names, lambdas, reads) on one SqParser with 1..3 '
                   'names mappings and names=None calls; every call compared', list(range(len(lines))))


def slice_name_lookup(ctx):
    """C18: programs whose names are %...% lexemes with dots / spaces / operators while PARTS of those names are bound by
    the host: evaluation may ask the host only for the names list_names reports"""
    N = sz(ctx, 3000, 30000)
    cases = []
    for i in range(N):
        r = random.Random(f'{ctx["seed"]}/namelookup/{i}')
        # spellings that Unicode normalisation (NFC / NFKC / case folding) would change: the host binds EXACTLY the raw spelling
        odd = ['%\u0438\u0306%', '%\u212b%', '%e\u0301t\u00e9%', '%\ufb01le%', '%\u00c5%', '%\u0130%', '%\u1e9e%', '%K%', '%\u212a%']
        ent = (f'(S:{hx("user")} (M 1 (S:{hx("name")} S:{hx("Ann")}) (S:{hx("tags")} (L 2 S:61)))) (S:{hx("a")} I:1) (S:{hx("b")} I:2) '
               f'(S:{hx("%a%")} I:10) (S:{hx("a.b")} I:3) (S:{hx("order")} (L 3 I:5 I:6)) ' +
               ' '.join(f'(S:{hx(o)} I:{70 + j})' for j, o in enumerate(odd) if r.random() < 0.7))
        nm = r.choice(['%user.name%', '%user.tags%', '%a.b%', '%a%', '%a b%', '%a+b%', '%order.0%', '%user.name.upper%', '%user%', 'user', '%b%', '%order.1%'] + odd)
        src = r.choice([nm, f'{nm} + 1', f'len({nm})', f'x = {nm}; x', f'try_apply(w => {nm}, 0)', f'[{nm}, a]', f'f = v => {nm}; f(1)', f'{nm} = 5; {nm}'])
        if r.random() < 0.2:
            # words the lexer treats as keywords (also the reserved-but-unused ones) and names that occur only inside string
            # literals: the host binds them, the program must still not be able to read them
            kw = r.choice(['for', 'while', 'elif', 'break', 'continue', 'def', 'raise', 'and', 'else', 'del', 'None', 'True'])
            src = r.choice([f'"yes" if {kw} else "no"', f'x = {kw}', f'[{kw}]', f'{kw}', f'try_apply(w => {kw}, 0)', f'len({kw})',
                            '"Hello, %user% and %a%!"', '"%a%"', "'%a b% %b%'", '"100% %a% 50%"', 'r"%a%"', 'x = "%user.name%"; x', '"a" + "%b%"'])
            ent += ' ' + ' '.join(f'(S:{hx(w)} I:{90 + j})' for j, w in enumerate(['for', 'while', 'elif', 'break', 'continue', 'def', 'raise', 'b%']))
        if r.random() < 0.12:
            # names bound to STRINGS that happen to spell other names (of builtins, of host bindings): a string is data, never
            # an alias to be looked up
            ent += f' (S:{hx("size")} S:{hx("len")}) (S:{hx("alias")} S:{hx("a")}) (S:{hx("fn")} S:{hx("user")}) (S:{hx("secret")} H:probe)'
            src = r.choice(['size(order)', 'order | size', 'order.size()', 'alias', 'alias + 1', 'fn()', 'g = "secret"; g()', 'g = "secret"; g(1)',
                            'try_apply(w => size(order), 0)', 'map(order, size)', 'h = "len"; h(order)', 'k = "a"; [k, a]', 'apply(size, order)'])
        cases.append((gens2.eval_line(src, ent), src))
    return _eval_slice('name_lookup', cases, '%...% names with dots / blanks / operators whose parts are bound by the host, in every '
                       'syntactic role; result, error class and names-after compared')
