"""Correspondence slices (DESIGN.md §3.2): each generates protocol lines from the run's seed, runs the
implementation and the Lean model on them, and reports disagreements + what was covered."""
import collections, os, random, time
import corr, gens, proggen, sqimpl
from sqimpl import hx

ROOT = os.path.dirname(os.path.dirname(os.path.abspath(__file__)))


def big(ctx):
    return ctx['tier'] == 'thorough' or ctx.get('escalate')


def _finish(name, lines, descr, io, mo, diffs, dt, rule, nontrivial, dist=None, keep=30):
    dis = [{'input': descr[i], 'line': lines[i][:2000], 'impl': io[i][:1500], 'model': mo[i][:1500]} for i in diffs[:keep]]
    unm = collections.Counter(m.split(' ')[1] if ' ' in m else m for m in mo if m.startswith('U '))
    distinct = len({lines[i] for i in nontrivial})
    step = max(1, len(lines) // 5)
    return {'name': name, 'cases': len(lines), 'distinct_nontrivial': distinct, 'rule': rule,
            'samples': [descr[i] for i in range(0, len(lines), step)][:5],
            'disagreements': dis, 'n_disagreements': len(diffs), 'unmodelled': sum(unm.values()),
            'unmodelled_reasons': dict(unm.most_common(12)), 'dist': dist or {}, 'wall_s': dt}


def corpus_lines(name):
    d = os.path.join(ROOT, 'corpus', name)
    out = []
    if os.path.isdir(d):
        for f in sorted(os.listdir(d)):
            for l in open(os.path.join(d, f)):
                l = l.rstrip('\n')
                if l and not l.startswith('#'):
                    out.append(l)
    return out


# ------------------------------------------------------------------ parsing
def _parse_dist(io):
    c = collections.Counter()
    for a in io:
        c[a.split(' ')[0] + (' ' + a.split(' ')[1] if a.startswith('E ') else '')] += 1
    return dict(c)


def slice_parse_tok(ctx):
    """G-tok: every token string over a 40-symbol alphabet up to length 3 (quick) / 4 (thorough)"""
    n = 4 if big(ctx) else 3
    srcs = corpus_srcs('parse') + list(gens.tok_strings(n))
    rng = random.Random(f'{ctx["seed"]}/parse_tok')
    srcs += list(gens.tok_strings_sample(rng, 400000 if big(ctx) else 30000, n + 1, n + 3))
    lines = ['PARSE ' + hx(s) for s in srcs]
    io, mo, d, dt = corr.compare(lines)
    nontriv = [i for i, a in enumerate(io) if a.startswith('ok')]
    return _finish('parse_tok', lines, srcs, io, mo, d, dt,
                   f'all token strings of length <= {n} over {len(gens.TOK_ALPHABET)} symbols (exhaustive) + seeded sample of '
                   f'length {n + 1}..{n + 3}; non-trivial = accepted by the implementation (distinct source texts)',
                   nontriv, _parse_dist(io))


def corpus_srcs(name):
    return [sqimpl.unhx(l) for l in corpus_lines(name)]


def slice_parse_rand(ctx):
    """grammar-directed random sentences, depth <= 8, and their one-token mutations; varied blanks"""
    N = 250000 if big(ctx) else 15000
    srcs = []
    for i in range(N):
        rng = random.Random(f'{ctx["seed"]}/parse_rand/{i}')
        g = gens.SentenceGen(rng, rng.randint(2, 8))
        p = g.program()
        srcs.append(gens.render(p, rng if i % 3 == 0 else None))
        for m in gens.mutations(rng, p, 2):
            srcs.append(gens.render(m))
    lines = ['PARSE ' + hx(s) for s in srcs]
    io, mo, d, dt = corr.compare(lines)
    nontriv = [i for i, a in enumerate(io) if a.startswith('ok')]
    return _finish('parse_rand', lines, srcs, io, mo, d, dt,
                   'random sentences of the grammar (every production, depth <= 8) + 2 one-token mutations each; '
                   'non-trivial = accepted', nontriv, _parse_dist(io))


def slice_lex_chars(ctx):
    """G-lex: every character string up to length 3 (quick) / 4 (thorough) over a 28-character alphabet,
    through LEX, NAMES and PARSE"""
    n = 4 if big(ctx) else 3
    srcs = list(gens.char_strings(n))
    rng = random.Random(f'{ctx["seed"]}/lex_chars')
    srcs += list(gens.char_strings_sample(rng, 200000 if big(ctx) else 20000, n + 1, 12))
    lines, descr = [], []
    for s in srcs:
        for c in ('LEX', 'NAMES', 'PARSE'):
            lines.append(c + ' ' + hx(s))
            descr.append(c + ' ' + repr(s))
    io, mo, d, dt = corr.compare(lines)
    nontriv = [i for i, a in enumerate(io) if ' E ' not in a and not a.startswith('E ') and len(a) > 6]
    return _finish('lex_chars', lines, descr, io, mo, d, dt,
                   f'all strings of length <= {n} over {len(gens.LEX_ALPHABET)} characters + seeded longer strings, each through '
                   'LEX / NAMES / PARSE; non-trivial = lexes without error and yields >= 1 token', nontriv)


# ------------------------------------------------------------------ evaluation
def _eval_dist(io):
    c = collections.Counter()
    for a in io:
        h = a.split(' ;;')[0].split(' ')
        c[h[0] + (' ' + h[1] if h[0] == 'err' and len(h) > 1 else '')] += 1
    return dict(c)


def _prog_cases(ctx, tag, n, **kw):
    lines, srcs = [], []
    kinds = collections.Counter()
    for i in range(n):
        rng = random.Random(f'{ctx["seed"]}/{tag}/{i}')
        l, s, k = proggen.eval_case(rng, **kw)
        lines.append(l)
        srcs.append(s)
        kinds.update(k)
    return lines, srcs, kinds


def slice_prog(ctx):
    """G-prog: type-directed programs over every node kind / statement form / builtin; compared: value with
    aliasing structure, names-after, error class, ops charged, probe log"""
    N = 400000 if big(ctx) else 20000
    lines, srcs, kinds = _prog_cases(ctx, 'prog', N)
    cl = corpus_lines('eval')
    lines = cl + lines
    srcs = ['corpus'] * len(cl) + srcs
    io, mo, d, dt = corr.compare(lines)
    nontriv = [i for i, a in enumerate(io) if a.startswith('ok') or a.startswith('err')]
    r = _finish('prog', lines, srcs, io, mo, d, dt,
                'type-directed random programs (host names of every plain type, shared objects, host probe/apply/try_apply, '
                'budgets 5..2000); non-trivial = parsed and evaluated to a value or an error (distinct lines)', nontriv, _eval_dist(io))
    r['generator_branches'] = dict(kinds)
    return r


def slice_prog_budget(ctx):
    """C01: each program first at a large budget to learn its need K, then at N in {1,2,K-1,K,K+1,K+2, default}"""
    N = 30000 if big(ctx) else 2500
    base, srcs, kinds = _prog_cases(ctx, 'budget', N, budget=100000, rand_ok=True)
    io0 = corr.run_impl(base)
    lines, descr = [], []
    for l, s, a in zip(base, srcs, io0):
        a = a.split('\t')[0]
        if not (a.startswith('ok') or a.startswith('err')):
            continue
        try:
            K = int(a.split(';; ops ')[1].split(' ')[0]) + 1
        except Exception:
            continue
        for b in sorted({1, 2, max(1, K - 1), K, K + 1, K + 2}) + ['default']:
            lines.append(l.replace('(budget 100000)', f'(budget {b})'))
            descr.append(f'budget={b} need={K}: {s}')
    io, mo, d, dt = corr.compare(lines)
    nontriv = [i for i, a in enumerate(io) if a.startswith('err opslimit')]
    r = _finish('prog_budget', lines, descr, io, mo, d, dt,
                'programs re-run at budgets {1, 2, K-1, K, K+1, K+2, default} where K = ops needed + 1; '
                'non-trivial = runs that end in the ops-limit error', nontriv, _eval_dist(io))
    return r
