#!/usr/bin/env python3
"""Re-run kept seeded changes under /verif/seeded against their property's quick check (all of them, or only the ones named on
the command line) and write seeded/RESULTS.md from the results recorded in every meta.json"""
import json, os, subprocess, sys
ROOT = os.path.dirname(os.path.dirname(os.path.abspath(__file__)))
sys.path.insert(0, os.path.join(ROOT, 'tools'))
import seedeval
only = set(sys.argv[1:])
rows = []
for d in sorted(os.listdir(os.path.join(ROOT, 'seeded'))):
    p = os.path.join(ROOT, 'seeded', d)
    if not os.path.isdir(p) or not os.path.exists(os.path.join(p, 'meta.json')):
        continue
    meta = json.load(open(os.path.join(p, 'meta.json')))
    pid = meta['breaks_property']
    if not only or d in only or pid not in meta.get('check_results', {}):
        r = seedeval.run_check(os.path.join(p, 'patch.diff'), pid)
        meta['check_results'] = {pid: r}
        json.dump(meta, open(os.path.join(p, 'meta.json'), 'w'), indent=1)
        print(d, r['rc'], r['wall_s'], flush=True)
    r = meta['check_results'][pid]
    vl = r['violation_line'] or ''
    kind = 'MISSED' if r['rc'] == 0 else ('failing input found' if 'no-failing-input-found' not in vl else 'broken obligation / correspondence, no failing input')
    rows.append((d, pid, kind, r['wall_s'], meta.get('summary', '')[:110].replace('\n', ' ').replace('|', '/')))
with open(os.path.join(ROOT, 'seeded', 'RESULTS.md'), 'w') as fh:
    fh.write('# Seeded changes vs the checks (quick tier, VERIF_SEED=1)\n\n| change | property | result | wall s | what the change does |\n|---|---|---|---|---|\n')
    for r in rows:
        fh.write('| ' + ' | '.join(str(x) for x in r) + ' |\n')
print(len(rows), 'rows;', sum(1 for r in rows if r[2] == 'failing input found'), 'with a failing input')
