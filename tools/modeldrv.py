"""Run the compiled Lean model driver (lean/.lake/build/bin/sqdrv) over a batch of protocol lines."""
import os, subprocess

HERE = os.path.dirname(os.path.abspath(__file__))
LEAN = os.path.join(os.path.dirname(HERE), 'lean')
DRV = os.path.join(LEAN, '.lake', 'build', 'bin', 'sqdrv')


def _limits():
    import resource
    lim = 6 * 1024 ** 3
    resource.setrlimit(resource.RLIMIT_AS, (lim, lim))


def run_model(lines, timeout=240):
    """lines: list[str] -> list[str] (same length).  If the driver dies on a batch (memory limit, stack
    overflow), the batch is bisected and the offending line is answered `U model-crash`."""
    if not lines:
        return []
    data = ('\n'.join(lines) + '\n').encode()
    try:
        p = subprocess.run([DRV], input=data, stdout=subprocess.PIPE, stderr=subprocess.PIPE, timeout=timeout,
                           preexec_fn=_limits)
        out = p.stdout.decode().split('\n')
        rc = p.returncode
    except subprocess.TimeoutExpired:
        out, rc = [], -1
    if out and out[-1] == '':
        out.pop()
    if rc == 0 and len(out) == len(lines):
        return out
    if not os.path.exists(DRV):
        raise RuntimeError('model driver not built: ' + DRV)
    if len(lines) == 1:
        return ['U model-crash']
    good = out[:max(0, len(out) - 1)] if rc != 0 else []
    # lines answered completely before the crash are kept; the rest is bisected
    rest = lines[len(good):]
    mid = max(1, len(rest) // 2)
    t2 = max(15, min(timeout // 2, 60))
    return good + run_model(rest[:mid], t2) + run_model(rest[mid:], t2)


def run_model_parallel(lines, jobs=8, timeout=240):
    if len(lines) < 2000 or jobs <= 1:
        return run_model(lines, timeout)
    from concurrent.futures import ThreadPoolExecutor
    n = len(lines)
    step = (n + jobs - 1) // jobs
    chunks = [lines[i:i + step] for i in range(0, n, step)]
    with ThreadPoolExecutor(len(chunks)) as ex:
        res = list(ex.map(lambda c: run_model(c, timeout), chunks))
    return [x for r in res for x in r]
