"""Run the compiled Lean model driver (lean/.lake/build/bin/sqdrv) over a batch of protocol lines."""
import os, subprocess

HERE = os.path.dirname(os.path.abspath(__file__))
LEAN = os.path.join(os.path.dirname(HERE), 'lean')
DRV = os.path.join(LEAN, '.lake', 'build', 'bin', 'sqdrv')


def run_model(lines, timeout=3600):
    """lines: list[str] -> list[str] (same length)"""
    if not lines:
        return []
    data = ('\n'.join(lines) + '\n').encode()
    p = subprocess.run([DRV], input=data, stdout=subprocess.PIPE, stderr=subprocess.PIPE, timeout=timeout)
    out = p.stdout.decode().split('\n')
    if out and out[-1] == '':
        out.pop()
    if p.returncode != 0 or len(out) != len(lines):
        raise RuntimeError(f'model driver failed rc={p.returncode} got {len(out)} lines for {len(lines)}: '
                           f'{p.stderr.decode()[:500]}')
    return out


def run_model_parallel(lines, jobs=8, timeout=3600):
    if len(lines) < 2000 or jobs <= 1:
        return run_model(lines, timeout)
    from concurrent.futures import ThreadPoolExecutor
    n = len(lines)
    step = (n + jobs - 1) // jobs
    chunks = [lines[i:i + step] for i in range(0, n, step)]
    with ThreadPoolExecutor(len(chunks)) as ex:
        res = list(ex.map(lambda c: run_model(c, timeout), chunks))
    return [x for r in res for x in r]
