#!/usr/bin/env python3
"""Run every check's quick (or thorough) command on the current tree; print one line per property."""
import json, os, subprocess, sys, time
ROOT = os.path.dirname(os.path.dirname(os.path.abspath(__file__)))
tier = sys.argv[1] if len(sys.argv) > 1 else 'quick'
seed = sys.argv[2] if len(sys.argv) > 2 else '1'
m = json.load(open(os.path.join(ROOT, 'MANIFEST.json')))
bad = 0
for c in m['checks']:
    cmd = c['quick_cmd'] if tier == 'quick' else c['thorough_cmd']
    t0 = time.time()
    p = subprocess.run(cmd, shell=True, cwd=ROOT, env=dict(os.environ, VERIF_SEED=seed), stdout=subprocess.PIPE, stderr=subprocess.STDOUT, text=True)
    last = [l for l in p.stdout.split('\n') if l.startswith('[')][-1:] or [p.stdout[-200:]]
    viol = [l for l in p.stdout.split('\n') if l.startswith('VIOLATION')]
    print(c['property_id'], 'rc', p.returncode, f'{time.time() - t0:.0f}s', last[0][:120], viol[:1], flush=True)
    bad += p.returncode != 0
sys.exit(1 if bad else 0)
