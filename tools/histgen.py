"""G-hist: sequences of API calls on one SqParser (DESIGN.md §3.2) drawn from a per-seed pool of texts."""
import random
import proggen
from sqimpl import hx

INVALID = ['a = 1\nb = )', 'y = 1; y +', 'x = 1\nx = x + 1\nx ) 5', 'q = 2\n[q,', 'x = x + 1; $', '1 +', 'f(', '(1', '[1,\n2', '{1: 2', 'x =', '1 2', 'a b c', '$', 'x = $', '"abc', '1 + $ + 2', 'for', 'while x',
           ')', '(1))', '1 +\n2 2', 'a[1:2:3]', 'x | f()', '{1:2,,}', 'del x', '%a', '1 ? 2', '[1, 2\n 3', 'x.y', '(a) => a']
RUNTIME = ['0 ** 0', '10 ** 1000000', '0 ** (0 - 1)', 'sum([1, None])', 'sum(["a", 1])', '1 / 0', 'undefined_name', 'nofn(1)', '[1,2][5]', '{"a": 1}["b"]', 'pop([])', 'u += 1', '"a" - 1', 'len(1)',
           'x = 1; x.push(2)', 'int("z")']
VALID = ['len(y)', 'sum(y)', 'max(y)', 'str(x)', 'cfg = {x: y, "n": d}\ncfg', 'list(x, y)', '{x: len(y)}', 'y | sorted | reversed', 'len = 3', 'len([1, 2])', 'str = 1', 'str(2)', 'q = 9', 'q', 'sum = v => 0', 'sum([1, 2])', '1 + 2', 'x = 5', 'x', 'y = [1, 2, 3]', 'y.push(4); y', 'len(y)', 'x = x + 1; x', 'd = {"k": [1]}', 'd["k"].push(2); d',
         'f = n => n * 2', 'f(3)', 'g = n => 1 if n < 2 else n * g(n - 1)', 'g(4)', 'g(30)', 'map([1,2,3], f)', '[1,\n2,\n3]',
         '(1 +\n2)', 'a = 1; b = 2\na + b', '# just a comment', '', '   ', '1 ;; 2', '"s" + 1', 'z = y', 'z.push(9); [y, z]',
         'h = v => v + x', 'h(1)', 'sorted([3,1,2])', 'rand(1, 6)', 'shuffle([1,2,3])', 'x = [x]', 'del d["k"]', 'y[0] = 7; y',
         '1 + 2 ', ' 1 + 2', '1 + 2\n', '1 +  2', '\n1 + 2', 'k = (a, b) => a + b; k(1, 2)', 'try_it = 1', 'str(d)']
# texts whose outcome could depend on process / parser / tree state left by earlier calls: inexact and exact quotients and
# other context-flag raisers, constant containers that get mutated, call sites of builtins that some mapping rebinds, lambdas
# called repeatedly, literals with escapes and brackets spanning lines
STATEFUL = ['1 / 3', '1 / 4', '10 / 4', '1 / 1048576', '2 / 3 + 1 / 4', 'x / 3', 'x / 4', '2 ** 0.5', '0.1 + 0.2', 'round(2 / 3, 2)',
            '1 / 7 * 7', '10 ** 40 * 10 ** 40 / 3', '1e30 * 1e30', '[10, 20] | pop', '[1, 2, 3]', 'r = [1, 2, 3]; r.push(4); r',
            '{"a": [1]}', 'c = {"a": [1]}; c["a"].push(2); c', '[[1], [2]][0]', '[1, 2].push(3)', 'w = [5, 6]; w.pop(); w',
            'len([1, 2])', 'len("abc") + len([1])', 'map([[1], [2, 3]], len)', 'f2 = v => len(v); [f2([1]), f2([1, 2])]',
            'str(1) + str([1])', 'sorted([3, 1, 2])', 'max([1, 5, 2])', '"a\\nb" + "c"', '"x" + "\\t"', '(1,\n2) => 3', '[1,\n 2,\n 3][1]',
            'n = 0; n += 1; n', 't = [0]; t[0] += 1; t', 'u = {"k": 0}; u["k"] += 1; u', '5 * (60 * 60)', 'map([1, 2, 3], v => v * (60 * 60))',
            'e = [] ; e', 'p = e; p.push(1); [e, p]',
            # results of library calls that get mutated, the same search twice, texts that differ only inside a string literal or a
            # %...% name, equal numbers in different spellings
            '"2024-05-17" | match_all("\\d+") | pop', 'm = match_all("a1b22", "\\d+"); m.push("x"); m', 'match_groups("k=v", "(\\w)=(\\w)") | pop',
            'match_groups("k=v", "(\\w)=(\\w)")', 'match_all("a1b22", "\\d+")', 'split("a,b,c", ",") | pop', 'sorted([3, 1, 2]) | pop', 'keys({"a": 1}) | push("z")',
            'x == "a  b"', 'x == "a b"', '"a  b"', '"a b"', '"a\tb" + ""', '"a b" + ""', '%a  b%', '%a b%', 'len("  ")', 'len(" ")', '["x  y", "x y"]',
            '"Total: " + 2.50', '"Total: " + 2.5', 'str(1.0)', 'str(1)', 'str(1.00)', '{1.0: "a"}', '{1: "a"}', '[2.50, 2.5, 2.500]', '0.10 + 0', '0.1 + 0',
            'True', '1', 'False', '0', '[True, 1, False, 0]', '1 / 3 + 1', '(1 + 1) / (1 + 1 + 1)', 'None', '"None"', '1 if 1 / 3 > 0.3 else 2', 'abs(-1 / 3)', 'int(7 / 2)', 'sum([1 / 3, 1 / 3, 1 / 3])']

CALLSITES = ['f2 = v => len(v); f2([1])', 'f2([1, 2])', 'len = v => 0', 'cs = w => sum([1, 2]); cs(0)', 'cs(0)', 'sum = v => 7', 'str = v => "S"', 'h3 = v => str(v); h3(1)', 'h3(2)',
             'len([1, 2])', 'str(2)', 'sum([1, 2])', 'max([1, 2])', 'list(1, 2)', 'f2 = v => len(v); [f2([1]), f2([1, 2])]',
             'map([[1], [2, 3]], v => len(v))', 'len("abc") + len([1])']

NAMESRC = ['a + b', 'f(x, %my var% )', '"str" + name # comment', 'for x in y', 'a $ b', 'x = y.z(w)', '%a b% + %c', '1 2 3', 'a\nb;c']


def pool(seed):
    rng = random.Random(f'{seed}/histpool')
    out = list(VALID) + list(INVALID) + list(RUNTIME) + list(STATEFUL) + list(CALLSITES)
    g = proggen.ProgGen(rng, maxdepth=3, hostfns=False, rand_ok=True, regex_ok=False)
    for _ in range(60):
        g.vars = {'x': proggen.T_NUM, 'y': proggen.T_LNUM, 'd': proggen.T_DICT}
        out.append(g.statement())
    return out


def fresh_table(texts):
    """{text: table entry} answered by a brand-new SqParser per text (computed in the worker pool)"""
    import corr
    ts = list(dict.fromkeys(texts))
    ents = corr.run_impl(['FRESH ' + hx(t) for t in ts])
    return dict(zip(ts, ents))


def with_table(line, calls, table):
    need = []
    for c in calls:
        if c[0] == 'parse':
            need.append(c[1])
        elif c[0] == 'eval':
            need.append(c[1].rstrip())
    return line + ' (parses ' + ' '.join(table[t] for t in dict.fromkeys(need) if t in table) + ')'


def near_dups(t):
    """texts a too-clever cache key could confuse with `t`: other amounts / kinds of blanks (also INSIDE string literals and
    %...% names, where they are significant), other letter case, other quotes, leading blanks / newlines, a trailing comment"""
    r = t.rstrip()
    return [t, t, r + ' ', r + '\n', r, ' ' + t, '\n' + t, t.replace(' ', '  '), t.replace('  ', ' '), t.replace(' ', '\t'),
            t.replace('\t', ' '), t.lower(), t.upper(), t.replace('"', "'"), r + ' # c', r + ';', t.replace(' ', '')]


def scope_script(rng, nmaps):
    """a lambda stored in a names mapping by one eval, a builtin name it uses (re)bound in that mapping by a LATER eval, the
    stored lambda called again: names resolve at call time in the mapping of the call (dynamic scoping), whatever an
    earlier evaluation resolved them to"""
    B = rng.choice(['len', 'str', 'sum', 'max', 'abs', 'sorted', 'keys'])
    arg = {'len': '[1, 2]', 'str': '5', 'sum': '[1, 2]', 'max': '[1, 5]', 'abs': '0 - 3', 'sorted': '[2, 1]', 'keys': '{"a": 1}'}[B]
    m = rng.randrange(nmaps)
    ev = lambda t, mm=None: ('eval', t, m if mm is None else mm, 'default', rng.randrange(1, 2 ** 31))
    calls = [ev(rng.choice([f'fz = v => {B}(v); fz({arg})', f'fz = v => {B}(v)', f'fz = v => [{B}(v), {B}(v)]; {B}({arg})',
                            f'gz = w => {B}; fz = v => apply(gz(0), v); fz({arg})', f'fz = v => try_apply({B}, v); fz({arg})']))]
    if rng.random() < 0.5:
        calls.append(ev(f'{B}({arg})'))
    if nmaps > 1 and rng.random() < 0.4:
        calls.append(ev(f'{B} = v => 11', (m + 1) % nmaps))
    calls.append(ev(rng.choice([f'{B} = v => 77', f'{B} = 5', f'{B} = fz', f'{B} = v => [v]', f'x9 = 1; {B} = v => x9'])))
    for _ in range(rng.randint(1, 3)):
        calls.append(ev(rng.choice([f'fz({arg})', f'{B}({arg})', f'map([{arg}], fz)', f'[fz({arg}), {B}({arg})]', f'try_apply(fz, {arg})'])))
    return calls


def history(rng, texts, cache, evals_only=False, script=None):
    he = proggen.HostEnv(rng)
    nmaps = rng.randint(1, 3)
    maps = []
    for i in range(nmaps):
        he2 = he
        ent = []
        idx = he.n
        he.n += 1
        if rng.random() < 0.7:
            ent.append(f'(S:{hx("x")} {he.num()})')
        if rng.random() < 0.7:
            ent.append(f'(S:{hx("y")} {he.lnum()})')
        if rng.random() < 0.5:
            ent.append(f'(S:{hx("d")} {he.dict_()})')
        if rng.random() < 0.5:
            # host bindings shadowing builtins (a cached tree must not remember the builtin)
            ent.append(f'(S:{hx(rng.choice(["len", "sum", "max", "str", "list"]))} {rng.choice([he.num(), "B:min", "B:len", "B:str"])})')
        maps.append(f'(M {idx} ' + ' '.join(ent) + ')')
    calls = []
    for _ in range(rng.randint(2, 12 if cache is not None else 10)):
        k = rng.randrange(10)
        t = rng.choice(texts)
        if rng.random() < (0.25 if cache in (None, 'none') else 0.4) and calls:
            # repeat / near-duplicate of an earlier source
            prev = [c for c in calls if c[0] in ('parse', 'eval')]
            if prev:
                t = rng.choice(prev)[1]
                t = rng.choice(near_dups(t))
        if rng.random() < 0.2:
            # a call site of a builtin that one of the mappings may rebind
            t = rng.choice(CALLSITES)
        if evals_only:
            k = 9
        if k <= 1:
            calls.append(('parse', t))
        elif k == 2:
            prev = [c[1] for c in calls if c[0] in ('parse', 'eval')]
            calls.append(('names', rng.choice(NAMESRC + [t] + prev * 3), rng.choice(['all', 'all', 'all', '0', '1', '2'])))
        elif k == 3 and nmaps:
            calls.append(('hostpush', rng.randrange(nmaps), 'y', he.num()))
        else:
            calls.append(('eval', t, rng.randrange(nmaps) if rng.random() < 0.8 else 'none', rng.choice(['default', 'default', 30, 12, 1000, 5]), rng.randrange(1, 2 ** 31)))
    if script is not None:
        calls = script(rng, nmaps)
    def enc(c):
        if c[0] == 'parse':
            return f'(parse {hx(c[1])})'
        if c[0] == 'names':
            return f'(names {hx(c[1])} {c[2]})'
        if c[0] == 'hostpush':
            return f'(hostpush {c[1]} {hx(c[2])} {c[3]})'
        return f'(eval {hx(c[1])} {c[2]} {c[3]} {c[4]})'
    line = f'SESSION (cache {cache}) (heap (U {" ".join(maps)})) (calls {" ".join(enc(c) for c in calls)})'
    return line, calls
