"""Worker-side code of the model-free property monitors (DESIGN.md §4.1).  Each `mon_<name>(im, payload)` runs the REAL
implementation on one case and returns {'fail': [ {signature, what, input} ... ], 'nontrivial': bool}.  Nothing here
consults the Lean model."""
import copy, decimal, json, re, sys, time
import sqimpl, evalimpl
from sqimpl import hx, unhx

D = decimal.Decimal


_DIRT = [('parse', 'zq1 = zq2 +\nzq3 )'), ('parse', '[1, (2, {3: '), ('names', 'zf(za, [zb, zc])', 3), ('eval', 'zl = [1, 2]; zl.push(3); zl[9]'),
         ('eval', 'zg = n => zg(n + 1); zg(0)', 50), ('eval', 'zx = [1,\n2 3]'), ('eval', '[1 / 0, '), ('parse', 'za = 1\n\nzb = 2 zc'),
         ('names', 'za\n$\nzb', 9), ('eval', 'zm = {"k": [1]}; push(zm["k"], 2); zm["q"]'), ('names', 'zh(zi(zj(zk', 2), ('eval', 'map([1, 2, 3], zv => zv / (zv - 2))')]
_kept = []


def _dirty(im, k):
    """a payload marked `dirty` runs on a parser that has just been through a few earlier calls of the nasty kinds (rejected on a
    later line, rejected with brackets open, generators abandoned midway, evaluations that raise midway or hit the budget
    inside nested calls) - none of which may matter for any later call (property C11), so every monitor's own property is
    also examined on a used parser"""
    for j in range(3):
        d = _DIRT[(k * 5 + j * 7) % len(_DIRT)]
        try:
            if d[0] == 'parse':
                im.p.parse(d[1])
            elif d[0] == 'names':
                it = iter(im.p.list_names(d[1]))
                _kept.append(it)
                del _kept[:-50]
                for _ in range(d[2]):
                    next(it)
            else:
                im.p.eval(d[1], {}, max_ops_evaluated=d[2] if len(d) > 2 else 200)
        except RecursionError:
            pass
        except Exception:
            pass


def answer(im, rest):
    name, _, payload = rest.partition(' ')
    fn = globals()['mon_' + name]
    try:
        pl = json.loads(payload)
        if isinstance(pl, dict) and 'dirty' in pl:
            _dirty(im, pl['dirty'])
        r = fn(im, pl)
    except RecursionError:
        r = {'fail': [], 'nontrivial': False, 'skipped': 'RecursionError'}
    return json.dumps(r, default=str)


# ------------------------------------------------------------------ helpers
class EvalTrace:
    """wrap every Op subclass' eval from outside: count entries, record (node, result) pairs"""

    def __init__(self, ns, on_return=None):
        self.ns = ns
        self.entries = 0
        self.on_return = on_return
        self.saved = []

    def __enter__(self):
        A = self.ns.ast_ops
        tr = self
        for name in dir(A):
            cls = getattr(A, name)
            if isinstance(cls, type) and issubclass(cls, A.Op) and cls is not A.Op and 'eval' in cls.__dict__:
                orig = cls.__dict__['eval']
                self.saved.append((cls, orig))

                def make(orig, cls):
                    def ev(self_, state):
                        tr.entries += 1
                        r = orig(self_, state)
                        if tr.on_return:
                            tr.on_return(self_, r, state)
                        return r
                    return ev
                cls.eval = make(orig, cls)
        # NoOp inherits Op.eval: count it through the base class too
        base = A.Op.__dict__['eval']
        self.saved.append((A.Op, base))

        def base_ev(self_, state, _b=base):
            if type(self_) is A.NoOp:
                tr.entries += 1
            return _b(self_, state)
        A.Op.eval = base_ev
        return self

    def __exit__(self, *a):
        for cls, orig in self.saved:
            cls.eval = orig


def run_eval_line(im, line, **kw):
    es = evalimpl.sread(line.split(' ', 1)[1])
    return es, evalimpl.run_eval(im, es)


def walk(v, f, seen=None):
    seen = set() if seen is None else seen
    if isinstance(v, (list, dict, tuple)):
        if id(v) in seen:
            return
        seen.add(id(v))
    f(v)
    if isinstance(v, (list, tuple)):
        for x in v:
            walk(x, f, seen)
    elif isinstance(v, dict):
        for k, x in v.items():
            walk(k, f, seen)
            walk(x, f, seen)


def digits_of(x):
    if isinstance(x, bool):
        return 1
    if isinstance(x, int):
        return len(str(abs(x))) if abs(x) < 10 ** 4000 else 4001
    if isinstance(x, decimal.Decimal):
        t = x.as_tuple()
        return len(t.digits) if isinstance(t.exponent, int) else 0
    if isinstance(x, float):
        if x != x or x in (float('inf'), float('-inf')):
            return 0
        return len(D(x).as_tuple().digits)
    return None


# ------------------------------------------------------------------ C01
def mon_c01(im, p):
    """independent count of node-evaluation entries vs the budget; monotonicity; effect-prefix; cross-eval closures"""
    ns = im.ns
    fails = []
    line = p['line']
    src_text = unhx(evalimpl.field(evalimpl.sread(line.split(' ', 1)[1]), 'src')[0])
    uses_try = 'try_apply' in src_text or 'try_apply' in line.split('(astfns')[-1]
    N = p['budget']

    def run(budget):
        l = re.sub(r'\(budget \w+\)', f'(budget {budget})', line)
        with EvalTrace(ns) as tr:
            es, (out, extra, info) = run_eval_line(im, l)
        return out, tr.entries, info
    out, entries, info = run(N)
    if info is None or out.startswith('X '):
        return {'fail': [], 'nontrivial': False}
    head = out.split(' ;;')[0]
    log = out.split(';; log')[1] if ';; log' in out else ''
    if not uses_try:
        if head.startswith('ok') and not entries < N:
            fails.append({'signature': 'budget:normal-return-at-or-over-N', 'what': f'returned normally after {entries} operations with N={N}', 'input': p})
        if entries > N:
            fails.append({'signature': 'budget:more-than-N-started', 'what': f'{entries} operations started with N={N}', 'input': p})
        if head == 'err opslimit' and entries != N:
            fails.append({'signature': 'budget:limit-not-at-N', 'what': f'ops-limit error after {entries} operations, N={N}', 'input': p})
        if not head.startswith('ok') and head != 'err opslimit' and entries >= N and not head.startswith('err'):
            pass
    # monotone in N, effects of the aborted run are a prefix of the unbounded run
    big, e2, info2 = run(max(10 * N, 100000))
    if info2 is not None and not big.startswith('X '):
        if head.startswith('ok') and big != out and not uses_try and 'rand' not in src_text:
            fails.append({'signature': 'budget:not-monotone', 'what': f'N={N}: {out[:200]} | large N: {big[:200]}', 'input': p})
        if head == 'err opslimit' and not uses_try:
            lb = big.split(';; log')[1] if ';; log' in big else ''
            if not lb.startswith(log.rstrip()):
                fails.append({'signature': 'budget:effects-not-prefix', 'what': f'aborted log {log[:150]} | unbounded log {lb[:150]}', 'input': p})
    return {'fail': fails, 'nontrivial': head == 'err opslimit'}


def mon_c01_late(im, p):
    """host iterables that are not lists or dicts (tuples, sets, ranges, dict views, generators, strings) handed to the builtins
    that call a lambda per element: when eval returns, the evaluation is OVER - consuming the result starts no further operation -
    and the operations started during the call obey the budget"""
    ns = im.ns
    fails = []
    mk = {'tuple': lambda: (1, 2, 3, 4, 5, 6), 'set': lambda: {1, 2, 3, 4, 5, 6}, 'range': lambda: range(1, 7), 'keys': lambda: {1: 'a', 2: 'b', 3: 'c'}.keys(),
          'values': lambda: {'a': 1, 'b': 2, 'c': 3}.values(), 'items': lambda: {'a': 1, 'b': 2}.items(), 'gen': lambda: (i for i in range(1, 7)),
          'frozenset': lambda: frozenset([1, 2, 3, 4]), 'str': lambda: 'abcdef', 'iter': lambda: iter([1, 2, 3, 4, 5, 6]), 'list': lambda: [1, 2, 3, 4, 5, 6]}
    for kind in p['kinds']:
        for N in p['budgets']:
            names = {'t': mk[kind]()}
            res, outcome = None, 'ok'
            with EvalTrace(ns) as tr:
                try:
                    res = im.p.eval(p['src'], names, max_ops_evaluated=N)
                except ns.exc.ParserError as e:
                    outcome = type(e).__name__
                except Exception as e:
                    outcome = type(e).__name__
                during = tr.entries
                # the host now reads the result (and whatever the program left in the names mapping)
                late_err = None
                try:
                    for v in [res] + [names[k] for k in names if k != 't']:
                        if hasattr(v, '__next__') or type(v).__name__ in ('map', 'filter', 'zip', 'generator', 'reversed', 'enumerate'):
                            list(v)
                        elif isinstance(v, (list, tuple)):
                            for x in v:
                                if hasattr(x, '__next__'):
                                    list(x)
                except Exception as e:
                    late_err = type(e).__name__
                after = tr.entries - during
            if after > 0 or late_err == 'OpsExecutionLimitExceededError':
                fails.append({'signature': 'evaluation-continues-after-return', 'what': f'{p["src"]!r} with t = a {kind}, N={N}: eval returned ({outcome}) after {during} '
                              f'operations, and reading its result started {after} more' + (f' and raised {late_err}' if late_err else ''), 'input': dict(p, kinds=[kind], budgets=[N])})
                break
            if during > N or (outcome == 'ok' and during >= N):
                fails.append({'signature': 'budget:over-N-with-host-iterable', 'what': f'{p["src"]!r} with t = a {kind}: {during} operations started with N={N} ({outcome})',
                              'input': dict(p, kinds=[kind], budgets=[N])})
                break
    return {'fail': fails, 'nontrivial': True}


def mon_c01_cross(im, p):
    """a lambda defined by an earlier eval and invoked by a later one with budget N (D9)"""
    ns = im.ns
    names = {}
    im.p.eval(p['define'], names, max_ops_evaluated=100000)
    fails = []
    with EvalTrace(ns) as tr:
        try:
            im.p.eval(p['call'], names, max_ops_evaluated=p['N'])
            outcome = 'ok'
        except ns.exc.ParserError as e:
            outcome = type(e).__name__
        except Exception as e:
            outcome = type(e).__name__
    if tr.entries > p['N'] or (outcome == 'ok' and tr.entries >= p['N']):
        fails.append({'signature': 'D9:cross-eval-closure', 'what': f'{tr.entries} operations started by eval({p["call"]!r}, N={p["N"]}) -> {outcome}', 'input': p})
    return {'fail': fails, 'nontrivial': True}


# ------------------------------------------------------------------ C02
PLAIN = (type(None), bool, int, float, str, decimal.Decimal)
_audit = {'on': False, 'events': []}
_audit_installed = False
BAD_EVENTS = ('open', 'os.', 'subprocess.', 'socket.', 'import', 'exec', 'compile', 'ctypes.', 'shutil.', 'pty.', 'marshal.', 'urllib.')


def _install_audit():
    global _audit_installed
    if not _audit_installed:
        def hook(ev, args):
            if _audit['on'] and ev.startswith(BAD_EVENTS):
                _audit['events'].append(ev)
        sys.addaudithook(hook)
        _audit_installed = True


def mon_c02(im, p):
    ns = im.ns
    _install_audit()
    fails = []
    seen_types = []
    host_ids = set()

    def check(v):
        if isinstance(v, PLAIN) or isinstance(v, (list, dict, tuple, slice)):
            return
        if callable(v) and (id(v) in fn_ids or getattr(v, '__qualname__', '') == 'LambdaOp.eval.<locals>.f' or id(v) in host_ids):
            return
        seen_types.append(type(v).__name__)
        seen_objs.append(v)
    seen_objs = []
    fn_ids = {id(f) for f in ns.functions.FUNCTIONS.values()}

    def on_ret(node, r, state):
        walk(r, check)
    es = evalimpl.sread(p['line'].split(' ', 1)[1])
    with EvalTrace(ns, on_ret):
        _audit['events'].clear()
        _audit['on'] = True
        try:
            out, extra, info = evalimpl.run_eval(im, es)
        finally:
            _audit['on'] = False
    if info is None:
        return {'fail': [], 'nontrivial': False}
    host_ids.update(info['host'].ids)
    # what node evaluations returned DURING the run (e.g. a lambda parameter read inside a callback) counts too; host
    # functions are recognised only now (their ids are known after the run)
    during = [o for o in seen_objs if not (callable(o) and id(o) in host_ids)]
    seen_types[:] = [type(o).__name__ for o in during]
    walk(info.get('result'), check)
    walk(info['names'], check)
    # second pass over node results happened during eval with host_ids empty: filter host functions now
    src = unhx(evalimpl.field(es, 'src')[0])
    for t in sorted(set(seen_types)):
        sig = 'D15:dict-subscript' if t == 'GenericAlias' else 'nonplain:' + t
        fails.append({'signature': sig, 'what': f'a {t} object is reachable from the result / names of {src[:120]!r}', 'input': p})
    if _audit['events']:
        fails.append({'signature': 'audit:' + _audit['events'][0], 'what': f'audit events during eval: {sorted(set(_audit["events"]))[:6]}', 'input': p})
    return {'fail': fails, 'nontrivial': out.startswith('ok')}


def mon_c01_scen(im, p):
    """budget scenarios with an exact, model-free oracle: the number of node evaluations a program needs is measured once
    without a limit (K); with budget N < K it must raise the ops-limit error, with N > K it must succeed identically -
    also when the SAME ast_names LambdaOp objects / the same parser have been used before, when the limit strikes inside a
    callback of filter / map / sorted / reduce / try-less builtins, and when a host callable re-enters eval"""
    ns = im.ns
    A = ns.ast_ops
    OL = ns.exc.OpsExecutionLimitExceededError
    fails = []
    for sc in p['scenarios']:
        parser = sqimpl.Impl(ns).p
        ast_names = None
        if sc.get('astfns'):
            ast_names = {n: A.LambdaOp(args=[A.NameOp(q) for q in ps], expr=parser.parse(body)) for n, ps, body in sc['astfns']}

        def run(N, reps=1):
            outs = []
            for _ in range(reps):
                names = dict(evalimpl.Host({}).fns)
                names.update({k: D(v) if not isinstance(v, list) else [D(x) for x in v] for k, v in sc.get('names', {}).items()})
                if sc.get('reenter'):
                    names['sub'] = lambda src, _p=parser: _p.eval(src, {})
                kw = {'ast_names': ast_names} if ast_names is not None else {}
                try:
                    outs.append(('ok', str(parser.eval(sc['src'], names, max_ops_evaluated=N, **kw))))
                except OL:
                    outs.append(('opslimit', ''))
                except Exception as e:
                    outs.append((type(e).__name__, ''))
            return outs
        # an independent count of the node evaluations the program starts (every Op.eval entry, from outside), on a parser
        # and ast objects of its own: the program completes iff N > count
        p0 = sqimpl.Impl(ns).p
        an0 = None
        if sc.get('astfns'):
            an0 = {n: A.LambdaOp(args=[A.NameOp(q) for q in ps], expr=p0.parse(body)) for n, ps, body in sc['astfns']}
        names0 = dict(evalimpl.Host({}).fns)
        names0.update({k: D(v) if not isinstance(v, list) else [D(x) for x in v] for k, v in sc.get('names', {}).items()})
        if sc.get('reenter'):
            # for COUNTING the outer program's nodes the helper is plain Python (its answers precomputed on another parser)
            pre = {}
            for m in re.finditer(r'sub\("([^"]*)"\)', sc['src']):
                try:
                    pre[m.group(1)] = sqimpl.Impl(ns).p.eval(m.group(1), {})
                except Exception:
                    pre[m.group(1)] = None
            names0['sub'] = lambda src, _pre=pre: _pre.get(src)
        count = None
        with EvalTrace(ns) as tr:
            try:
                p0.eval(sc['src'], names0, max_ops_evaluated=10 ** 6, **({'ast_names': an0} if an0 is not None else {}))
                count = tr.entries
            except Exception:
                pass
        big = run(10 ** 6)[0]
        # K: smallest budget at which the program completes (found by bisection on a fresh parser each time is costly:
        # the same parser is the point of the scenario)
        lo, hi = 1, 4000
        if run(hi)[0] != big:
            continue
        while lo < hi:
            mid = (lo + hi) // 2
            if run(mid)[0] == big:
                hi = mid
            else:
                lo = mid + 1
        K = lo
        why = None
        if count is not None and K != count + 1:
            why = f'the program starts {count} node evaluations, so it needs budget {count + 1}; on a parser used before it completes from N={K} on'
        for N in sorted({max(1, K // 3), max(1, K // 2), K - 2, K - 1}):
            if N < 1 or N >= K:
                continue
            for o in run(N, reps=2):
                if o[0] != 'opslimit':
                    why = f'needs budget {K}; with N={N} the outcome is {o} instead of the ops-limit error'
        for N in (K, K + 1, 2 * K):
            for o in run(N, reps=3):
                if o != big:
                    why = why or f'needs budget {K}; with N={N} (repeated on the same parser) the outcome is {o}, unbounded run gives {big}'
        if why:
            fails.append({'signature': 'budget-not-exact', 'what': f'{sc["src"]!r}: {why}', 'input': sc})
    return {'fail': fails, 'nontrivial': True}


def mon_c02_process(im, p):
    """the same audit, in a pristine interpreter (forked from a process that imported the library and never evaluated
    anything): whatever an evaluation defers to its first use - an import, a table load, a compile - shows here"""
    ans = _zygote_ask({'kind': 'audit', 'srcs': p['srcs']})
    if ans.startswith('ZYGOTE'):
        return {'fail': [], 'nontrivial': False, 'zygote': ans}
    fails = []
    for src, evs in zip(p['srcs'], json.loads(ans)):
        if evs:
            fails.append({'signature': 'audit-pristine:' + evs[0], 'what': f'in a pristine interpreter, evaluating {src!r} raised audit events {evs[:6]}',
                          'input': {'src': src}})
            break
    return {'fail': fails, 'nontrivial': True}


# ------------------------------------------------------------------ C03
def mon_c03(im, p):
    ns = im.ns
    es = evalimpl.sread(p['line'].split(' ', 1)[1])
    src = unhx(evalimpl.field(es, 'src')[0])
    host = evalimpl.Host({})
    names0 = evalimpl.Reader(ns, host).val(evalimpl.field(es, 'names')[0])
    B = [10000]

    def mx(v):
        if isinstance(v, (list, dict, str, tuple)):
            B[0] = max(B[0], len(v))
    walk(names0, mx)
    try:
        t = im.p.parse(src.rstrip())
    except Exception:
        return {'fail': [], 'nontrivial': False}

    def lit(op):
        for f in getattr(op, '__dataclass_fields__', {}):
            v = getattr(op, f)
            if isinstance(v, ns.ast_ops.Op):
                lit(v)
            elif isinstance(v, str):
                B[0] = max(B[0], len(v))
            elif isinstance(v, list):
                B[0] = max(B[0], len(v))
                for x in v:
                    if isinstance(x, ns.ast_ops.Op):
                        lit(x)
                    elif isinstance(x, tuple):
                        for y in x:
                            if isinstance(y, ns.ast_ops.Op):
                                lit(y)
    if t is not None:
        lit(t)
    fails, sites, seen_big, maxlen = [], [], set(), [0]
    A = ns.ast_ops

    def on_ret(node, r, state):
        # the FIRST node that returns an over-long container is the one that built it (inner nodes return first)
        if isinstance(r, (list, dict)) and len(r) > B[0] and id(r) not in seen_big:
            seen_big.add(id(r))
            maxlen[0] = max(maxlen[0], len(r))
            if isinstance(node, A.BinOp) and node.op == '+':
                sites.append('D10:list-concat')
            elif isinstance(node, A.ShortOp):
                sites.append('D10:list-concat' if node.op == '+=' else 'short:' + node.op)
            elif isinstance(node, A.CallOp):
                sites.append('call:' + node.name)
            elif isinstance(node, A.DictOp):
                sites.append('dict-literal')
            # other node kinds (names, code, if-else, …) only pass on or copy a container built elsewhere
    with EvalTrace(ns, on_ret):
        out, extra, info = evalimpl.run_eval(im, es)
    if info is None:
        return {'fail': [], 'nontrivial': False}

    def chk(v):
        if isinstance(v, (list, dict)) and len(v) > B[0] and id(v) not in seen_big and not sites:
            seen_big.add(id(v))
            maxlen[0] = max(maxlen[0], len(v))
            # grown in place (`x += x` on a name, compound index assignment): attribute by the source text
            sites.append('D10:list-concat' if '+=' in src else 'short:*=' if '*=' in src else 'unattributed')
    walk(info.get('result'), chk)
    walk(info['names'], chk)
    STR2LIST = ('map', 'enumerate', 'sorted', 'match_all', 'split', 'reversed', 'list', 'shuffle', 'match_groups')
    for s_ in sorted(set(sites)):
        sig = s_
        if s_.startswith('call:'):
            nm = s_[5:]
            sig = ('D11:str-to-list:' + nm) if nm in STR2LIST else ('D10:list-concat' if nm in ('sum', 'reduce') else 'over-cap:' + nm)
        fails.append({'signature': sig, 'what': f'a container of {maxlen[0]} elements exceeds the bound {B[0]} in {src[:100]!r}', 'input': p})
    return {'fail': fails, 'nontrivial': out.startswith('ok') or out.startswith('err parser')}


def _strs(info):
    out = []
    walk(info['names'], lambda v: out.append(v) if isinstance(v, str) else None)
    return out


def mon_c03_adders(im, p):
    """every element-adding form on containers of 9998..10001 elements: never longer than max(10000, start length)
    afterwards; the valid adders on a container that already holds >= 10000 fail with ParserError and change nothing"""
    ns = im.ns
    fails = []
    import collections

    class _L(list):
        pass

    class _D(dict):
        pass
    makers = {'list': lambda n: list(range(n)), 'dict': lambda n: {str(i): i for i in range(n)},
              'list-subclass': lambda n: _L(range(n)), 'dict-subclass': lambda n: _D((str(i), i) for i in range(n)),
              'OrderedDict': lambda n: collections.OrderedDict((str(i), i) for i in range(n)),
              'defaultdict': lambda n: collections.defaultdict(int, ((str(i), i) for i in range(n))),
              'dict-intkeys': lambda n: {i: i for i in range(n)}, 'dict-boolkeys': lambda n: {(i if i > 1 else bool(i)): i for i in range(n)},
              'dict-of-lists': lambda n: {str(i): [i] for i in range(n)}, 'list-of-lists': lambda n: [[i] for i in range(n)]}
    for n in (9998, 9999, 10000, 10001):
        for kind0 in ('list', 'dict', 'list-subclass', 'dict-subclass', 'OrderedDict', 'defaultdict', 'dict-of-lists', 'list-of-lists',
                      'dict-intkeys', 'dict-boolkeys'):
            if kind0 not in ('list', 'dict') and n not in (10000, 10001):
                continue
            kind = 'list' if kind0.startswith('list') else 'dict'
            for stmt, valid_on in p['stmts']:
                if kind0 == 'defaultdict' and 'c["fresh"][' in stmt:
                    continue      # READING a missing key of a host defaultdict runs the host's own __missing__ (which inserts)
                if ('[3]' in stmt) != kind0.endswith('-of-lists'):
                    continue      # the statements that extend an ELEMENT run on containers of lists only (and only they do)
                c = makers[kind0](n)
                snap = copy.deepcopy(c) if kind0.endswith('-of-lists') else copy.copy(c)
                try:
                    im.p.eval(stmt, dict(evalimpl.Host({}).fns, c=c), max_ops_evaluated=1000)
                    outcome = 'ok'
                except ns.exc.ParserError:
                    outcome = 'ParserError'
                except Exception as e:
                    outcome = type(e).__name__
                if len(c) > max(10000, n):
                    fails.append({'signature': 'adder-over-cap:' + stmt, 'what': f'{stmt!r} on a {kind0} of {n} elements left {len(c)} elements ({outcome})',
                                  'input': {'stmt': stmt, 'kind': kind0, 'n': n}})
                elif n >= 10000 and kind in valid_on and (outcome != 'ParserError' or c != snap):
                    fails.append({'signature': 'adder-at-cap:' + stmt, 'what': f'{stmt!r} on a {kind0} of {n}: outcome {outcome}, changed={c != snap}',
                                  'input': {'stmt': stmt, 'kind': kind0, 'n': n}})
    return {'fail': fails, 'nontrivial': True}


# ------------------------------------------------------------------ C04
NUMERIC_BUILTINS = ('int', 'float', 'round', 'floor', 'ceil', 'abs', 'sum', 'min', 'max')


def mon_c04(im, p):
    ns = im.ns
    A = ns.ast_ops
    if 'poison_seq' in p:
        # a failing evaluation first, arithmetic afterwards on the same parser AND on a new one: whatever the failure left
        # behind at thread / module level (decimal context, caches), later results still have at most 28 digits
        fails = []
        for fresh in (False, True):
            imx = sqimpl.Impl(ns)
            for j, src in enumerate(p['poison_seq']):
                if fresh and j:
                    imx = sqimpl.Impl(ns)
                try:
                    r = imx.p.eval(src, {'a': D(10) ** 20 + 1})
                except Exception:
                    continue
                vals = []
                walk(r, lambda x: vals.append(x))
                for x in vals:
                    if isinstance(x, decimal.Decimal) and digits_of(x) > 28:
                        fails.append({'signature': 'digits-after-failure', 'what': f'{src!r} evaluated after {p["poison_seq"][:j]!r} returned '
                                      f'{digits_of(x)} significant digits', 'input': p})
                        break
                if fails:
                    break
            if fails:
                break
        # leave the thread's context as it was found: the next payload must not inherit it
        decimal.getcontext().prec = 28
        return {'fail': fails, 'nontrivial': True}
    if 'typed_seq' in p:
        # the SAME source evaluated again and again by one caching parser (and the same lambda applied again inside one evaluation)
        # with operands of other host types each time: whatever a node remembers about the operands it saw first, every
        # result of * / ** / *= is a Decimal of at most 28 digits or the evaluation fails, and no string or list is repeated
        fails = []
        HV = {'i3': 3, 'big': 10 ** 30, 's': 'ab', 'l': [1, 2], 'd2': D(2), 'd3': D(3), 'f': 2.5, 't': True, 'bigd': D(10) ** 30 + 1}
        imc = sqimpl.Impl(ns, parse_cache={})
        for j, (src, binds) in enumerate(p['typed_seq']):
            names = {k: copy.deepcopy(HV[v]) for k, v in binds.items()}
            try:
                r = imc.p.eval(src, names, max_ops_evaluated=1000)
            except Exception:
                continue
            vals = [r] + [names[k] for k in sorted(names)]
            for x in vals:
                bad = None
                if isinstance(x, (str, list)) and x and x in ('ab' * 3, 'ab' * 2, [1, 2] * 3, [1, 2] * 2):
                    bad = f'repeated a {type(x).__name__}'
                elif isinstance(x, int) and not isinstance(x, bool) and x > 10 ** 31:
                    bad = f'returned a Python int of {digits_of(x)} digits'
                elif isinstance(x, decimal.Decimal) and digits_of(x) > 28 and x != HV['bigd']:
                    bad = f'returned {digits_of(x)} significant digits'
                elif isinstance(x, list):
                    for y in x:
                        if isinstance(y, (str, list)) and y in ('ab' * 3, 'ab' * 2, [1, 2] * 3, [1, 2] * 2):
                            bad = f'repeated a {type(y).__name__}'
                        elif isinstance(y, int) and not isinstance(y, bool) and y > 10 ** 31:
                            bad = f'returned a Python int of {digits_of(y)} digits'
                        elif isinstance(y, decimal.Decimal) and digits_of(y) > 28 and y != HV['bigd']:
                            bad = f'returned {digits_of(y)} significant digits'
                if bad:
                    fails.append({'signature': 'mul-after-other-types', 'what': f'call #{j} {src!r} with {binds!r} (after {p["typed_seq"][:j]!r} on '
                                  f'the same caching parser) {bad}', 'input': p})
                    break
            if fails:
                break
        return {'fail': fails, 'nontrivial': True}
    if 'ctxprec' in p:
        # a parser CONSTRUCTED while the host's thread is temporarily at another decimal precision, used afterwards at the
        # default one: arithmetic stays in 28-digit decimals
        with decimal.localcontext() as c:
            c.prec = p['ctxprec']
            imx = sqimpl.Impl(ns)
            imx.p.eval('1 / 3')
        fails = []
        for src in p['srcs']:
            try:
                r = imx.p.eval(src, {'a': D(10) ** 20 + 1, 'b': D('0.1')})
            except Exception:
                continue
            vals = []
            walk(r, lambda x: vals.append(x) if isinstance(x, (D, int)) and not isinstance(x, bool) else None)
            for x in vals:
                if digits_of(x) is not None and digits_of(x) > 28:
                    fails.append({'signature': 'digits-after-context-change', 'what': f'{src!r} evaluated by a parser constructed at '
                                  f'precision {p["ctxprec"]} returned {digits_of(x)} significant digits', 'input': p})
                    break
            if fails:
                break
        return {'fail': fails, 'nontrivial': True}
    es = evalimpl.sread(p['line'].split(' ', 1)[1])
    src = unhx(evalimpl.field(es, 'src')[0])
    fails = []
    pending = {}

    def numeric_args(vals):
        out = []
        for v in vals:
            if isinstance(v, list):
                out += [digits_of(x) for x in v if digits_of(x) is not None]
            elif digits_of(v) is not None:
                out.append(digits_of(v))
        return out
    # wrap BinOp / CallOp / ShortOp specially to see operands
    saved = []

    def patch(cls, fn):
        saved.append((cls, cls.eval))
        cls.eval = fn
    orig_bin = A.BinOp.eval

    def bin_eval(self, state):
        r = orig_bin(self, state)
        if self.op in ('*', '**'):
            if not isinstance(r, decimal.Decimal):
                fails.append({'signature': 'mul-pow-not-decimal', 'what': f'{self.op} returned {type(r).__name__}', 'input': p})
            elif digits_of(r) > 28:
                fails.append({'signature': 'mul-pow-over-28', 'what': f'{self.op} returned {digits_of(r)} digits', 'input': p})
        elif self.op in ('+', '-', '/') and isinstance(r, decimal.Decimal) and r.is_finite() and digits_of(r) > 28:
            # a DECIMAL result of + - / is rounded by the context whatever the operands were (ints stay ints, floats stay floats)
            fails.append({'signature': 'arith-over-28', 'what': f'{self.op} returned a Decimal of {digits_of(r)} digits', 'input': p})
        return r
    orig_call = A.CallOp.eval

    def call_eval(self, state):
        if self.name not in NUMERIC_BUILTINS:
            return orig_call(self, state)
        args = [a.eval(state) for a in self.args]

        class Pre:
            def __init__(s, v):
                s.v = v

            def eval(s, state):
                return s.v
        fake = A.CallOp(self.name, [A.ValueOp(a) for a in args])
        # ValueOp.eval charges an op; undo the double charge is unnecessary for this monitor
        r = orig_call(fake, state)
        dr = digits_of(r)
        da = numeric_args(args)
        if dr is not None and da and not isinstance(r, bool):
            bound = max(28, 1 + max(da))
            if self.name == 'float' and args and isinstance(args[0], (int, decimal.Decimal, float, str)):
                pass
            elif dr > bound:
                hostints = any(isinstance(x, int) and not isinstance(x, bool) for a in args for x in (a if isinstance(a, list) else [a]))
                sig = ('D13:int-huge:' + self.name) if self.name in ('int', 'floor', 'ceil', 'round') else \
                      ('D16:sum-host-ints' if self.name == 'sum' and hostints else 'digits:' + self.name)
                fails.append({'signature': sig, 'what': f'{self.name} returned {dr} digits, widest numeric argument {max(da)}', 'input': p})
        return r
    orig_short = A.ShortOp.eval

    def short_eval(self, state):
        try:
            before = state.names[self.name]
        except Exception:
            before = None
        rhs = {}
        node = self.value

        class _Rec:
            def eval(s, st):
                rhs['v'] = node.eval(st)
                return rhs['v']
        try:
            object.__setattr__(self, 'value', _Rec())
            r = orig_short(self, state)
        finally:
            object.__setattr__(self, 'value', node)
        after = state.names[self.name]
        if self.op == '*=':
            if isinstance(after, (str, list)) and isinstance(before, (str, list)):
                # D12 is the NATIVE `*=` of a sequence by a host int; a sequence repeated by one of the language's own numbers
                # (a Decimal) is something else
                sig = 'D12:imul-native' if isinstance(rhs.get('v'), int) else 'imul-repeats-by-' + type(rhs.get('v')).__name__
                fails.append({'signature': sig, 'what': f'*= repeated a {type(before).__name__} ({type(rhs.get("v")).__name__} multiplier)', 'input': p})
            elif digits_of(after) is not None and not isinstance(after, decimal.Decimal):
                fails.append({'signature': 'D12:imul-native', 'what': f'*= returned a {type(after).__name__} of {digits_of(after)} digits', 'input': p})
            elif isinstance(after, decimal.Decimal) and digits_of(after) > 28:
                fails.append({'signature': 'imul-over-28', 'what': f'*= returned {digits_of(after)} digits', 'input': p})
        return r
    patch(A.BinOp, bin_eval)
    patch(A.CallOp, call_eval)
    patch(A.ShortOp, short_eval)
    orig_swo = ns.functions.FUNCTIONS['__setitem_with_op__']
    try:
        out, extra, info = evalimpl.run_eval(im, es)
    finally:
        for cls, fn in saved:
            cls.eval = fn
    if info is None:
        return {'fail': [], 'nontrivial': False}
    # compound INDEX assignment `c[k] *= v`: look at the stored values
    if '*=' in src and '[' in src:
        def chk(v):
            if isinstance(v, int) and not isinstance(v, bool) and digits_of(v) > 40:
                fails.append({'signature': 'D12:imul-native', 'what': f'index *= stored an int of {digits_of(v)} digits', 'input': p})
        walk(info['names'], chk)
    # de-duplicate
    uniq = {}
    for f in fails:
        uniq.setdefault(f['signature'], f)
    return {'fail': list(uniq.values()), 'nontrivial': out.startswith('ok')}


# ------------------------------------------------------------------ C05
def mon_c05(im, p):
    """wall-clock of one regex builtin call; separately the compile time of the same pattern"""
    ns = im.ns
    import regex as rx
    f = ns.functions.FUNCTIONS[p['fn']]
    subj = p['subject_expr']
    subject = eval(subj, {'__builtins__': {}}, {}) if isinstance(subj, str) and subj.startswith('(') else subj
    worst = 0.0
    for _ in range(p.get('repeat', 1)):
        rx.purge()
        t0 = time.perf_counter()
        try:
            f(subject, p['pattern'], *p.get('flags', []))
            outcome = 'ok'
        except Exception as e:
            outcome = type(e).__name__
        worst = max(worst, time.perf_counter() - t0)
    rx.purge()
    t0 = time.perf_counter()
    try:
        rx.compile(p['pattern'])
    except Exception:
        pass
    tc = time.perf_counter() - t0
    fails = []
    allowance = 0.5 + 0.05 + 2e-6 * (len(subject) + len(p['pattern']))
    if worst > max(1.0, allowance):
        sig = 'D14:compile-phase' if (tc > 0.3 * worst or tc > 1.0) else 'regex-slow:' + p['fn']
        fails.append({'signature': sig, 'what': f'{p["fn"]} took {worst:.2f}s (compile alone {tc:.2f}s), outcome {outcome}', 'input': p})
    return {'fail': fails, 'nontrivial': outcome == 'TimeoutError' or worst > 0.02, 'seconds': worst}


# ------------------------------------------------------------------ C06
def mon_c06(im, p):
    """grouping oracle computed from the live operator table: `a o1 b o2 c` must equal the parenthesisation the
    declared levels and associativity dictate (or be rejected for equal non-associative levels)"""
    ns = im.ns
    prec = {}
    for lvl, row in enumerate(ns.lexer.precedence, 1):
        for t in row[1:]:
            prec[t] = (lvl, row[0])
    optok = {'+': 'PLUS', '-': 'MINUS', '*': 'TIMES', '/': 'DIVIDE', '**': 'POWER', '==': 'EQ', '!=': 'NE', '>': 'GT', '<': 'LT',
             '>=': 'GTE', '<=': 'LTE', 'in': 'IN', 'not in': 'IN', 'and': 'AND', 'or': 'OR'}
    o1, o2 = p['o1'], p['o2']
    l1, a1 = prec[optok[o1]]
    l2, _ = prec[optok[o2]]
    src = f'a {o1} b {o2} c'
    got = im.parse_out(src)
    if l1 > l2 or (l1 == l2 and a1 == 'left'):
        exp = im.parse_out(f'(a {o1} b) {o2} c')
    elif l1 < l2 or a1 == 'right':
        exp = im.parse_out(f'a {o1} (b {o2} c)')
    else:
        exp = None       # equal non-associative level: must be rejected
    fails = []
    if exp is None:
        if got.startswith('ok'):
            sig = 'D7:not-in-lookahead' if 'not in' in (o1, o2) else f'nonassoc-accepted:{o1},{o2}'
            fails.append({'signature': sig, 'what': f'{src!r} accepted although both operators are non-associative at one level', 'input': p})
    elif got != exp:
        sig = 'D7:not-in-lookahead' if o2 == 'not in' else f'grouping:{o1},{o2}'
        fails.append({'signature': sig, 'what': f'{src!r} groups as {got[:160]} but the table dictates {exp[:160]}', 'input': p})
    return {'fail': fails, 'nontrivial': True}


def mon_c06_derivable(im, p):
    """texts the published grammar derives but the parser rejects (beyond precedence-resolved ambiguity)"""
    fails = []
    for src, sig in [('(a) => a', 'D8:paren-single-param'), ('f((a) => a)', 'D8:paren-single-param'),
                     ('{1: 2, 3: 4,}', 'D4:dict-trailing-comma'), ('x.f(a, b,)', 'D3:method-trailing-comma')]:
        out = im.parse_out(src)
        if not out.startswith('ok'):
            fails.append({'signature': sig, 'what': f'{src!r} is derivable from the grammar but rejected: {out[:80]}', 'input': {'src': src}})
    return {'fail': fails, 'nontrivial': True}


def mon_c06_chars(im, p):
    """characters outside the lexer's alphabet (oracle: the stdlib `re` classes, not the library): between tokens they make
    the text underivable - a lexical error; inside a string literal or a %...% name they are part of the value, verbatim"""
    ns = im.ns
    fails = []
    ascii_ok = set(' \t\r\n;()[]{}+-*/=<>!,.:|#%"\'')
    for cp in p['cps']:
        c = chr(cp)
        if c in ascii_ok or re.match(r'\w', c):
            continue
        for src in ('1' + c + '+' + c + '2', 'x' + c + '= 1', c + '1 + 2', '[1,' + c + '2]', 'a' + c + 'b', 'f(' + c + ')', '1 + 2' + c):
            try:
                t = im.p.parse(src)
                fails.append({'signature': 'alien-character-accepted', 'what': f'U+{cp:04X} between tokens: {src!r} is accepted as {sqimpl.tree(ns, t)[:80]}',
                              'input': {'src': src, 'cp': cp}})
                break
            except ns.exc.ParserError:
                pass
            except Exception as e:
                fails.append({'signature': 'not-parser-error:' + type(e).__name__, 'what': f'{src!r} raised {type(e).__name__}', 'input': {'src': src}})
                break
        if c in '\n\\':
            continue
        for q in ('"', "'"):
            lit = 'a' + c + 'b' + c
            try:
                t = im.p.parse(q + lit + q)
                out = sqimpl.tree(ns, t)
                if hx(lit) not in out:
                    fails.append({'signature': 'string-literal-altered', 'what': f'the literal {q}a U+{cp:04X} b U+{cp:04X}{q} parses to {out[:80]} '
                                  f'(expected the value {hx(lit)})', 'input': {'src': q + lit + q, 'cp': cp}})
                    break
            except Exception:
                pass
        if c not in '%\n':
            nm = '%a' + c + 'b%'
            try:
                t = im.p.parse(nm)
                out = sqimpl.tree(ns, t)
                if hx(nm) not in out and hx('a' + c + 'b') not in out:
                    fails.append({'signature': 'name-lexeme-altered', 'what': f'the name %a U+{cp:04X} b% parses to {out[:80]}', 'input': {'src': nm, 'cp': cp}})
            except Exception:
                pass
    return {'fail': fails[:5], 'nontrivial': True}


# ------------------------------------------------------------------ C08
def _round28(fr):
    """round a Fraction half-even to 28 significant digits, exactly"""
    from fractions import Fraction
    if fr == 0:
        return fr
    sign = -1 if fr < 0 else 1
    a = abs(fr)
    # find e with 10^(e) <= a < 10^(e+1)
    e = len(str(a.numerator)) - len(str(a.denominator))
    while Fraction(10) ** e > a:
        e -= 1
    while Fraction(10) ** (e + 1) <= a:
        e += 1
    scale = Fraction(10) ** (27 - e)
    q = a * scale
    n = q.numerator // q.denominator
    rem = q - n
    if rem > Fraction(1, 2) or (rem == Fraction(1, 2) and n % 2 == 1):
        n += 1
    return sign * Fraction(n) / scale


C08_TIES = ['10000000000000000000000000001 / 2', '10000000000000000000000000003 / 2', '5 * 0.10000000000000000000000000001',
            '1 / 3', '2 / 3', '0.5 + 10000000000000000000000000000', '1.5 * 10000000000000000000000000001', '-(10000000000000000000000000001 / 2)',
            '20000000000000000000000000001 / 2 - 1', '(1 / 7) * 7']


def mon_c08(im, p):
    """exact-rational oracle for + - * / unary minus and comparisons over decimal literals"""
    from fractions import Fraction
    if 'after' in p:
        # evaluations first - of any outcome: calls of every table entry with missing, surplus and ill-typed arguments - and the
        # oracle afterwards: whatever an evaluation leaves behind at thread level (the decimal context: precision, ROUNDING
        # MODE, traps), the arithmetic of later evaluations is still exact / half-even at 28 digits
        fails = []
        try:
            for pre in p['after']:
                try:
                    im.p.eval(pre, {}, max_ops_evaluated=2000)
                except Exception:
                    pass
                for src in C08_TIES[:3]:
                    r = mon_c08(im, {'src': src})
                    if r['fail']:
                        f = r['fail'][0]
                        fails.append({'signature': 'decimal-inexact-after:' + pre.split('(')[0], 'what': f'after evaluating {pre!r}: ' + f['what'],
                                      'input': {'after': [pre], 'src': src}})
                        break
                if fails:
                    break
        finally:
            # leave the thread's context as a fresh interpreter has it: the next payload must not inherit anything
            decimal.setcontext(decimal.Context(prec=28, rounding=decimal.ROUND_HALF_EVEN, Emin=-999999, Emax=999999, capitals=1, clamp=0,
                                               flags=[], traps=[decimal.InvalidOperation, decimal.DivisionByZero, decimal.Overflow]))
        return {'fail': fails, 'nontrivial': True}
    ns = im.ns
    A = ns.ast_ops
    src = p['src']
    try:
        t = im.p.parse(src)
    except Exception:
        return {'fail': [], 'nontrivial': False}

    class Skip(Exception):
        pass

    def ev(op, text_of):
        if isinstance(op, A.ValueOp) and isinstance(op.v, decimal.Decimal):
            return None
        raise Skip()
    # the oracle reads the literal TEXTS from the source, not the parsed values
    lits = re.findall(r'\d+(?:\.\d+)?', src)
    it = iter(lits)

    def oracle(op):
        if isinstance(op, A.ValueOp):
            if isinstance(op.v, decimal.Decimal):
                return Fraction(next(it))
            raise Skip()
        if isinstance(op, A.UnaryOp) and op.op == '-':
            return _round28(-oracle(op.op1))
        if isinstance(op, A.BinOp) and op.op in ('+', '-', '*', '/'):
            a = oracle(op.op1)
            b = oracle(op.op2)
            if op.op == '/':
                if b == 0:
                    raise Skip()
                return _round28(a / b)
            return _round28({'+': a + b, '-': a - b, '*': a * b}[op.op])
        if isinstance(op, A.BinOp) and op.op in ('==', '!=', '<', '>', '<=', '>='):
            a = oracle(op.op1)
            b = oracle(op.op2)
            return {'==': a == b, '!=': a != b, '<': a < b, '>': a > b, '<=': a <= b, '>=': a >= b}[op.op]
        raise Skip()
    try:
        body = t.lines[0]
        exp = oracle(body)
    except (Skip, StopIteration, IndexError):
        return {'fail': [], 'nontrivial': False}
    try:
        got = im.p.eval(src, {}, max_ops_evaluated=10000)
    except Exception as e:
        return {'fail': [], 'nontrivial': False}
    fails = []
    if isinstance(exp, bool):
        ok = got is exp
    else:
        ok = isinstance(got, decimal.Decimal) and Fraction(got) == exp
    if not ok:
        fails.append({'signature': 'decimal-inexact', 'what': f'{src!r} evaluated to {got!r}; exact arithmetic rounded half-even to 28 digits gives {exp}', 'input': p})
    return {'fail': fails, 'nontrivial': True}


# ------------------------------------------------------------------ C09
def mon_c09(im, p):
    """source-level oracle: in a program without lambdas / iteration every probe is called at most once; in a program
    without lazy forms the probes run in source order up to the first one that raises"""
    es, (out, extra, info) = run_eval_line(im, p['line'])
    if info is None:
        return {'fail': [], 'nontrivial': False}
    src = unhx(evalimpl.field(es, 'src')[0])
    ids = [int(x) for x in re.findall(r'probe\((\d+)\)', src)]
    logged = []
    for k, a in info['host'].log:
        if k == 'p':
            logged.append(int(a))
    fails = []
    if '=>' not in src:
        dup = [i for i in set(logged) if logged.count(i) > ids.count(i)]
        if dup:
            fails.append({'signature': 'probe-evaluated-twice', 'what': f'probe(s) {sorted(dup)} called more often than they occur in {src!r}: log {logged}', 'input': p})
        lazy = re.search(r'\b(and|or|if)\b', src) is not None
        if not lazy:
            if logged != ids[:len(logged)]:
                fails.append({'signature': 'probe-order', 'what': f'strict program {src!r}: probes ran as {logged}, source order is {ids}', 'input': p})
            elif len(logged) < len(ids):
                # stopped early: only legitimate if the last probe raised or an operation failed
                if out.startswith('ok'):
                    fails.append({'signature': 'probe-skipped', 'what': f'strict program {src!r} returned normally but ran only {logged} of {ids}', 'input': p})
    return {'fail': fails, 'nontrivial': bool(logged)}


def mon_c09_chain(im, p):
    """`a or b or c …` / `a and b and c …` (any length, any grouping) yield the DECIDING OPERAND ITSELF - computed here from the
    operand values with Python's own and/or over the same truthiness"""
    fails = []
    vals = {'0': 0, '""': '', '[]': [], 'None': None, '"x"': 'x', '5': 5, '[1]': [1], 'False': False, 'True': True, '{}': {}, '0.0': __import__('decimal').Decimal('0.0'), '"0"': '0'}
    canon = lambda v: '[' + ', '.join(canon(x) for x in v) + ']' if isinstance(v, list) else ('{}' if isinstance(v, dict) else str(v))
    for tpl, parts in p['srcs']:
        src = tpl.format(*parts)
        exp = eval(tpl.format(*[f'V[{q!r}]' for q in parts]), {'__builtins__': {}}, {'V': vals})
        try:
            got = canon(im.p.eval(src, {}, max_ops_evaluated=1000))
        except Exception as e:
            got = 'raised ' + type(e).__name__
        if got != canon(exp):
            fails.append({'signature': 'andor-value', 'what': f'{src!r} evaluates to {got}; the deciding operand is {canon(exp)}', 'input': {'src': src}})
    return {'fail': fails, 'nontrivial': True}


def mon_c09_hostops(im, p):
    """and / or / if-else over HOST-supplied operands of every type (floats, ints, bools, None, strings, containers, Decimals in
    odd spellings): the value is the deciding operand ITSELF - the same object, not a converted or re-created equal"""
    fails = []
    vals = [0.1, 0.0, 2.5, -0.0, 5, 0, True, False, None, 'a', '', [1], [], {}, {'k': 1}, D('0.10'), D('0E+2'), D('-0'), (1,), (), float('inf'), 10 ** 30]
    for i, x in enumerate(vals):
        for j, y in enumerate(vals):
            if (i + j) % p['stride'] != p['phase']:
                continue
            for src, want in (('x or y', x if x else y), ('x and y', y if x else x), ('x if x else y', x if x else y), ('y if x else x', y if x else x),
                              ('(x or y) or y', (x if x else y) if (x if x else y) else y), ('[x or y][0]', x if x else y)):
                names = {'x': x, 'y': y}
                try:
                    got = im.p.eval(src, names, max_ops_evaluated=100)
                except Exception as e:
                    fails.append({'signature': 'lazy-op-raises', 'what': f'{src} with x={x!r}, y={y!r} raised {type(e).__name__}', 'input': p})
                    return {'fail': fails, 'nontrivial': True}
                if got is not want:
                    fails.append({'signature': 'deciding-operand-not-itself', 'what': f'{src} with x={x!r} ({type(x).__name__}), y={y!r} ({type(y).__name__}) returned '
                                  f'{got!r} ({type(got).__name__}), which is not the deciding operand object', 'input': p})
                    return {'fail': fails, 'nontrivial': True}
    return {'fail': fails, 'nontrivial': True}


def mon_c09_hof(im, p):
    """inside the callback of map / filter / sorted / reduce every operand, call argument and branch is evaluated once PER
    APPLICATION of the callback: sub-expressions that do not mention the parameter are not constants - they may read state a
    helper changes, or call a builtin NAME that the host has bound to an effectful function (here: a counter)"""
    fails = []
    canon = lambda v: '[' + ', '.join(canon(x) for x in v) + ']' if isinstance(v, list) else str(v)
    for src, rebound, exp in p['cases']:
        n = [0]

        def tick(*a):
            n[0] += 1
            return D(n[0])
        names = dict(evalimpl.Host({}).fns)
        for nm in rebound:
            names[nm] = tick
        try:
            out = canon(im.p.eval(src, names, max_ops_evaluated=2000))
        except Exception as e:
            out = 'raised ' + type(e).__name__
        if out != exp:
            fails.append({'signature': 'callback-operand-not-per-application', 'what': f'{src!r} (host binds {rebound} to a counter) gives {out}, expected {exp}',
                          'input': {'src': src, 'rebound': rebound}})
    return {'fail': fails, 'nontrivial': True}


# ------------------------------------------------------------------ C10
def mon_c10(im, p):
    ns = im.ns
    F = ns.functions.FUNCTIONS
    before = dict(F)
    es = evalimpl.sread(p['line'].split(' ', 1)[1])
    src = unhx(evalimpl.field(es, 'src')[0])
    host = evalimpl.Host({})
    out, extra, info = evalimpl.run_eval(im, es)
    fails = []
    if F is not ns.functions.FUNCTIONS or dict(F) != before or any(F[k] is not before[k] for k in before):
        fails.append({'signature': 'builtins-modified', 'what': f'FUNCTIONS changed while evaluating {src[:100]!r}', 'input': p})
        for k in list(F):
            if k not in before:
                del F[k]
        F.update(before)
    if info is None:
        return {'fail': fails, 'nontrivial': False}
    # names assigned at top level (statement starts) may be (re)bound; every other key must keep its binding
    top = set(re.findall(r'(?m)^\s*([A-Za-z_]\w*)\s*(?:=(?!=)|\+=|-=|\*=|/=)', src.replace(';', '\n')))
    rd = evalimpl.Reader(ns, info['host'])
    names0 = evalimpl.Reader(ns, evalimpl.Host({})).val(evalimpl.field(es, 'names')[0])
    astkeys = {unhx(a[0]) for a in (evalimpl.field(es, 'astfns') or [])}
    for k in info['names']:
        if k not in names0 and k not in top and k not in astkeys:
            fails.append({'signature': 'scope-leak', 'what': f'name {k!r} appeared in the host mapping after {src[:100]!r} although it is not assigned at top level', 'input': p})
    # a run that returns normally leaves every name its top-level statements assign bound in the host mapping
    if out.startswith('ok'):
        for k in p.get('must_bind', []):
            if k not in info['names']:
                fails.append({'signature': 'top-level-binding-missing', 'what': f'{k!r} is assigned at top level by {src[:120]!r} but is not in the host '
                              f'mapping {sorted(map(str, info["names"]))} afterwards', 'input': p})
                break
    # a host binding that no top-level statement assigns keeps its value: assignments / compound assignments made inside
    # lambda calls (also the multi-line ones supplied through ast_names) must not reach it
    scalar = lambda v: v is None or isinstance(v, (bool, int, str, decimal.Decimal))
    for k, v0 in names0.items():
        if k in top or not isinstance(k, str):
            continue
        if k not in info['names']:
            fails.append({'signature': 'host-binding-lost', 'what': f'host binding {k!r} disappeared after {src[:100]!r}', 'input': p})
        elif scalar(v0):
            v1 = info['names'][k]
            if type(v1) is not type(v0) or v1 != v0:
                fails.append({'signature': 'host-binding-changed', 'what': f'host binding {k!r} changed from {v0!r} to {v1!r} after {src[:100]!r} '
                              'although no top-level statement assigns it', 'input': p})
                break
    return {'fail': fails, 'nontrivial': True}


def mon_c10_locals(im, p):
    """lambdas with statement bodies (supplied through ast_names) that bind NO parameter at the call - declared without
    parameters, or called with zero arguments - and assign: their locals vanish with the call, whether it is made from top
    level or from inside another lambda call, whether it returns or raises"""
    ns = im.ns
    A = ns.ast_ops
    fails = []
    for sc in p['scenarios']:
        ast_names = {n: A.LambdaOp(args=[A.NameOp(q) for q in ps], expr=im.p.parse(body)) for n, ps, body in sc['astfns']}
        names = dict(evalimpl.Host({}).fns)
        names.update({k: D(v) for k, v in sc.get('names', {}).items()})
        try:
            res = im.p.eval(sc['src'], names, ast_names=ast_names, max_ops_evaluated=1000)
            canon = lambda v: '[' + ', '.join(canon(x) for x in v) + ']' if isinstance(v, list) else str(v)
            out = canon(res)
        except Exception as e:
            out = 'raised ' + type(e).__name__
        why = None
        if 'expect' in sc and out != sc['expect']:
            why = f'result {out}, expected {sc["expect"]}'
        for k in sc.get('absent', []):
            if k in names:
                why = f'{k!r} is bound to {names[k]!r} in the host mapping afterwards'
        for k, v in sc.get('keep', {}).items():
            if names.get(k) != D(v):
                why = f'host binding {k!r} changed from {v} to {names.get(k)!r}'
        if why:
            fails.append({'signature': 'lambda-local-survives', 'what': f'{sc["src"]!r} with ast_names {sc["astfns"]}: {why}', 'input': sc})
    return {'fail': fails, 'nontrivial': True}


def mon_c10_reenter(im, p):
    """a host callable bound in `names` that evaluates another program ON THE SAME PARSER with a different mapping while
    the outer evaluation is running: the two evaluations have separate scope stacks"""
    fails = []
    for sc in p['scenarios']:
        inner = {k: D(v) for k, v in sc.get('inner', {}).items()}

        def sub(src, _inner=inner):
            return im.p.eval(src, _inner)
        def subq(src, _inner=inner):
            # the same, answering 'ERR' when the inner program fails with a language-level error (an undefined name, say)
            try:
                return im.p.eval(src, _inner)
            except im.ns.exc.ParserError:
                return 'ERR'
        names = dict(evalimpl.Host({}).fns)
        names.update({k: D(v) for k, v in sc.get('names', {}).items()})
        names['sub'] = sub
        names['subq'] = subq
        canon = lambda v: '[' + ', '.join(canon(x) for x in v) + ']' if isinstance(v, list) else str(v)
        try:
            out = canon(im.p.eval(sc['src'], names, max_ops_evaluated=1000))
        except Exception as e:
            out = 'raised ' + type(e).__name__
        why = None
        if out != sc['expect']:
            why = f'result {out}, expected {sc["expect"]}'
        for k, v in sc.get('outer_after', {}).items():
            if v is None and k in names:
                why = why or f'outer mapping got {k!r} = {names[k]!r}'
            elif v is not None and (k not in names or names[k] != D(v)):
                why = why or f'outer mapping has {k!r} = {names.get(k)!r}, expected {v}'
        for k, v in sc.get('inner_after', {}).items():
            if v is None and k in inner:
                why = why or f'inner mapping got {k!r} = {inner[k]!r}'
            elif v is not None and (k not in inner or inner[k] != D(v)):
                why = why or f'inner mapping has {k!r} = {inner.get(k)!r}, expected {v}'
        if why:
            fails.append({'signature': 'reentrant-eval-scopes', 'what': f'{sc["src"]!r} with sub = eval on the same parser with another mapping: {why}', 'input': sc})
    return {'fail': fails, 'nontrivial': True}


def mon_c10_hostcall(im, p):
    """a lambda that an evaluation stored in the host's names mapping, CALLED BY THE HOST after that evaluation has returned
    (and after the host changed its mapping): its free names still resolve innermost-first - its parameters, then the host's
    mapping as it is at the time of the call, then the builtins"""
    fails = []
    canon = lambda v: '[' + ', '.join(canon(x) for x in v) + ']' if isinstance(v, list) else str(v)
    for sc in p['scenarios']:
        parser = sqimpl.Impl(im.ns).p
        host = {}
        for j, st in enumerate(sc):
            try:
                if st[0] == 'eval':
                    parser.eval(st[1], host, max_ops_evaluated=1000)
                    continue
                if st[0] == 'set':
                    host[st[1]] = (lambda *a, _v=st[2][1]: _v) if isinstance(st[2], list) else D(st[2])
                    continue
                if st[0] == 'other':           # an evaluation for ANOTHER mapping in between
                    parser.eval(st[1], {k: D(v) for k, v in st[2].items()}, max_ops_evaluated=1000)
                    continue
                out = canon(host[st[1]](*[D(a) if isinstance(a, int) else a for a in st[2]]))
            except Exception as e:
                out = 'raised ' + type(e).__name__
            if st[0] == 'call' and out != st[3]:
                fails.append({'signature': 'host-called-lambda-scopes', 'what': f'step {j} of {sc!r}: the host calls {st[1]}{tuple(st[2])!r} and gets {out}, '
                              f'expected {st[3]}', 'input': {'scenario': sc}})
                break
    return {'fail': fails, 'nontrivial': True}


def mon_c10_seq(im, p):
    """several evals on ONE parser and ONE names mapping: names resolve at the time and in the mapping of each call -
    innermost scope, then the mapping as it is NOW, then the builtins - whatever an earlier evaluation resolved them to"""
    fails = []
    canon = lambda v: '[' + ', '.join(canon(x) for x in v) + ']' if isinstance(v, list) else str(v)
    for sc in p['scenarios']:
        names = dict(evalimpl.Host({}).fns)
        parser = sqimpl.Impl(im.ns).p
        for j, (src, exp) in enumerate(sc):
            try:
                out = canon(parser.eval(src, names, max_ops_evaluated=1000))
            except Exception as e:
                out = 'raised ' + type(e).__name__
            if exp is not None and out != exp:
                fails.append({'signature': 'name-resolution-across-evals', 'what': f'eval #{j} {src!r} after {[x[0] for x in sc[:j]]!r} on one mapping '
                              f'gives {out}, expected {exp}', 'input': {'scenario': sc}})
                break
    return {'fail': fails, 'nontrivial': True}


def mon_c10_missing(im, p):
    """the host's names mapping is a dict subclass that answers for keys it does not hold (Counter, defaultdict, a subclass
    with __missing__): name resolution must still fall through to the builtins, undefined names must still be undefined,
    and a mere lookup must not add keys to the mapping"""
    import collections
    ns = im.ns
    fails = []

    class _M(dict):
        def __missing__(self, key):
            return 0
    for mk, label in ((lambda: collections.Counter({'x': 3}), 'Counter'), (lambda: collections.defaultdict(int, {'x': 3}), 'defaultdict'),
                      (lambda: _M({'x': 3}), 'dict with __missing__')):
        def outcome(names):
            try:
                return 'ok ' + repr(im.p.eval(src, names, max_ops_evaluated=500))
            except ns.exc.ParserError:
                return 'ParserError'
            except Exception as e:
                return type(e).__name__
        for src, _ in p['cases']:
            want = outcome({'x': 3})          # what a plain dict with the same contents gives
            names = mk()
            keys0 = set(names.keys())
            got = outcome(names)
            if want is not None and got != want:
                fails.append({'signature': 'lookup-through-missing:' + label, 'what': f'{src!r} with a {label} as names gave {got}, expected {want}',
                              'input': {'src': src, 'names': label}})
                break
            extra = set(names.keys()) - keys0 - set(re.findall(r'(?m)^\s*([A-Za-z_]\w*)\s*=(?!=)', src))
            if extra:
                fails.append({'signature': 'lookup-adds-keys:' + label, 'what': f'{src!r} with a {label} as names added the keys {sorted(extra)} to the host mapping',
                              'input': {'src': src, 'names': label}})
                break
    return {'fail': fails, 'nontrivial': True}


def mon_c10_noname(im, p):
    """eval without a names mapping must not write into the builtin table"""
    ns = im.ns
    F = ns.functions.FUNCTIONS
    before = dict(F)
    fails = []
    for src in p['srcs']:
        try:
            im.p.eval(src)
        except Exception:
            pass
    if dict(F) != before:
        diff = [k for k in set(F) | set(before) if F.get(k) is not before.get(k)]
        fails.append({'signature': 'builtins-modified', 'what': f'eval without names changed FUNCTIONS keys {diff[:5]} after {p["srcs"]}', 'input': p})
        for k in list(F):
            if k not in before:
                del F[k]
        F.update(before)
    return {'fail': fails, 'nontrivial': True}


# ------------------------------------------------------------------ C11
def _canon(ns, host, v):
    w = evalimpl.Writer(ns, host)
    return w.val(v)


def _do_call(im, host, call, maps):
    """perform one API call; returns a comparable outcome string"""
    ns = im.ns
    kind = call[0]
    try:
        if kind == 'parse':
            t = im.p.parse(call[1])
            return 'ok ' + sqimpl.tree(ns, t)
        if kind == 'names':
            lim = None if call[2] == 'all' else int(call[2])
            got = []
            it = im.p.list_names(call[1])
            # an abandoned generator stays REFERENCED by its caller (not closed, not collected) for the rest of the history
            im.__dict__.setdefault('_kept_iterators', []).append(it)
            for n in it:
                if lim is not None and len(got) >= lim:
                    break
                got.append(n)
            return 'names ' + repr(got)
        if kind == 'evalast':
            # eval with host-supplied ast_names: [name, [params], body text] triples, parsed by this parser
            names = None if call[2] == 'none' else maps[call[2]]
            A = ns.ast_ops
            astn = {n: A.LambdaOp(args=[A.NameOp(q) for q in ps], expr=im.p.parse(body)) for n, ps, body in call[5]}
            evalimpl.set_random(ns, evalimpl.FakeRandom(int(call[4])))
            kw = {} if call[3] == 'default' else {'max_ops_evaluated': int(call[3])}
            res = im.p.eval(call[1], names, ast_names=astn, **kw) if names is not None else im.p.eval(call[1], ast_names=astn, **kw)
            return 'ok ' + _canon(ns, host, res) + ' ;; ' + (_canon(ns, host, names) if names is not None else '-')
        if kind == 'names2':
            # one list_names call consumed in two steps; in between, the caller's oldest abandoned generator is discarded (closed, as
            # garbage collection would do at some arbitrary moment).  No other call on the parser happens in between.
            it = iter(im.p.list_names(call[1]))
            got = []
            for _ in range(int(call[2])):
                try:
                    got.append(next(it))
                except StopIteration:
                    break
            kept = im.__dict__.setdefault('_kept_iterators', [])
            if kept:
                old = kept.pop(0)
                if call[3] == 'close':
                    old.close()
                del old
            got += list(it)
            return 'names ' + repr(got)
        if kind == 'eval':
            names = None if call[2] == 'none' else maps[call[2]]
            kw = {} if call[3] == 'default' else {'max_ops_evaluated': int(call[3])}
            evalimpl.set_random(ns, evalimpl.FakeRandom(int(call[4])))
            res = im.p.eval(call[1], names, **kw) if names is not None else im.p.eval(call[1], **kw)
            return 'ok ' + _canon(ns, host, res) + ' ;; ' + (_canon(ns, host, names) if names is not None else '-')
    except ns.exc.ParserError as e:
        return f'err {type(e).__name__} {e}'
    except RecursionError:
        raise
    except Exception as e:
        return f'err {type(e).__name__}'
    return 'bad'


def _has_function(v):
    found = []
    walk(v, lambda x: found.append(1) if callable(x) else None)
    return bool(found)


def mon_c11(im0, p):
    """each call of a history is repeated on a freshly constructed SqParser with deep-copied equal arguments"""
    ns = im0.ns
    real_random = getattr(ns.functions, 'random', None)
    fails = []
    variants = ['plain'] + (['cache'] if p.get('also_cached') else [])
    try:
      for variant in variants:
        host = evalimpl.Host({})
        host.classify = im0.classify
        # `cache`: the same history on a parser constructed with parse_cache={} (a retaining cache): every call still
        # answers as a freshly constructed cache-less parser does
        im = sqimpl.Impl(ns) if variant == 'plain' else _caching(ns)
        rd = evalimpl.Reader(ns, host)
        maps = list(rd.val(evalimpl.sread(p['heap'])[0]))
        if fails:
            break
        for i, call in enumerate(p['calls']):
            call = tuple(call)
            if call[0] == 'hostpush':
                tgt = maps[call[1]].get(call[2])
                if type(tgt) is list:
                    tgt.append(evalimpl.Reader(ns, host).val(evalimpl.sread(call[3])[0]))
                continue
            closure_in_names = call[0] == 'eval' and call[2] != 'none' and _has_function({k: v for k, v in maps[call[2]].items() if k not in host.fns and not any(v is hv for hv in host.fns.values())})
            maps_copy = copy.deepcopy(maps)
            got = _do_call(im, host, call, maps)
            fresh = sqimpl.Impl(ns)
            exp = _do_call(fresh, host, call, maps_copy)
            if got != exp:
                sig = 'D9:cross-eval-closure' if closure_in_names else 'history-dependence:' + call[0]
                fails.append({'signature': sig, 'what': f'call #{i} {call[:2]!r}: on the used {"caching " if variant == "cache" else ""}parser {got[:160]!r}, '
                              f'on a fresh parser {exp[:160]!r}', 'input': p})
                break
    finally:
        evalimpl.set_random(ns, real_random)
    return {'fail': fails, 'nontrivial': True}


# ------------------------------------------------------------------ C12
def _reach_ids(v):
    out = set()
    walk(v, lambda x: out.add(id(x)) if isinstance(x, (list, dict)) else None)
    return out


def _undeepcopyable(kind):
    import threading
    if kind == 'lock':
        return threading.Lock()
    if kind == 'gen':
        return (i for i in range(3))
    if kind == 'rlock':
        return threading.RLock()
    return object()


def mon_c12(im, p):
    """after `x = h` (and the other assignment forms) followed by non-linking mutations, the containers reachable from the
    stored value are disjoint from those reachable from the source"""
    ns = im.ns
    if 'hostobj' in p:
        # a host mapping / list that also holds something copy.deepcopy cannot copy (a lock, a generator): whatever the
        # assignment does (the shipped code lets the TypeError out), it must not leave a stored value sharing containers
        # with the host object
        o = _undeepcopyable(p['hostobj'])
        h = {'cart': [[1], 2], 'res': o, 'meta': {'tags': ['t']}} if p.get('shape') == 'dict' else [[1, 2], o, {'k': [3]}]
        names = {'h': h}
        try:
            im.p.eval(p['src'], names=names)
        except Exception:
            pass
        fails = []
        for a in ('x', 'y', 'c'):
            v = names.get(a)
            if isinstance(v, (list, dict)) and (_reach_ids(v) & _reach_ids(h)):
                fails.append({'signature': 'aliasing:' + a + '~h', 'what': f'after {p["src"]!r} with a host object holding a {p["hostobj"]}, '
                              f'{a} shares mutable containers with the host object h', 'input': p})
                break
        return {'fail': fails, 'nontrivial': True}
    es, (out, extra, info) = run_eval_line(im, p['line'])
    if info is None or not (out.startswith('ok') or out.startswith('err')):
        return {'fail': [], 'nontrivial': False}
    names = info['names']
    fails = []
    pairs = [('x', 'h'), ('y', 'h'), ('x', 'y'), ('acc', 'h'), ('acc', 'x'), ('x', 'g'), ('x', 'q'), ('y', 'g'), ('acc', 'g')]
    src0 = unhx(evalimpl.field(es, 'src')[0])
    import re as _re
    if _re.search(r'(^|; |\n)(g|h) = ', src0):
        # the host bound ONE object under g and h; once the program has assigned either name, that name holds a private copy
        pairs.append(('g', 'h'))
    for a, b in pairs:
        if a in names and b in names and isinstance(names[a], (list, dict, tuple)) and isinstance(names[b], (list, dict, tuple)):
            common = _reach_ids(names[a]) & _reach_ids(names[b])
            if common:
                src = unhx(evalimpl.field(es, 'src')[0])
                fails.append({'signature': 'aliasing:' + a + '~' + b, 'what': f'after {src!r} the values of {a} and {b} share {len(common)} mutable object(s)', 'input': p})
                break
    return {'fail': fails, 'nontrivial': 'x' in names}


# ------------------------------------------------------------------ C13
def _snap(v, seen=None):
    """deep structural snapshot that distinguishes types (int vs Decimal vs float) and values"""
    seen = seen or {}
    if isinstance(v, (list, tuple)):
        if id(v) in seen:
            return ('cycle',)
        seen[id(v)] = 1
        return (type(v).__name__,) + tuple(_snap(x, seen) for x in v)
    if isinstance(v, dict):
        if id(v) in seen:
            return ('cycle',)
        seen[id(v)] = 1
        return ('dict',) + tuple((_snap(k, seen), _snap(x, seen)) for k, x in v.items())
    if callable(v):
        return ('fn', id(v))
    return (type(v).__name__, repr(v))


MUTATORS = ('push', 'pop', 'insert', 'remove', '__setitem__', '__setitem_with_op__', '__delitem__')


def mon_c13_prog(im, p):
    """whole programs that call a NON-mutating builtin on a host object reached through other calls (`sorted(reduce([a0], ...))`,
    `reversed(ident(a0))`, ...): the host object bound as a0 is afterwards exactly what it was"""
    ns = im.ns
    fails = []
    for line in p['lines']:
        es = evalimpl.sread(line.split(' ', 1)[1])
        src = unhx(evalimpl.field(es, 'src')[0])
        host = evalimpl.Host({})
        names0 = evalimpl.Reader(ns, host).val(evalimpl.field(es, 'names')[0])
        before = _snap(names0.get('a0'))
        out, extra, info = evalimpl.run_eval(im, es)
        if info is None:
            continue
        after = _snap(info['names'].get('a0'))
        if after != before:
            fails.append({'signature': 'argument-modified-in-program', 'what': f'after {src!r} the host object a0 changed: {str(before)[:100]} -> {str(after)[:100]}',
                          'input': {'line': line}})
    return {'fail': fails[:5], 'nontrivial': True}


def mon_c13(im, p):
    ns = im.ns
    F = ns.functions.FUNCTIONS
    real_random = getattr(ns.functions, 'random', None)
    evalimpl.set_random(ns, evalimpl.FakeRandom(7))
    host = evalimpl.Host({})
    fails = []
    try:
        for name in p['names']:
            if name in MUTATORS or name not in F:
                continue
            for argspec in p['argsets']:
                args = [_mkarg(a) for a in argspec]
                if name == '__getitem__' and args and isinstance(args[0], dict) and type(args[0]) is not dict:
                    continue      # `d[k]` on a host dict subclass runs the host's own __missing__: not the builtin's doing
                snaps = [_snap(a) for a in args]
                try:
                    F[name](*args)
                except Exception:
                    pass
                after = [_snap(a) for a in args]
                if after != snaps:
                    i = next(j for j in range(len(args)) if after[j] != snaps[j])
                    fails.append({'signature': 'argument-modified:' + name, 'what': f'{name} changed its argument #{i}: {str(snaps[i])[:120]} -> {str(after[i])[:120]}',
                                  'input': {'fn': name, 'args': argspec}})
                    break
    finally:
        evalimpl.set_random(ns, real_random)
    return {'fail': fails, 'nontrivial': True}


def _mkarg(a):
    """argument shapes as JSON: numbers tagged to keep int / float / Decimal apart; lambdas by name"""
    if isinstance(a, dict) and '$' in a:
        k, v = a['$'], a.get('v')
        if k == 'dec':
            return D(v)
        if k == 'float':
            return float(v)
        if k == 'fn':
            return {'ident': (lambda *x: x[0] if x else None), 'const': (lambda *x: 1), 'neg': (lambda *x: -x[0]),
                    'first': (lambda a, b=None: a), 'len': len, 'str': str, 'true': (lambda *x: True)}[v]
        if k == 'dict':
            return {kk: _mkarg(x) for kk, x in v}
        if k == 'tuple':
            return tuple(_mkarg(x) for x in v)
        if k == 'biglist':
            return [str(i) for i in range(v)]
        if k == 'bigdict':
            return {'k%d' % i: i for i in range(v)}
        if k == 'defaultdict':
            import collections
            d = collections.defaultdict(list)
            d.update({kk: _mkarg(x) for kk, x in v})
            return d
        if k == 'missingdict':
            class _M(dict):
                def __missing__(self, key):
                    self[key] = 0
                    return 0
            return _M({kk: _mkarg(x) for kk, x in v})
    if isinstance(a, list):
        return [_mkarg(x) for x in a]
    return a


# ------------------------------------------------------------------ C14
class ModelList:
    pass


def mon_c14(im, p):
    """pure-Python container model written from the property text, run alongside the real code (one op per eval call)"""
    ns = im.ns
    PE = ns.exc.ParserError
    kind = p['kind']
    real = list(p['init']) if kind == 'list' else dict(p['init'])
    model = list(p['init']) if kind == 'list' else dict(p['init'])
    names = {'c': real}
    fails = []

    def pos(n, i):
        j = i + n if i < 0 else i
        return j if 0 <= j < n else None

    def keyint(k):
        if isinstance(k, D):
            return int(k)
        return k
    for op in p['ops']:
        name, args = op[0], [D(a['d']) if isinstance(a, dict) and 'd' in a else a for a in op[1:]]
        src = {'push': 'push(c, a0)', 'pop': 'pop(c)', 'popi': 'pop(c, a0)', 'insert': 'insert(c, a0, a1)', 'read': 'c[a0]', 'write': 'c[a0] = a1',
               'cwrite': 'c[a0] += a1', 'del': 'del c[a0]', 'get': 'get(c, a0)', 'len': 'len(c)', 'in': 'a0 in c', 'keys': 'keys(c)',
               'values': 'values(c)', 'index_of': 'index_of(c, a0)', 'remove': 'remove(c, a0)', 'slice2': 'c[a0:a1]', 'slfrom': 'c[a0:]',
               'slto': 'c[:a0]', 'step': 'c[::a0]', 'slmut': 'push(c[::a0], 5)', 'slmut2': 'push(c[a0:a1], 5)'}[name]
        for i, a in enumerate(args):
            names[f'a{i}'] = a
        try:
            got = ('ok', im.p.eval(src, names, max_ops_evaluated=1000))
        except PE:
            got = ('ParserError',)
        except Exception as e:
            got = ('other', type(e).__name__)
        # ---- the model
        exp = None
        m = model
        if kind == 'list':
            a = [keyint(x) for x in args]
            n = len(m)
            if name == 'push':
                if n < 10000:
                    m.append(args[0]); exp = ('ok', None)
                else:
                    exp = ('ParserError',)
            elif name == 'pop':
                exp = ('ok', m.pop()) if m else ('ParserError',)
            elif name == 'popi' and isinstance(a[0], int):
                j = pos(n, a[0])
                exp = ('ok', m.pop(j)) if j is not None else ('ParserError',)
            elif name == 'read' and isinstance(a[0], int) and not isinstance(a[0], bool):
                j = pos(n, a[0])
                exp = ('ok', m[j]) if j is not None else ('ParserError',)
            elif name == 'write' and isinstance(a[0], int) and not isinstance(a[0], bool):
                j = pos(n, a[0])
                if n >= 10000:
                    exp = ('ParserError',)
                elif j is not None:
                    m[j] = args[1]; exp = ('ok', args[1])
            elif name == 'len':
                exp = ('ok', n)
            elif name == 'in':
                exp = ('ok', args[0] in m)
            elif name == 'index_of':
                exp = ('ok', m.index(args[0]) if args[0] in m else None)
            elif name == 'insert' and isinstance(a[0], int):
                if n >= 10000:
                    exp = ('ParserError',)
                else:
                    m.insert(a[0], args[1]); exp = ('ok', None)
            elif name == 'del' and isinstance(a[0], int) and not isinstance(a[0], bool):
                # only the in-range case is pinned down by the statement (what a later read / len observe)
                j = pos(n, a[0])
                if j is not None:
                    m.pop(j); exp = ('ok', None)
            elif name == 'cwrite' and isinstance(a[0], int) and not isinstance(a[0], bool):
                j = pos(n, a[0])
                if j is not None and n < 10000 and isinstance(m[j], int) and not isinstance(m[j], bool) and got[0] == 'ok':
                    m[j] = m[j] + args[1]; exp = got          # the statement's value is not pinned down; the container is
            elif name in ('slice2', 'slfrom', 'slto', 'step', 'slmut', 'slmut2') and all(isinstance(x, int) and not isinstance(x, bool) for x in a):
                # slices: truncated decimal bounds, negative bounds count from the end, bounds clamp, a step walks from either end;
                # the result is a new list (a push to it leaves the container alone)
                if name == 'slice2':
                    exp = ('ok', m[a[0]:a[1]])
                elif name == 'slfrom':
                    exp = ('ok', m[a[0]:])
                elif name == 'slto':
                    exp = ('ok', m[:a[0]])
                elif name == 'step' and a[0] != 0:
                    exp = ('ok', [m[i] for i in (range(0, n, a[0]) if a[0] > 0 else range(n - 1, -1, a[0]))])
                elif name in ('slmut', 'slmut2') and (name == 'slmut2' or a[0] != 0):
                    exp = ('ok', None)
        else:
            key = str(args[0]) if args else None
            if name == 'write':
                if len(m) >= 10000:
                    exp = ('ParserError',)
                else:
                    m[key] = args[1]; exp = ('ok', args[1])
            elif name == 'read':
                exp = ('ok', m[key]) if key in m else ('ParserError',)
            elif name == 'get':
                exp = ('ok', m.get(key))
            elif name == 'del':
                m.pop(key, None); exp = ('ok', None)
            elif name == 'len':
                exp = ('ok', len(m))
            elif name == 'keys':
                exp = ('ok', list(m.keys()))
            elif name == 'values':
                exp = ('ok', list(m.values()))
        if exp is None:
            # outside the part of the alphabet the statement pins down: follow the implementation
            model = copy.deepcopy(real) if not isinstance(real, type(None)) else model
            continue
        if got != exp or real != model:
            fails.append({'signature': f'container-model:{kind}:{name}', 'what': f'{src} with {args!r}: implementation {got!r} / {str(real)[:80]}, model {exp!r} / {str(model)[:80]}',
                          'input': p})
            break
        if exp == ('ParserError',) and real != model:
            fails.append({'signature': f'container-changed-on-error:{name}', 'what': f'{src} raised ParserError but changed the container', 'input': p})
            break
    return {'fail': fails, 'nontrivial': True}


# ------------------------------------------------------------------ C15
def mon_c15(im, p):
    a = im.parse_out(p['plain'])
    fails = []
    if not a.startswith('ok'):
        return {'fail': [], 'nontrivial': False}
    for pre in p.get('poison', [None]):
        if isinstance(pre, list):
            # a list_names generator consumed only partly (stopped inside brackets) / one that dies on an illegal character
            try:
                it = iter(im.p.list_names(pre[0]))
                for _ in range(pre[1]):
                    next(it)
            except Exception:
                pass
        elif pre is not None:
            try:
                im.p.parse(pre)
            except Exception:
                pass
        b = im.parse_out(p['decorated'])
        if a != b:
            fails.append({'signature': 'layout-changes-tree', 'what': f'plain {p["plain"]!r} and decorated {p["decorated"]!r} parse differently'
                          + (f' after {pre!r}' if pre else '') + f': {a[:120]} vs {b[:120]}', 'input': p})
            break
    if not fails and p.get('neighbours'):
        # a parser with a retaining parse cache that has already served NEIGHBOURING texts (the same text with its runs of blanks
        # collapsed / doubled / tabs for blanks / blanks removed - inside string literals and %names% too, where they matter):
        # both layouts still read as the plain text does on a fresh parser
        imc = sqimpl.Impl(im.ns, parse_cache={})
        for t in (p['plain'], p['decorated']):
            for nb in (re.sub(r'[ \t]+', ' ', t), t.replace(' ', '  '), t.replace('\t', ' '), t.replace(' ', '\t'), t.strip() + ' ', ' ' + t,
                       t.replace(' ', ''), re.sub(r'\s+', ' ', t), t.replace('\r\n', '\n')):
                if nb != t:
                    try:
                        imc.p.parse(nb)
                    except Exception:
                        pass
        for t in (p['plain'], p['decorated']):
            b = imc.parse_out(t)
            if a != b:
                fails.append({'signature': 'layout-changes-tree-on-cached-parser', 'what': f'{t!r} read by a caching parser that has served neighbouring '
                              f'texts: {b[:120]}; plain {p["plain"]!r} on a fresh parser: {a[:120]}', 'input': p})
                break
    return {'fail': fails, 'nontrivial': True}


def mon_c15_calls(im, p):
    """`r.f(a)`, `r | f(a)` and `f(r, a)` denote the same call: same value, same exception class, for receivers of every
    type (also those the function does not accept)"""
    fails = []
    canon = lambda v: '[' + ', '.join(canon(x) for x in v) + ']' if isinstance(v, (list, tuple)) else (repr(sorted(map(str, v))) if isinstance(v, dict) else str(v))
    for r_src, f, args in p['triples']:
        a = ', '.join(args)
        forms = {'fn': f'{f}({r_src}{", " + a if a else ""})', 'method': f'({r_src}).{f}({a})', 'pipe': f'({r_src}) | {f}({a})' if a else f'({r_src}) | {f}'}
        outs = {}
        for k, src in forms.items():
            names = dict(evalimpl.Host({}).fns)
            names.update({'hs': 'Abc', 'hl': [3, 1, 2], 'hd': {'k': 1}, 'hn': None, 'hb': b'ab', 'hi': 7, 'hstr_upper': str.upper, 'hlist_copy': list.copy})
            try:
                outs[k] = 'ok ' + canon(im.p.eval(src, names, max_ops_evaluated=500))
            except Exception as e:
                outs[k] = 'raised ' + type(e).__name__
        if len(set(outs.values())) > 1:
            fails.append({'signature': 'call-spellings-differ', 'what': f'{forms}: {outs}', 'input': {'triple': [r_src, f, args]}})
    return {'fail': fails, 'nontrivial': True}


# ------------------------------------------------------------------ C16
def mon_c16(im, p):
    ns = im.ns
    PE = ns.exc.ParserError
    fails = []
    if 'cached_calls' in p:
        # the same text evaluated several times on a parser with a retaining parse cache (and the same parsed tree re-used
        # through ast_names), with names mappings that define a function the first time and NOT afterwards: calling an
        # undefined function is a ParserError every time
        imc = sqimpl.Impl(ns, parse_cache={})
        src, defs = p['cached_calls']
        for variant in ('cache', 'ast_names'):
            for j, names in enumerate(defs):
                nm = {k: (lambda *a, _v=v: _v) for k, v in names.items()}
                try:
                    if variant == 'cache':
                        r = imc.p.eval(src, nm, max_ops_evaluated=1000)
                    else:
                        if j == 0:
                            tree = sqimpl.Impl(ns).p.parse('z => ' + src)
                        r = im.p.eval('zz_f(0)', nm, ast_names={'zz_f': tree}, max_ops_evaluated=1000)
                    outcome = 'value'
                except PE:
                    outcome = 'ParserError'
                except Exception as e:
                    outcome = type(e).__name__
                fresh_names = {k: (lambda *a, _v=v: _v) for k, v in names.items()}
                try:
                    sqimpl.Impl(ns).p.eval(src, fresh_names, max_ops_evaluated=1000)
                    exp = 'value'
                except PE:
                    exp = 'ParserError'
                except Exception as e:
                    exp = type(e).__name__
                if outcome != exp:
                    fails.append({'signature': 'stale-call-target', 'what': f'{src!r} evaluated ({variant}) for the {j + 1}th time with names {sorted(names)}: '
                                  f'{outcome}; a fresh parser: {exp}', 'input': p})
                    return {'fail': fails, 'nontrivial': True}
        return {'fail': fails, 'nontrivial': True}
    if 'after_failed' in p:
        # a text that is wrong (a line ending in the middle of an expression, a missing closer, …) is a ParserError whatever the
        # same parser was given before: texts that failed with brackets still open, list_names generators abandoned inside brackets
        openers, broken = p['after_failed']

        def outcome(imx, api, text):
            try:
                if api == 'parse':
                    imx.p.parse(text)
                elif api == 'names':
                    list(imx.p.list_names(text))
                else:
                    imx.p.eval(text, {}, max_ops_evaluated=200)
                return 'value'
            except PE:
                return 'ParserError'
            except Exception as e:
                return type(e).__name__
        keep = []
        for op in openers:
            imx = sqimpl.Impl(ns)
            for text in broken:
                for api in ('eval', 'parse'):
                    if isinstance(op, list):
                        try:
                            it = iter(imx.p.list_names(op[0]))
                            for _ in range(op[1]):
                                next(it)
                            keep.append(it)
                        except Exception:
                            pass
                    else:
                        outcome(imx, 'eval', op)
                    got = outcome(imx, api, text)
                    exp = 'ParserError'        # every text of the list is a syntax error
                    if got != exp:
                        fails.append({'signature': 'outcome-depends-on-earlier-failure', 'what': f'{api}({text!r}) after {op!r} on the same parser: {got}; '
                                      f'a syntax error is a {exp}', 'input': {'after_failed': [[op], [text]]}})
                        return {'fail': fails, 'nontrivial': True}
        return {'fail': fails, 'nontrivial': True}
    if 'seq' in p:
        # calls WITHOUT a names mapping: what one program assigns must be undefined for the next one
        F = ns.functions.FUNCTIONS
        before = dict(F)
        try:
            for src in p['seq'][:-1]:
                try:
                    im.p.eval(src)
                except Exception:
                    pass
            last = p['seq'][-1]
            try:
                r = im.p.eval(last)
                fails.append({'signature': 'undefined-name-resolved', 'what': f'after {p["seq"][:-1]!r} (evaluated without names), {last!r} returned {r!r} '
                              'instead of raising ParserError for an undefined name', 'input': p})
            except PE:
                pass
            except Exception as e:
                fails.append({'signature': f'not-parser-error:eval:{type(e).__name__}', 'what': f'{last!r} raised {type(e).__name__}', 'input': p})
        finally:
            for k in list(F):
                if k not in before:
                    del F[k]
            F.update(before)
        return {'fail': fails, 'nontrivial': True}
    src = p['src']
    for api in p['apis']:
        try:
            if api == 'parse':
                im.p.parse(src)
            elif api == 'names':
                list(im.p.list_names(src))
            else:
                names = {}
                if p.get('full'):
                    # containers that already hold the maximum number of elements
                    names = {'c': list(range(10000)), 'd': {str(i): i for i in range(10000)}}
                im.p.eval(src, names, max_ops_evaluated=p.get('budget', 200))
            continue
        except PE:
            continue
        except RecursionError:
            continue
        except Exception as e:
            if api in ('parse', 'names') or p.get('planted'):
                fails.append({'signature': p.get('sig') or f'not-parser-error:{api}:{type(e).__name__}', 'what': f'{api}({src[:80]!r}) raised {type(e).__name__}: {str(e)[:80]}', 'input': p})
        except BaseException as e:
            fails.append({'signature': f'base-exception:{type(e).__name__}', 'what': f'{api}({src[:80]!r}) raised a non-Exception {type(e).__name__}', 'input': p})
    return {'fail': fails, 'nontrivial': True}


# ------------------------------------------------------------------ C17
def mon_c17(im0, p):
    """a cached and an uncached parser driven in lock-step over the same history; cached trees snapshotted around every eval"""
    ns = im0.ns
    real_random = getattr(ns.functions, 'random', None)
    host = evalimpl.Host({})
    host.classify = im0.classify
    cache = evalimpl.make_cache(p['cache'])
    ima = sqimpl.Impl(ns, parse_cache=cache)
    imb = sqimpl.Impl(ns)
    rd = evalimpl.Reader(ns, host)
    mapsa = list(rd.val(evalimpl.sread(p['heap'])[0]))
    mapsb = copy.deepcopy(mapsa)
    fails = []
    try:
        for i, call in enumerate(p['calls']):
            call = tuple(call)
            if call[0] == 'hostpush':
                for maps in (mapsa, mapsb):
                    tgt = maps[call[1]].get(call[2])
                    if type(tgt) is list:
                        tgt.append(evalimpl.Reader(ns, host).val(evalimpl.sread(call[3])[0]))
                continue
            snap = None
            if isinstance(cache, dict):
                snap = {k: _tree_snapshot(v) for k, v in cache.items()}
            def _guard(im_, maps_):
                # running out of stack is an outcome like any other here: a cache that makes a long text fail that way is not transparent
                try:
                    return _do_call(im_, host, call, maps_)
                except RecursionError:
                    return 'err RecursionError'
            lim = sys.getrecursionlimit()
            if p.get('default_stack'):
                sys.setrecursionlimit(1000)      # the interpreter's default, not the harness's generous limit
            try:
                ga = _guard(ima, mapsa)
                gb = _guard(imb, mapsb)
            finally:
                sys.setrecursionlimit(lim)
            if ga != gb:
                fails.append({'signature': 'cache-not-transparent:' + call[0], 'what': f'call #{i} {call[:2]!r}: cached {ga[:160]!r}, uncached {gb[:160]!r}', 'input': p})
                break
            if snap is not None:
                for k, v in snap.items():
                    if k in cache and _tree_snapshot(cache[k]) != v:
                        fails.append({'signature': 'cached-tree-altered', 'what': f'the cached tree of {k!r} changed during call #{i} {call[:2]!r}', 'input': p})
                        break
            # the host mutates results of earlier evaluations
            if call[0] == 'eval' and ga.startswith('ok (L'):
                pass
    finally:
        evalimpl.set_random(ns, real_random)
    return {'fail': fails, 'nontrivial': True}


def _tree_snapshot(op):
    """attribute-level snapshot of a syntax tree (dataclass repr alone would miss non-repr fields)"""
    if op is None:
        return None
    if isinstance(op, (list, tuple)):
        return tuple(_tree_snapshot(x) for x in op)
    if hasattr(op, '__dict__') and type(op).__module__.endswith('ast_ops'):
        return (type(op).__name__,) + tuple((k, _tree_snapshot(v)) for k, v in sorted(vars(op).items()))
    return repr(op)


# ------------------------------------------------------------------ C18
_c18_cached = []


def _caching(ns):
    if not _c18_cached:
        _c18_cached.append(sqimpl.Impl(ns, parse_cache={}))
    _c18_cached[0].p.parse_cache = {}
    return _c18_cached[0]


class RecordingNames(dict):
    def __init__(self, *a):
        super().__init__(*a)
        self.asked = []

    def __contains__(self, k):
        self.asked.append(k)
        return super().__contains__(k)

    def __getitem__(self, k):
        self.asked.append(k)
        return super().__getitem__(k)


KEYWORDS = {'and', 'or', 'in', 'not', 'if', 'else', 'True', 'False', 'None', 'del', 'for', 'while', 'break', 'continue', 'def', 'raise', 'elif'}
IMPLICIT = {'list', 'dict', '__getitem__', '__setitem__', '__delitem__', '__setitem_with_op__'}


def scan_names(src):
    """identifier scanner written from the property text: plain and %...% names in source order, skipping strings and
    comments, dropping keywords; returns None when the text is lexically exotic (then only the subset check applies)"""
    out = []
    i, n = 0, len(src)
    while i < n:
        c = src[i]
        if c == '#':
            while i < n and src[i] != '\n':
                i += 1
            continue
        if c in '"\'' or (c == 'r' and i + 1 < n and src[i + 1] in '"\''):
            j = i + (2 if c == 'r' else 1)
            q = src[j - 1]
            while j < n and src[j] != q:
                if src[j] == '\n':
                    return None
                j += 2 if src[j] == '\\' else 1
            if j >= n:
                return None
            i = j + 1
            continue
        if c == '%':
            j = src.find('%', i + 1)
            if j < 0 or '\n' in src[i:j]:
                return None
            out.append(src[i:j + 1])
            i = j + 1
            continue
        if c == '_' or c.isalpha():
            j = i
            while j < n and (src[j] == '_' or src[j].isalnum()):
                j += 1
            w = src[i:j]
            if w not in KEYWORDS:
                out.append(w)
            i = j
            continue
        if c.isdigit():
            j = i
            while j < n and (src[j].isdigit() or src[j] == '.'):
                j += 1
            i = j
            continue
        if c.isspace() or c in '+-*/=<>!,.:|()[]{};':
            i += 1
            continue
        return None
    return out


def mon_c18(im, p):
    ns = im.ns
    src = p['src']
    fails = []
    if p.get('pre'):
        # earlier calls on the same parser: texts rejected on a later line (after complete statements were read), rejected with
        # brackets open, list_names generators abandoned midway, successful evaluations of other programs - all mentioning names
        # that `src` does not
        im = sqimpl.Impl(ns)
        keep = []
        for api, text, k in p['pre']:
            try:
                if api == 'names':
                    it = iter(im.p.list_names(text))
                    keep.append(it)
                    for _ in range(k):
                        next(it)
                elif api == 'parse':
                    im.p.parse(text)
                else:
                    im.p.eval(text, {'zq2': 100, 'zq3': 2, '%zq 4%': 1, 'zq5': [1]}, max_ops_evaluated=300)
            except Exception:
                pass
    try:
        listed = list(im.p.list_names(src))
    except ns.exc.ParserError:
        return {'fail': [], 'nontrivial': False}
    exp = scan_names(src)
    if exp is not None and exp != listed:
        fails.append({'signature': 'list_names-differs-from-identifiers', 'what': f'list_names({src[:100]!r}) = {listed[:12]} but the identifiers are {exp[:12]}', 'input': p})
    names = RecordingNames(p.get('names', {}))
    for cached in (False, True):
        imx = im if not cached else _caching(ns)
        try:
            if cached:
                imx.p.eval(src, dict(p.get('names', {})), max_ops_evaluated=300)
                relisted = list(imx.p.list_names(src))
                if relisted != listed:
                    fails.append({'signature': 'list_names-after-eval', 'what': f'after evaluating {src[:80]!r} on a caching parser list_names gives {relisted[:10]}, before {listed[:10]}', 'input': p})
            names.asked.clear()
            imx.p.eval(src, names, max_ops_evaluated=300)
        except Exception:
            pass
        extra = [k for k in names.asked if k not in listed and k not in IMPLICIT]
        if extra:
            fails.append({'signature': 'host-asked-for-unlisted-name', 'what': f'evaluating {src[:100]!r} asked the host for {sorted(set(extra))[:6]}, list_names = {listed[:10]}', 'input': p})
            break
    return {'fail': fails, 'nontrivial': bool(listed)}


# ------------------------------------------------------------------ C19
def mon_c19(im, p):
    """the REAL random module: many draws per input"""
    import random as _r
    ns = im.ns
    _r.seed(p['seed'])
    fails = []
    a, b = p['a'], p['b']
    # integer-valued bounds in every numeric spelling a host or a program can supply: ints, Decimals, Decimals that carry
    # fraction digits (1.0, 3.00), Decimals in exponent form (1E+1 style)
    fz = lambda x, k: D(x).quantize(D(1).scaleb(-k)) if abs(x) < 10 ** 20 else D(x)
    ez = lambda x: D(x).normalize() if x % 10 == 0 and x != 0 else D(x)
    for A, B in ((a, b), (D(a), D(b)), (a, D(b)), (fz(a, 1), fz(b, 2)), (fz(a, 3), b), (ez(a), ez(b))):
        for _ in range(p['draws']):
            try:
                n = im.p.eval('rand(a, b)', {'a': A, 'b': B})
            except Exception as e:
                fails.append({'signature': 'rand-ab-raises:' + type(e).__name__, 'what': f'rand({A!r}, {B!r}) raised {type(e).__name__}', 'input': p})
                break
            if not (isinstance(n, D) and n == n.to_integral_value() and a <= n <= b):
                fails.append({'signature': 'rand-ab-out-of-range', 'what': f'rand({A!r}, {B!r}) = {n!r}', 'input': p})
                break
        if fails:
            break
    for _ in range(p['draws']):
        x = im.p.eval('rand()')
        if not (isinstance(x, D) and 0 <= x < 1):
            fails.append({'signature': 'rand0-out-of-range', 'what': f'rand() = {x!r}', 'input': p})
            break
    # the extreme values random.random() can return (it promises [0.0, 1.0)): the largest double below 1, values that
    # round to 1 at 6 / 10 / 15 places, the smallest positive ones
    import math
    real = getattr(ns.functions, 'random', None)

    class _Ext:
        def __init__(self, v):
            self.v = v

        def random(self):
            return self.v

        def __getattr__(self, k):
            return getattr(real, k)
    try:
        for v in (math.nextafter(1.0, 0.0), 0.9999995, 0.99999999995, 0.999999999999999, 0.0, 5e-324, 1e-30, 0.5):
            evalimpl.set_random(ns, _Ext(v))
            try:
                x = im.p.eval('rand()')
            except Exception as e:
                fails.append({'signature': 'rand0-raises:' + type(e).__name__, 'what': f'rand() raised {type(e).__name__} when random.random() = {v!r}', 'input': p})
                break
            if not (isinstance(x, D) and 0 <= x < 1):
                fails.append({'signature': 'rand0-out-of-range', 'what': f'rand() = {x!r} when random.random() returns {v!r}', 'input': p})
                break
    finally:
        evalimpl.set_random(ns, real)
    for L in list(p['lists']) + [[], [5]]:        # the empty and the one-element list too: still a NEW list
        arg = list(L)
        for _ in range(p['draws'] // 4 + 1 if L else 0):
            x = im.p.eval('rand(l)', {'l': arg})
            if x not in L or arg != L:
                fails.append({'signature': 'rand-list-not-member', 'what': f'rand({L!r}) = {x!r}; argument afterwards {arg!r}', 'input': p})
                break
        names = {'l': arg}
        s = im.p.eval('shuffle(l)', names)
        if sorted(map(repr, s)) != sorted(map(repr, L)) or arg != L or s is arg:
            fails.append({'signature': 'shuffle-not-a-new-permutation', 'what': f'shuffle({L!r}) = {s!r}, same object: {s is arg}, argument afterwards {arg!r}', 'input': p})
        im.p.eval('push(shuffle(l), 99)', names)
        if arg != L:
            fails.append({'signature': 'shuffle-result-aliases-argument', 'what': f'push(shuffle(l), 99) changed l = {L!r} into {arg!r}', 'input': p})
            arg[:] = L
        # elements that are only themselves (host objects without value equality, nested lists): the result holds the SAME
        # elements - a permutation of the list, not of copies of its elements
        class _Thing:
            pass
        idl = [_Thing(), object(), [1], {'k': 1}, _Thing(), (1, [2])]
        arg = list(idl)
        try:
            s = im.p.eval('shuffle(l)', {'l': arg})
            if sorted(map(id, s)) != sorted(map(id, idl)) or any(x is not y for x, y in zip(arg, idl)):
                fails.append({'signature': 'shuffle-not-a-permutation-of-the-elements', 'what': 'shuffle of a list of host objects / nested '
                              f'containers returned {len(s)} elements of which {sum(1 for x in s if any(x is y for y in idl))} are elements of the argument',
                              'input': p})
        except Exception as e:
            fails.append({'signature': 'shuffle-raises:' + type(e).__name__, 'what': f'shuffle of a list of host objects raised {type(e).__name__}', 'input': p})
        try:
            x = im.p.eval('rand(l)', {'l': arg})
            if not any(x is y for y in idl):
                fails.append({'signature': 'rand-list-not-member', 'what': 'rand(list of host objects) returned something that is not an element', 'input': p})
        except Exception:
            pass
        # the argument reached through other expressions than a bare name: an element of a host list / dict, the result of a
        # lambda or of another builtin that hands its argument through
        big = list(L) * 3 + list(L)
        for form, mk in (('shuffle(rows[1])', lambda: {'rows': [[0], list(big)]}), ('rows[1] | shuffle', lambda: {'rows': [[0], list(big)]}),
                         ('shuffle(d["cards"])', lambda: {'d': {'cards': list(big)}}), ('d | get("cards") | shuffle', lambda: {'d': {'cards': list(big)}}),
                         ('ident = v => v; shuffle(ident(l))', lambda: {'l': list(big)}), ('shuffle(apply(v => v, l))', lambda: {'l': list(big)}),
                         ('shuffle(max([l]))', lambda: {'l': list(big)}), ('shuffle(l or [])', lambda: {'l': list(big)}),
                         ('shuffle(l if True else [])', lambda: {'l': list(big)}), ('shuffle(rand([l]))', lambda: {'l': list(big)})):
            for _ in range(3):
                names = mk()
                snap = copy.deepcopy({k: v for k, v in names.items()})
                try:
                    s = im.p.eval(form, names)
                except Exception:
                    break
                host_now = {k: names[k] for k in snap}
                if host_now != snap or sorted(map(repr, s)) != sorted(map(repr, big)):
                    fails.append({'signature': 'shuffle-changes-argument', 'what': f'{form} with {snap!r}: result {s!r}, host objects afterwards {host_now!r}',
                                  'input': {'form': form, 'names': repr(snap)}})
                    break
    return {'fail': fails[:3], 'nontrivial': True}


# ------------------------------------------------------------------ C20
def mon_c20(im0, p):
    ns = im0.ns
    if 'cached_seq' in p:
        # texts that differ only in blank lines / blanks around the same erroneous statements, one after the other on a
        # parser with a retaining parse cache: each message is the one a freshly constructed cache-less parser gives for
        # THAT text (its own token, its own physical line)
        fails = []
        imc = sqimpl.Impl(ns, parse_cache={})
        for j, text in enumerate(p['cached_seq']):
            outs = []
            for q in (imc, sqimpl.Impl(ns)):
                try:
                    q.p.parse(text)
                    outs.append('ok')
                except ns.exc.ParserError as e:
                    outs.append('ParserError: ' + str(e))
                except Exception as e:
                    outs.append(type(e).__name__)
            if outs[0] != outs[1]:
                fails.append({'signature': 'cached-parser-message', 'what': f'text #{j} {text[:80]!r} after {p["cached_seq"][:j]!r} on a caching parser: '
                              f'{outs[0][:160]!r}; a fresh parser says {outs[1][:160]!r}', 'input': p})
                break
        return {'fail': fails, 'nontrivial': True}
    im = sqimpl.Impl(ns) if p.get('fresh') else im0
    src = p['src']
    fails = []
    if p.get('pre'):
        # earlier calls on the same parser (a fully / partly consumed list_names over several lines, a failed parse): the
        # line in the next message is still counted from the start of ITS text
        kind, text, k = p['pre']
        try:
            if kind == 'names':
                it = iter(im.p.list_names(text))
                for _ in range(k):
                    next(it)
            else:
                im.p.parse(text)
        except Exception:
            pass
    sqimpl.Impl._last_err_pos = None
    try:
        im.p.parse(src)
        return {'fail': [], 'nontrivial': False}
    except ns.exc.ParserError as e:
        msg = str(e)
    except Exception as e:
        return {'fail': [{'signature': 'not-parser-error:' + type(e).__name__, 'what': f'parse({src[:60]!r}) raised {type(e).__name__}', 'input': p}], 'nontrivial': True}
    pos = sqimpl.Impl._last_err_pos
    if pos is None:
        return {'fail': [], 'nontrivial': False}          # lexical error / reserved word: other message kinds
    if pos == -1:
        if 'end of input' not in msg:
            fails.append({'signature': 'end-of-input-message', 'what': f'error at the end of {src[-40:]!r} reported as {msg!r}', 'input': p})
        return {'fail': fails, 'nontrivial': True}
    line = 1 + src.count('\n', 0, pos)
    m = re.search(r'at line (\d+)$', msg)
    if not m or int(m.group(1)) != line:
        fails.append({'signature': 'wrong-line', 'what': f'offending token at offset {pos} stands on physical line {line}; message {msg[:200]!r}', 'input': p})
    if src == src.rstrip() and not fails:
        # eval reads the same text (it only strips trailing blank space): the same message, through the other entry point
        try:
            im.p.eval(src, {}, max_ops_evaluated=50)
            emsg = '<returned normally>'
        except ns.exc.ParserError as e:
            emsg = str(e)
        except Exception as e:
            emsg = '<' + type(e).__name__ + '>'
        if emsg != msg:
            fails.append({'signature': 'eval-reports-differently', 'what': f'parse reports {msg[:160]!r}, eval of the same text {emsg[:160]!r}', 'input': p})
    val = sqimpl.Impl._last_err_val
    if isinstance(val, str) and val not in ('\n', '\r\n') and val not in msg:
        fails.append({'signature': 'token-text-missing', 'what': f'the message {msg[:120]!r}… does not contain the text of the offending token '
                      f'({len(val)} characters: {val[:40]!r}…)', 'input': {'src': src[:200], 'len': len(src)}})
    return {'fail': fails, 'nontrivial': True}


_zyg = None


def _zygote_ask(req):
    """one request to the pristine-interpreter server (started once per worker process)"""
    global _zyg
    import subprocess, os
    if _zyg is None or _zyg.poll() is not None:
        _zyg = subprocess.Popen([sys.executable, os.path.join(os.path.dirname(os.path.abspath(__file__)), 'zygote.py')],
                                stdin=subprocess.PIPE, stdout=subprocess.PIPE, text=True, encoding='utf-8', errors='surrogatepass')
    _zyg.stdin.write(json.dumps(req) + '\n')
    _zyg.stdin.flush()
    return _zyg.stdout.readline().rstrip('\n').replace('\\n', '\n')


def mon_c11_process(im0, p):
    """after a history of calls in THIS process, one more call with freshly built arguments is compared with the same call
    made in a pristine interpreter (forked from a process that has imported the library and never parsed or evaluated
    anything): state kept at module / class / process level - caches of nodes, memoised helpers, decimal context flags,
    interned tables - cannot hide here"""
    ns = im0.ns
    real_random = getattr(ns.functions, 'random', None)
    host = evalimpl.Host({})
    host.classify = im0.classify
    im = sqimpl.Impl(ns)
    maps = list(evalimpl.Reader(ns, host).val(evalimpl.sread(p['heap'])[0]))
    fails = []
    try:
        for call in p['calls']:
            call = tuple(call)
            if call[0] == 'hostpush':
                continue
            try:
                _do_call(im, host, call, maps)
            except RecursionError:
                pass
        for final in p['finals']:
            host2 = evalimpl.Host({})
            host2.classify = im0.classify
            maps2 = list(evalimpl.Reader(ns, host2).val(evalimpl.sread(p['heap'])[0]))
            got = _do_call(sqimpl.Impl(ns) if p.get('fresh_parser') else im, host2, tuple(final), maps2)
            exp = _zygote_ask({'heap': p['heap'], 'call': final})
            if exp.startswith('ZYGOTE'):
                return {'fail': [], 'nontrivial': False, 'zygote': exp}
            if got != exp:
                fails.append({'signature': 'process-history-dependence:' + final[0],
                              'what': f'after {len(p["calls"])} earlier calls in the process, {tuple(final)[:2]!r} gives {got[:200]!r}; in a pristine '
                                      f'interpreter the same call gives {exp[:200]!r}', 'input': p})
                break
    finally:
        evalimpl.set_random(ns, real_random)
    return {'fail': fails, 'nontrivial': True}


def mon_c11_repeat(im0, p):
    """the same call with equal arguments, repeated on one parser, must keep giving the same outcome (D9 witness:
    a lambda defined by an earlier eval keeps charging that eval's budget)"""
    ns = im0.ns
    im = sqimpl.Impl(ns)
    names = {}
    im.p.eval(p['define'], names)
    outs = []
    for _ in range(p['times']):
        try:
            outs.append(('ok', repr(im.p.eval(p['call'], names, max_ops_evaluated=p['N']))))
        except Exception as e:
            outs.append((type(e).__name__, str(e)))
    fails = []
    if len(set(outs)) > 1:
        i = next(j for j in range(len(outs)) if outs[j] != outs[0])
        fails.append({'signature': 'D9:cross-eval-closure', 'what': f'eval({p["call"]!r}, N={p["N"]}) gives {outs[0]} on calls 1..{i} and {outs[i]} on call {i + 1}', 'input': p})
    return {'fail': fails, 'nontrivial': True}
