"""Dedicated generators for the property-specific correspondence slices and monitors."""
import itertools, random
from sqimpl import hx
import proggen
from proggen import dec_atom

HOSTFNS = f'(S:{hx("probe")} H:probe) (S:{hx("apply")} H:apply) (S:{hx("try_apply")} H:try_apply)'


def eval_line(src, names_entries='', budget=3000, rng=1, probes='', hostfns=True, astfns=None, modelparser=False):
    """astfns: list of (name, [params], body source) -> ast_names={name: LambdaOp(params, parse(body))}"""
    names = '(M 0 ' + names_entries + (' ' + HOSTFNS if hostfns else '') + ')'
    extra = ''
    if astfns:
        extra = ' (astfns ' + ' '.join(f'({hx(n)} (params {" ".join(hx(q) for q in ps)}) {hx(b)})' for n, ps, b in astfns) + ')'
    if modelparser:
        extra += ' (modelparser)'
    return f'EVAL (src {hx(src)}) (budget {budget}) (rng {rng}) (names {names}) (probes {probes}){extra}'


# ------------------------------------------------------------------ container op sequences (C14, C03)
LIST_KEYS = ['0', '1', '-1', '2', '1.5', '-2', '7', '-9', 'True', '"0"', 'None', '0.0', '10000', '9999', '-10001', '-0.5', '-1.5', '-2.5', '0.9', '-0.0']
DICT_KEYS = ['"a"', '"b"', '0', '1', '1.0', '-1', 'True', 'None', '"1"', '"None"', '1.50', '0.00000001', '0.00000001 * 1', '1 / 100000000',
             '100000000000000000000000000000 * 10', 'round(12345, -2)', '0.0000001', '"1E-8"']
VALS = ['5', '"v"', '[1]', 'None', '0.5', '{"z": 1}']


def list_ops(r):
    k, k2, v = r.choice(LIST_KEYS), r.choice(LIST_KEYS), r.choice(VALS)
    st = r.choice(['1', '2', '3', '4', '7', '-1', '-2', '-3', '0', '10000', '1.5', 'None', '"a"', 'True'])
    return r.choice([f'push(c, {v})', 'pop(c)', f'pop(c, {k})', f'insert(c, {k}, {v})', f'remove(c, {v})', f'c[{k}]',
                     f'c[{k}] = {v}', f'c[{k}] += 1', f'del c[{k}]', f'index_of(c, {v})', 'len(c)', f'{v} in c',
                     f'c[{k}:{k2}]', f'c.push({v})', f'c[{k}] *= 2', 'c + [1]', 'sorted(c, v => 0)', 'reversed(c)',
                     f'push(c, {v}, {v})', f'c.push(1, 2, 3)', f'insert(c, {k}, {v}, {v})', 'c | push(1, 2)', f'pop(c, {k}, 1)',
                     'push(enumerate(c)[0][1], 9)', 'apply(pe => [push(pe[0][1], 8), pe][1], enumerate(c))', 'apply(q => push(q[0][1], 6), [enumerate(c)[0]])',
                     # the step-only form [::k] (SqProps.C14.slice_with_positive_step_takes_every_kth), the other spellings with empty
                     # parts, and a write to the slice's result (a new object: c must not change)
                     f'c[::{st}]', f'c[::{st}]', f'c[{k}::]', f'c[:{k}:]', f'push(c[::{st}], 9)', f'apply(sl => [push(sl, 8), sl, c], c[::{st}])'])


def dict_ops(r):
    k, v = r.choice(DICT_KEYS), r.choice(VALS)
    return r.choice([f'c[{k}]', f'c[{k}] = {v}', f'c[{k}] += 1', f'del c[{k}]', f'get(c, {k})', f'get(c, {k}, 7)', 'keys(c)',
                     'values(c)', 'items(c)', 'len(c)', f'{k} in c', f'remove(c, {k})', f'c[{k}] = c', 'pretty(c)',
                     f'd2 = {{{k}: {v}}}; d2[{k}]', 'sorted(c)', 'str(c)', 'push(items(c)[0][1], 9)', 'apply(pp => [push(pp[0][1], 8), pp][1], items(c))',
                     'values(c)[0].push(7)', 'apply(q => push(q[0][1], 6), [items(c)[0]])'])


def is_stmt(op):
    import re
    return (op.startswith('del ') or re.match(r'^[a-z][a-z0-9]* = ', op) is not None
            or re.match(r'^c\[[^\]]*\] (=|\+=|-=|\*=|/=) ', op) is not None)


def seq_program(ops):
    """expressions run under try_apply (an error is logged and the sequence continues) and their results are
    collected; statement forms (index assignment, compound index assignment, del) run at top level -- an error
    there ends the sequence and is the outcome"""
    out, names = [], []
    for i, op in enumerate(ops):
        if is_stmt(op):
            out.append(op)
        else:
            out.append(f'r{i} = try_apply(w => {op}, 0)')
            names.append(f'r{i}')
    out.append('[' + ', '.join(names + ['c']) + ']')
    return '\n'.join(out)


def host_list(n, r, objno=1):
    return f'(L {objno}' + ''.join(' ' + r.choice(['I:0', 'I:1', 'D:0:2:0:c', 'S:76', 'D:0:5:-1:c']) for _ in range(n)) + ')'


def host_dict(n, r, objno=1):
    return f'(M {objno}' + ''.join(f' (S:{hx("k" + str(i) if i > 3 else ["a", "b", "0", "1"][i])} I:{i})' for i in range(n)) + ')'


def ops_cases(seed, n_random, exhaustive_depth=2, big_every=40):
    """yield (line, descr). Exhaustive short sequences over a reduced alphabet + random longer ones"""
    cases = []
    base_l = ['push(c, 5)', 'pop(c)', 'c[0]', 'c[-1] = 9', 'del c[0]', 'insert(c, 1, 7)', 'c[1.5]', 'remove(c, 5)', 'c[5]', 'pop(c, 0)', 'get(c, 0, 7)', 'c[0] = None']
    base_d = ['c["a"] = 1', 'c[1] = 2', 'c["1"]', 'c[1.0]', 'del c[1]', 'get(c, 1)', 'c["a"]', 'c[True] = 3', 'keys(c)', 'c[None] = 0; c["None"]', 'c["a"] = None', 'get(c, "a", 7)']
    r = random.Random(f'{seed}/ops-ex')
    for kind, base in (('L', base_l), ('M', base_d)):
        for d in range(1, exhaustive_depth + 1):
            for ops in itertools.product(base, repeat=d):
                for n0 in ((0, 2) if kind == 'L' else (0, 2)):
                    ent = f'(S:{hx("c")} {host_list(n0, r) if kind == "L" else host_dict(n0, r)})'
                    src = seq_program(list(ops))
                    cases.append((eval_line(src, ent), f'{kind}{n0}: ' + ' ; '.join(ops)))
    for i in range(n_random):
        r = random.Random(f'{seed}/ops/{i}')
        kind = r.choice('LLM')
        if i % big_every == 0:
            n0 = r.choice([9998, 9999, 10000, 10001])
        else:
            n0 = r.choice([0, 1, 2, 3, 5])
        ops = [(list_ops if kind == 'L' else dict_ops)(r) for _ in range(r.randint(1, 8 if n0 > 100 else 25))]
        ent = f'(S:{hx("c")} {host_list(n0, r) if kind == "L" else host_dict(min(n0, 10001), r)})'
        cases.append((eval_line(seq_program(ops), ent, budget=20000), f'{kind}{n0}: ' + ' ; '.join(ops)))
    return cases


# ------------------------------------------------------------------ numeric (C04, C08)
def num_literal(r):
    k = r.randrange(8)
    if k == 0:
        return r.choice(['0', '1', '2', '10', '0.1', '0.2', '0.3', '0.5', '1.5', '3', '7', '9'])
    ip = ''.join(r.choice('0123456789') for _ in range(r.choice([1, 1, 2, 3, 8, 15, 27, 28, 29, 40])))
    if r.random() < 0.6:
        fp = ''.join(r.choice('0123456789') for _ in range(r.choice([1, 2, 3, 10, 27, 28, 29, 35])))
        return ip + '.' + fp
    return ip


def tie_literal(r):
    """operands that force a tie / carry at the 28th digit"""
    a = ''.join(r.choice('123456789') for _ in range(27)) + r.choice('0123456789')
    return a + r.choice(['5', '50', '500000', '49999', '50001', '4', '6', '99999999', '5000000000000000000000000001'])


def num_expr(r, d=0, names=()):
    if d > 3 or r.random() < 0.3:
        if names and r.random() < 0.3:
            return r.choice(names)
        return tie_literal(r) if r.random() < 0.15 else num_literal(r)
    k = r.randrange(14)
    if k <= 6:
        return f'({num_expr(r, d + 1, names)} {r.choice("+-*/+-*")} {num_expr(r, d + 1, names)})'
    if k == 7:
        return f'(-{num_expr(r, d + 1, names)})'
    if k == 8:
        return f'{r.choice(["round", "floor", "ceil", "abs", "int"])}({num_expr(r, d + 1, names)})'
    if k == 9:
        return f'round({num_expr(r, d + 1, names)}, {r.choice([0, 1, 2, 5, 10, 27, -1, -3])})'
    if k == 10:
        return f'{r.choice(["sum", "min", "max"])}([{", ".join(num_expr(r, d + 1, names) for _ in range(r.randint(1, 4)))}])'
    if k == 11:
        return f'({num_expr(r, d + 1, names)} ** {r.choice([0, 1, 2, 3, 5])})'
    return num_literal(r)


def host_num(r, big=False):
    """big: exponents near the context limits (only used where the operation does not align exponents:
    the model's exact-then-round addition would build a 2-million-digit coefficient)"""
    k = r.randrange(6)
    if k == 0:
        return 'I:' + str(r.choice([0, 1, -1, 2, 7, 10 ** 30, -10 ** 30, 10 ** 60 + 7, 255, 3]))
    if k == 1:
        return r.choice(['T', 'F'])
    if k == 2:
        return f'D:{r.randrange(2)}:{r.randrange(1, 10 ** 28)}:{r.choice([999990, -999990, 999971, -1000020] if big else [0, -5, 10, -30, 100, -100, 300])}:b'
    return dec_atom(num_literal(r), custom=r.random() < 0.5)


def num_cases(seed, n):
    cases = []
    for i in range(n):
        r = random.Random(f'{seed}/num/{i}')
        k = r.randrange(13)
        ent = ' '.join(f'(S:{hx(nm)} {host_num(r, big=(k == 10))})' for nm in ('a', 'b', 'n'))
        if k == 11:
            # numbers that went through a container (item assignment, compound item assignment, dict values) and are then
            # multiplied / raised / accumulated again and again: the digits must stay bounded on that path too
            c, kk = r.choice([('l', '0'), ('d', '"k"'), ('l', '1')])
            init = 'l = [0, 0]' if c == 'l' else 'd = {}'
            v0 = r.choice(['a', 'b', 'int(a)', 'a * 1', '12345678901234567890', '"ab"', 'floor(a)', 'abs(int(b))'])
            steps = [f'{c}[{kk}] = {v0}']
            for _ in range(r.randint(1, 5)):
                steps.append(r.choice([f'{c}[{kk}] *= {c}[{kk}]', f'{c}[{kk}] *= b', f'{c}[{kk}] = {c}[{kk}] ** 2', f'{c}[{kk}] += a', f'{c}[{kk}] *= 3',
                                       f'x = {c}[{kk}]; x *= x; {c}[{kk}] = x', f'{c}[{kk}] = {c}[{kk}] * {c}[{kk}]', f'{c}[{kk}] -= n']))
            src = init + '; ' + '; '.join(steps) + f'; {c}'
        elif k == 12:
            src = r.choice(['round(a, 30)', 'round(a / 3, 40)', 'round(1, 5000)', 'round(a, 0 - 30)', 'round(1 / 3, 29)', 'round(a, 28)', 'floor(a * 10 ** 20)',
                            'ceil(a / 7)', 'int(a) * int(b)', 'abs(a * b)', 'max(a * b, b)', 'min([a * a, b])', 'sum([a, b, n])', 'sum([a * b, a * b])',
                            'round(a * b, 10)', 'round(a / b, 35)', 'float(a) * 3', 'int(a / 3)', 'round(n / 7, 50)', 'abs(a) ** 3'])
        elif k <= 4:
            src = num_expr(r)
        elif k == 5:
            src = f'{num_expr(r)} {r.choice(["==", "!=", "<", ">", "<=", ">="])} {num_expr(r)}'
        elif k == 6:
            src = f'a {r.choice(["+", "-", "*", "/", "**"])} b'
        elif k == 7:
            src = f'a {r.choice(["+=", "-=", "*=", "/="])} b; a'
        elif k == 8:
            src = f'l = [a, b]; l[0] {r.choice(["+=", "-=", "*=", "/="])} n; l'
        elif k == 10:
            src = r.choice(['a * b', 'a / b', '-a', 'abs(a)', 'a < b', 'a == b', 'a ** 2', 'a * b * n', 'a * 10', 'a / 1000', 'round(a, 2)', 'a *= b; a'])
        else:
            src = num_expr(r, 0, ('a', 'b', 'n'))
        if r.random() < 0.03:
            src = f'try_apply(w => float({r.choice(['"1,5"', '"abc"', '"1.5x"', '"--2"', '""'])}), 0); ' + src
            cases.append((eval_line(src, ent, hostfns=True, modelparser=True), src))
        else:
            cases.append((eval_line(src, ent, hostfns=False, modelparser=True), src))
    return cases


# every binary operator of the language (generators draw from the whole table)
ALL_BINOPS = ["+", "-", "*", "/", "**", "==", "!=", "<", ">", "<=", ">=", "in", "not in"]


# ------------------------------------------------------------------ probes (C09)
def probe_shapes(r, d, counter):
    def leaf():
        if r.random() < 0.15:
            return r.choice(['True', 'False', 'None', '0', '1', '""', '"s"', '[]', '2.5'])
        counter[0] += 1
        return f'probe({counter[0]})'
    if d <= 0 or r.random() < 0.25:
        return leaf()
    k = r.randrange(25)
    E = lambda: probe_shapes(r, d - 1, counter)
    if k in (23, 24):
        # the SAME effectful expression as condition and as branch (a parser that folds `a if a else b` into `a or b`
        # evaluates it once)
        x = E()
        return f'({x} if {x} else {E()})' if k == 23 else f'({E()} if {x} else {x})'
    if k == 18:
        op = r.choice(['and', 'or'])
        return f'({E()} {op} {E()} {op} {E()}' + (f' {op} {E()})' if r.random() < 0.4 else ')')
    if k == 0:
        return f'({E()} and {E()})'
    if k == 1:
        return f'({E()} or {E()})'
    if k == 2:
        return f'({E()} if {E()} else {E()})'
    if k == 3:
        return f'({E()} {r.choice(ALL_BINOPS)} {E()})'
    if k == 4:
        return f'[{E()}, {E()}, {E()}]'
    if k == 5:
        return f'{{{E()}: {E()}, {E()}: {E()}}}'
    if k == 6:
        return f'list({E()}, {E()})'
    if k == 7:
        return f'[{E()}, {E()}, {E()}][{E()}:{E()}]'
    if k == 8:
        return f'(not {E()})'
    if k == 9:
        return f'str({E()})'
    if k == 19:
        return f'get({{"a": {E()}}}, "{r.choice(["a", "b"])}", {E()})'
    if k == 20:
        return f'{E()} if {E()} else {E()} if {E()} else {E()}'
    if k == 10:
        return f'get({{"1": {E()}}}, {E()}, {E()})'
    if k == 11:
        return f'(-{E()})'
    if k == 12:
        return f'[{E()}, {E()}][{E()}]'
    if k == 13:
        return f'{E()} | {r.choice(["str", "list", "min", "max"])}({E()})'
    if k == 14:
        return f'({E()}).{r.choice(["list", "min", "max", "get"])}({E()})'
    if k == 15:
        # the slice forms the grammar derives besides [a:b] (a step only ever stands alone: [::k]); [a:b:c] is not derivable
        form = r.choice(['[::{0}]', '[{0}::]', '[:{0}:]', '[{0}:]', '[:{0}]', '[:]', '[::{0}]'])
        return f'[{E()}, {E()}, {E()}]' + form.format(E())
    if k == 16:
        return f'(w => [w, {E()}])({E()})' if False else f'apply((w, z) => [{E()}, w, z], {E()}, {E()})'
    if k == 17:
        return f'{r.choice(["min", "max", "round", "replace", "get"])}({E()}, {E()}, {E()})'
    if k == 21:
        return f'({E()} {r.choice(["in", "not in"])} [{E()}, {E()}, {E()}])'
    if k == 22:
        return f'({E()} in {{{E()}: 1, {E()}: 2}})'
    return leaf()


def probe_cases(seed, n):
    cases = []
    for i in range(n):
        r = random.Random(f'{seed}/probe/{i}')
        c = [0]
        k = r.randrange(9)
        ent = ''
        if k == 8:
            # sub-expressions of an inline lambda that do not mention its parameter but are NOT constant: they read state a
            # helper changes, or call a builtin name the host rebinds to an effectful function
            nm = r.choice(['lower', 'len', 'get', 'min', 'max', 'abs', 'str', 'upper', 'keys'])
            hof = r.choice(['map([10, 20, 30], x => {b})', 'filter([10, 20, 30], x => {b})', 'sorted([3, 1, 2], x => {b})',
                            'reduce([1, 2, 3, 4], (a, x) => {b})', 'map([1, 2], x => map([5, 6], y => {b}))'])
            c[0] += 1
            body = r.choice([f'add(x) or len(seen)', f'[add(x), len(seen), seen[0]]', f'[x, {nm}({c[0]})]', f'{nm}({c[0]}) and x',
                             f'[bump(x), get(cnt, "k")]', f'(x if {nm}({c[0]}) else 0)', f'[get(cnt, "k"), bump(x)][0]'])
            src = ('seen = []; add = v => push(seen, v); cnt = {"k": 0}; bump = v => __setitem__(cnt, "k", cnt["k"] + 1)\n'
                   'r = ' + hof.format(b=body) + '\n[r, seen, cnt]')
            ent = f'(S:{hx(nm)} H:probe)'
        elif k == 0:
            e = probe_shapes(r, 2, c)
            src = f'c = [0, 0]; c[{probe_shapes(r, 1, c)}] = {e}'
        elif k == 1:
            src = f'c = [1, 2]; c[{probe_shapes(r, 1, c)}] += {probe_shapes(r, 1, c)}'
        elif k == 2:
            src = f'x = {probe_shapes(r, 2, c)}; x'
        elif k == 3:
            c[0] += 3
            op = r.choice(['+=', '-=', '*=', '/=', '='])
            src = f't = [[1, 2], [3, 4]]; t[probe({c[0] - 2})][probe({c[0] - 1})] {op} probe({c[0]}); t'
        elif k == 4:
            c[0] += 3
            src = f'apply(w => [[5, 6], [7, 8]], probe({c[0] - 2}))[probe({c[0] - 1})][0] {r.choice(["+=", "="])} probe({c[0]})'
        elif k == 5:
            c[0] += 2
            src = f'd = {{"a": [1], "b": [2]}}; del d[probe({c[0] - 1})]; push(d[probe({c[0]})], probe({c[0]})); d'
        else:
            src = probe_shapes(r, r.randint(1, 4), c)
        ps = []
        for j in range(1, c[0] + 1):
            m = r.randrange(8)
            if k in (3, 4) and j > c[0] - 3:
                ps.append(f'({j} ret {r.choice(["I:0", "I:1", "D:0:1:0:c", "D:0:0:0:c", "I:5", "T"])})')
                continue
            if k == 5 and j > c[0] - 2:
                ps.append(f'({j} ret {r.choice(["S:61", "S:62", "S:63"])})')
                continue
            if m == 0:
                ps.append(f'({j} ret F)')
            elif m == 1:
                ps.append(f'({j} ret D:0:0:0:c)')
            elif m == 2:
                ps.append(f'({j} raise {r.choice(["ValueError", "parser"])})')
            elif m == 3:
                ps.append(f'({j} ret S:-)')
            elif m == 4:
                ps.append(f'({j} ret T)')
            elif m == 5:
                ps.append(f'({j} ret D:0:1:0:c)')
        cases.append((eval_line(src, ent, probes=' '.join(ps), modelparser=True), src + '  probes: ' + ' '.join(ps)))
    return cases


# ------------------------------------------------------------------ scoping (C10)
def scope_cases(seed, n):
    """one name bound at builtin / host / top-level / parameter level; lambda bodies (expressions) that read it,
    ast-supplied multi-line bodies that assign / compound-assign it; calls that raise under map / sorted / try_apply"""
    cases = []
    for i in range(n):
        r = random.Random(f'{seed}/scope/{i}')
        nm = r.choice(['len', 'str', 'x', 'sum', 'v', 'abs'])
        host = r.random() < 0.6
        ent = f'(S:{hx(nm)} D:0:42:0:c)' if host else ''
        body = r.choice([nm, f'[{nm}, apply({nm} => {nm}, 2)]', f'apply(w => {nm}, 1)', f'apply(({nm}, q) => [{nm}, q], 1)',
                         '1 / 0', 'undefinedname', f'apply(z => [{nm}, z], 1)', f'af({nm})', f'try_apply(af, {nm})',
                         f'[af({nm}), {nm}]', f'ag({nm}, 1)', f'[az(), {nm}]', f'[try_apply(az), try_apply(w => loc, 0), try_apply(w => p, 0)]',
                         f'apply(p => [az(), p], 5)'])
        abody = r.choice([f'{nm} = 7\n{nm}', f'{nm} += 1\n{nm}', f'loc = {nm}\nloc', f'{nm} = [p]\n{nm}.push(1)\n{nm}',
                          f'{nm} = 1\n1 / 0', f'p = p + 1\np', f'{nm} = p\naf2({nm})'])
        astfns = [('af', ['p'], abody), ('ag', [nm, 'p'], f'{nm} = 9\n[{nm}, p]'), ('af2', ['q'], f'{nm} = 3\nq'),
                  ('az', [], r.choice([f'{nm} = 11\n{nm}', f'loc = 1\nloc', f'{nm} += 1\n{nm}', f'p = 2\np', f'{nm} = [1]\n{nm}']))]
        stmts = []
        if r.random() < 0.5:
            stmts.append(f'{nm} = 5')
        k = r.randrange(11)
        call = {0: f'r = apply({nm} => {body}, 1)', 1: f'r = map([1, 2], {nm} => {body})',
                2: f'r = try_apply({nm} => {body}, 1)', 3: f'f = {nm} => {body}; r = [f(1), f(2)]',
                4: f'f = ({nm}, d) => ({body} if d < 1 else f({nm} + 1, d - 1)); r = f(1, 2)',
                5: f'r = try_apply(w => map([1, 2], {nm} => {body}), 0)',
                6: f'r = sorted([2, 1], {nm} => {body})', 7: f'r = reduce([1, 2, 3], ({nm}, b) => {body})',
                8: f'f = {nm} => (0 if {nm} < 1 else f({nm} - 1) + {nm}); r = f(4)',
                9: f'f = {nm} => ([] if {nm} < 1 else [f({nm} - 1), {nm}, try_apply(f, {nm} - 2), {nm}]); r = f(3)',
                10: f'f = ({nm}, acc) => (acc if {nm} < 1 else [f({nm} - 1, acc), {nm}]); r = map([1, 2], w => f(w, 0))'}[k]
        stmts.append(call)
        if r.random() < 0.35:
            # the same call site evaluated before and after the callee's name is rebound (top level, host-level, or by a
            # parameter): name resolution happens at every evaluation of the call
            fn = r.choice(['len', 'str', 'sum', 'abs', 'list', 'min', 'sorted', 'keys', 'rand', 'shuffle', 'max', 'int', 'float', 'reversed', 'values',
                           'items', 'dict', 'round', 'join', 'map', 'filter', 'get', 'push', 'pop', 'pretty', 'upper', 'enumerate', 'index_of'])
            arg = r.choice(['[1, 2]', '[3]', '"ab"', '[-4, 2]'])
            rebind = r.choice([f'{fn} = q => 99', f'{fn} = q => [q, q]', f'{fn} = str', f'{fn} = 5', f'{fn} = v => v', f'{fn} = (a, b) => [a, b]',
                               f'{fn} = w => w'])
            stmts += [f'cs = w => try_apply({fn}, {arg})', 'r1 = cs(0)', rebind, 'r2 = cs(0)',
                      f'r3 = apply({fn} => cs(0), len)', f'r4 = map([1, 2], w => try_apply(v => {fn}({arg}), 0))',
                      f'cs2 = w => try_apply(v => {fn}({arg}), 0)', 'r5 = [cs2(0), cs2(0)]',
                      f'r6 = apply({fn} => cs2(0), q => "param")', 'r7 = cs2(0)', f'r8 = try_apply(w => {fn}(), 0)',
                      f'r9 = try_apply(w => {fn}(1, 2), 0)']
            stmts.append('[r1, r2, r3, r4, r5, r6, r7, r8, r9]')
        stmts.append(r.choice([nm, f'[{nm}, r]', 'r', f'try_apply(w => {nm}, 0)', f'try_apply(w => loc, 0)', 'try_apply(w => p, 0)']))
        src = '\n'.join(stmts)
        cases.append((eval_line(src, ent, astfns=astfns), src + ' || af: ' + abody.replace('\n', ' ; ')))
    return cases


def bare_scope_cases(seed, n):
    """host mappings that hold DATA only (no host functions) and are equal, as dicts, to the parameter bindings of a lambda
    call made by the program (or empty, like the scope of a parameterless ast-supplied lambda): the call's scope is a
    different object however equal it looks, and top-level assignments made around the call still land in the host mapping.
    returns (line, description, names that a successful run must leave bound)"""
    cases = []
    for i in range(n):
        r = random.Random(f'{seed}/barescope/{i}')
        k = r.randrange(8)
        astfns = None
        if k == 0:
            v = r.choice([1, 2, 3])
            ent, must = f'(S:{hx("v")} D:0:{v}:0:c)', ['r', 'total']
            src = f'r = {r.choice(["map([1, 2, 3], v => v * 10)", "filter([1, 2, 3], v => v > 0)", "sorted([3, 1, 2], v => 0 - v)"])}\ntotal = sum(r)\ntotal'
        elif k == 1:
            ent, must = f'(S:{hx("acc")} D:0:3:0:c) (S:{hx("v")} D:0:3:0:c)', ['s', 'acc']
            src = 's = reduce([1, 2, 3], (acc, v) => acc + v)\nacc = s\n[s, acc, v]'
        elif k == 2:
            ent, must = f'(S:{hx("x")} D:0:7:0:c)', ['y', 'z']
            src = 'y = map([7], x => x + 1)\nz = [x, y]\nz'
        elif k == 3:
            # the host mapping is EMPTY and the program calls a parameterless lambda (its scope is an empty dict too)
            ent, must = '', ['a', 'b']
            astfns = [('az', [], r.choice(['1', 'loc = 1\nloc', '[1, 2]']))]
            src = 'a = az()\nb = [a, az()]\nb'
        elif k == 4:
            v = r.choice([1, 2])
            ent, must = f'(S:{hx("w")} D:0:{v}:0:c)', ['f', 'r', 'q']
            src = 'f = w => w + 1\nr = [f(1), f(2)]\nq = w\n[r, q]'
        elif k == 5:
            ent, must = f'(S:{hx("a")} D:0:1:0:c) (S:{hx("b")} D:0:2:0:c)', ['g', 'r', 'c']
            src = 'g = (a, b) => [a, b]\nr = g(1, 2)\nc = a + b\n[r, c]'
        elif k == 6:
            ent, must = f'(S:{hx("v")} S:{hx("x")})', ['r', 'n']
            src = 'r = map(["x", "y"], v => upper(v))\nn = len(r)\n[r, n, v]'
        else:
            ent, must = f'(S:{hx("k")} D:0:0:0:c)', ['f', 'r', 'after']
            src = 'f = k => (0 if k < 1 else f(k - 1) + k)\nr = f(3)\nafter = k\n[r, after]'
        cases.append((eval_line(src, ent, hostfns=False, astfns=astfns), src, must))
    return cases


# ------------------------------------------------------------------ higher-order lambdas (C07, C10)
def closure_cases(seed, n):
    """lambdas that build, return, store and receive lambdas; parameters and globals sharing names; calls made after the
    creating call has returned and after globals were rebound (dynamic scoping: a free name is whatever is bound WHEN the
    body runs)"""
    cases = []
    NAMES = ['a', 'b', 'c']
    for i in range(n):
        r = random.Random(f'{seed}/closure/{i}')

        def arith(d):
            if d <= 0 or r.random() < 0.3:
                return r.choice(NAMES + ['1', '2', '10'])
            return f'({arith(d - 1)} {r.choice(["+", "-", "*"])} {arith(d - 1)})'

        def lam(d):
            ps = r.sample(NAMES, r.choice([1, 1, 2]))
            if d > 0 and r.random() < 0.6:
                body = lam(d - 1)
            else:
                k = r.randrange(5)
                body = {0: arith(2), 1: f'[{arith(1)}, {arith(1)}]', 2: f'fn({arith(1)})', 3: f'apply(fn, {arith(1)})',
                        4: f'map([1, 2], {r.choice(NAMES)} => {arith(2)})'}[k]
            return f'({", ".join(ps)}) => {body}' if len(ps) > 1 else f'{ps[0]} => {body}'

        stmts = []
        for nm in NAMES:
            if r.random() < 0.5:
                stmts.append(f'{nm} = {r.choice([1, 5, 100])}')
        stmts.append(f'fn = {lam(r.choice([0, 0, 1]))}')
        stmts.append(f'mk = {lam(r.choice([1, 1, 2]))}')
        stmts.append(f'g = try_apply(mk, {r.choice([1, 2, 7])}, {r.choice([3, 4])})' if r.random() < 0.5 else f'g = try_apply(mk, {r.choice([1, 2, 7])})')
        for nm in r.sample(NAMES, r.choice([0, 1, 2])):
            stmts.append(f'{nm} = {r.choice([1000, 2000, 3000])}')
        k = r.randrange(6)
        use = {0: 'r1 = try_apply(g, 2)', 1: 'r1 = try_apply(g, 2, 3)', 2: 'h = (f, a) => f(a + 1); r1 = try_apply(h, g, 20)',
               3: 'h = (f, b) => map([1, 2], f); r1 = try_apply(h, g, 20)', 4: 'r1 = try_apply(w => g(2)(3), 0)',
               5: 'h = (a, f) => [a, f(a)]; r1 = try_apply(h, 50, g)'}[k]
        stmts.append(use)
        stmts.append('[try_apply(w => r1, 0), ' + ', '.join(f'try_apply(w => {nm}, 0)' for nm in NAMES) + ']')
        src = '\n'.join(stmts)
        cases.append((eval_line(src, '', hostfns=True), src))
    return cases


# ------------------------------------------------------------------ aliasing (C12)
def alias_cases(seed, n):
    cases = []
    muts = ['{t}.push(1)', '{t}[0] = 99', 'del {t}[0]', '{t}[0].push(7)', '{t} += [5]', 'pop({t})', '{t}[0] += 1', 'insert({t}, 0, 3)',
            '{t}["k"] = 1', '{t}["k"].push(4)', 'remove({t}, 1)']
    for i in range(n):
        r = random.Random(f'{seed}/alias/{i}')
        he = proggen.HostEnv(r)
        hv = r.choice(['(L 1 (L 2 I:1 I:2) (R 2) D:0:3:0:c)', '(M 1 (S:6b (L 2 I:1)) (S:6a (R 2)))', '(L 1 I:1 I:2 I:3)',
                       '(L 1 (M 2 (S:6b (L 3))) (L 4 I:1))', he.lnum(), he.dict_()])
        ent = f'(S:{hx("h")} {hv})'
        import re as _re0
        top = _re0.match(r'\((?:L|M) (\d+)', hv)
        shared = bool(top) and r.random() < 0.5
        if shared:
            # the host binds the very same object under a second name (and an inner object under a third)
            ent += f' (S:{hx("g")} (R {top.group(1)}))'
            inner = _re0.search(r'\((?:L|M) (\d+)', hv[2:])
            if inner and r.random() < 0.6:
                ent += f' (S:{hx("q")} (R {inner.group(1)}))'
        form = r.randrange(45) if shared else r.choice(list(range(30)) + list(range(37, 45)))
        src0 = {10: 'x = h or []', 11: 'x = [] or h', 12: 'x = h and h', 13: 'x = (h if True else 0)', 14: 'x = h + [[0]]',
                15: 'x = [h, 1][0]', 16: 'x = {"k": h}["k"]', 17: 'x = apply(v => v, h)', 18: 'x = get({"k": h}, "k")', 19: 'x = h[0:2]',
                20: 'x = reversed(h)', 21: 'x = sorted(h, v => 0)', 22: 'x = 0; x = x or h', 23: 'c = {}; c["k"] = h or []; x = c["k"]',
                24: 'c = [0]; c[0] = h + []; x = c[0]', 25: 'x = [0]; x[0] = h and h; x = x[0]',
                26: 'h = h; x = h', 27: 'x = h; x = x', 28: 'y = h; x = y; y = y', 29: 't = [0]; t[0] = h; t[0] = t[0]; x = t[0]',
                30: 'g = h; x = g', 31: 'h = g; x = h', 32: 'g = g; x = g', 33: 't = []; t.push(h); t[0] = h; x = t[0]',
                34: 'h[0] = q; x = h[0]', 35: 'x = g; g = h', 36: 'h["k"] = q; x = h["k"]',
                37: 'x = items(h)', 38: 'x = enumerate(h)[0]', 39: 'x = [items(h)[0]]', 40: 'c = {}; c["k"] = items(h)[0]; x = c["k"]',
                41: 'x = [0]; x += items(h)', 42: 'x = enumerate(h)', 43: 'x = (items(h) or [])', 44: 'x = sorted(enumerate(h), v => 0)',
                0: 'x = h', 1: 'c = [0, 0]; c[0] = h; x = c[0]', 2: 'x = [h, h]', 3: 'd = {}; d["k"] = h; x = d["k"]',
                4: 'x = [1]; x += h', 5: 'c = [[1]]; c[0] += h; x = c[0]',
                6: 'x = h; y = h; try_apply(w => y.push(5), 0); try_apply(w => y[0].push(6), 0)',
                7: 'y = h; x = h[0]; try_apply(w => y[0].push(6), 0)', 8: 'x = h; acc = [0]; acc += h; try_apply(w => acc[1].push(8), 0)',
                9: 'x = h; h.push(1); y = h; try_apply(w => y.push(2), 0)'}[form]
        stmts = [src0]
        for _ in range(r.randint(1, 4)):
            stmts.append(r.choice(muts).format(t=r.choice(['x', 'h', 'x', 'h', 'x[0]', 'h[0]', 'x[0][1]', 'x[1]'] + (['g', 'g', 'q'] if shared else []))))
        import re as _re
        stmts = [s if _re.search(r'(^|[^=!<>])=($|[^=>])', s) or s.startswith('del ') else f'try_apply(w => {s}, 0)' for s in stmts]
        stmts.append('[x, h, try_apply(w => y, 0), try_apply(w => acc, 0), try_apply(w => g, 0), try_apply(w => q, 0)]')
        src = '\n'.join(stmts)
        cases.append((eval_line(src, ent), src))
    return cases


# ------------------------------------------------------------------ builtin x argument shapes (C02, C13)
ARG_SHAPES = ['N', 'T', 'F', 'I:0', 'I:3', 'I:-1', 'D:0:25:-1:c', 'D:1:2:0:b', 'D:0:0:0:c', 'S:-', 'S:' + hx('abc'), 'S:' + hx('__class__'),
              'S:' + hx('{0.__class__}'), 'S:' + hx('a,b'), 'S:' + hx('%s'), '(L {n} I:3 I:1 I:2)', '(L {n})', '(L {n} S:62 S:61)',
              '(L {n} (L {m} I:1) (R {m}))', '(M {n} (S:61 I:1) (S:62 I:2))', '(M {n})', '(M {n} (S:6b (L {m} I:1)))', '(U I:1 I:2)',
              'B:len', 'B:str', 'B:dict', 'H:probe', '(L {n} N S:61 I:1)', 'S:' + hx('i'), '(L {n} D:0:2:0:c D:0:1:0:c)']


def builtin_cases(seed, names, n_random):
    """every builtin with 0..3 arguments from the shape list (1 and 2 args exhaustive over a reduced list)"""
    cases = []
    core = [0, 3, 6, 10, 15, 19, 22, 23]

    def mk(f, shapes):
        ent, args = [], []
        no = 1
        for j, s in enumerate(shapes):
            s = s.replace('{n}', str(no)).replace('{m}', str(no + 1))
            no += 2
            ent.append(f'(S:{hx("a" + str(j))} {s})')
            args.append('a' + str(j))
        src = f'r = {f}({", ".join(args)}); [r, ' + ', '.join(args) + ']' if args else f'{f}()'
        return eval_line(src, ' '.join(ent), budget=400), f'{f}({", ".join(shapes)})'
    for f in names:
        cases.append(mk(f, []))
        for s in ARG_SHAPES:
            cases.append(mk(f, [s]))
        for a in core:
            for b in core:
                cases.append(mk(f, [ARG_SHAPES[a], ARG_SHAPES[b]]))
    for i in range(n_random):
        r = random.Random(f'{seed}/bi/{i}')
        f = r.choice(names)
        cases.append(mk(f, [r.choice(ARG_SHAPES) for _ in range(r.choice([2, 2, 3, 3, 4]))]))
    # lambdas as callbacks
    for i in range(n_random // 4):
        r = random.Random(f'{seed}/bicb/{i}')
        f = r.choice(['map', 'filter', 'reduce', 'sorted'])
        cb = r.choice(['v => v', 'v => 1', '(a, b) => a', '(a, b) => b', 'v => [v]', 'v => -v', 'v => str(v)', 'len', 'str'])
        s = ARG_SHAPES[r.choice([15, 17, 18, 19, 21, 10, 27, 29])].replace('{n}', '1').replace('{m}', '2')
        src = f'r = {f}(a0, {cb}); [r, a0]'
        cases.append((eval_line(src, f'(S:{hx("a0")} {s})', budget=400), f'{f}({s}, {cb})'))
    # a lambda of the program in EVERY argument position of every builtin: whatever the builtin hands to it (or does with it)
    # must be plain data
    for f in names:
        if f.startswith('__'):
            continue
        for src in (f'r = {f}("abcabc", "b", v => [v]); r', f'r = {f}("abcabc", v => [v]); r', f'r = {f}(v => [v], "abc"); r',
                    f'r = {f}("a,b", ",", v => [v], 1); r', f'box = []; r = {f}("abcabc", "b", v => push(box, v)); [r, box]',
                    f'r = {f}([3, 1, 2], v => [v]); r', f'r = {f}({{"k": 1}}, "k", v => [v]); r'):
            cases.append((eval_line(src, '', budget=400), src))
    # the argument reached through another call that hands an EXISTING object through (not a fresh one): the builtin must
    # still treat it as somebody else's object
    outers = ['sorted', 'reversed', 'shuffle', 'keys', 'values', 'items', 'enumerate', 'sum', 'min', 'max', 'join', 'len', 'str', 'pretty', 'list',
              'index_of', 'get', 'split', 'map', 'filter']
    inners = ['reduce([a0], (p, q) => p)', 'reduce([a0, a0], (p, q) => p)', 'reduce([[], a0], (p, q) => q)', 'apply(v => v, a0)', 'max([a0])',
              'get({{"k": a0}}, "k")', 'rand([a0])', '(a0 or [])', 'filter([a0], v => True)[0]', 'map([a0], v => v)[0]', 'sorted([a0], v => 0)[0]',
              'ident(a0)', '[a0][0]', '(a0 if True else 0)', 'try_apply(v => v, a0)', 'reversed([a0])[0]', 'list(a0)[0]', 'values({{"k": a0}})[0]']
    shapes = ['(L 1 I:3 I:1 I:2)', '(L 1 (L 2 I:3 I:1) (L 3 I:0))', '(M 1 (S:62 I:2) (S:61 I:1))', '(L 1 S:62 S:61)']
    for f in outers:
        for g in inners:
            for sh in shapes[:2] if f not in ('keys', 'values', 'items') else shapes[2:3]:
                extra = ', v => v' if f in ('map', 'filter') else (', ","' if f in ('join', 'split') else (', 0' if f in ('get', 'index_of') else ''))
                src = f'ident = v => v; r = {f}({g.replace("{{", "{").replace("}}", "}")}{extra}); [r, a0]'
                cases.append((eval_line(src, f'(S:{hx("a0")} {sh})', budget=600), src))
    return cases


# ------------------------------------------------------------------ random builtins (C19)
def rand_cases(seed, n):
    cases = []
    for i in range(n):
        r = random.Random(f'{seed}/rand/{i}')
        a = r.choice([0, 1, -5, 10, 10 ** 30, -3, 7])
        b = a + r.choice([0, 0, 1, 2, 5, 100, 10 ** 20])
        fa = lambda x: r.choice([str(x) if x >= 0 else f'(-{-x})', f'ha'])
        k = r.randrange(7)
        if k == 6:
            # integer-valued bounds in every spelling a program can produce: trailing zeros, products, quotients, sums
            lo, hi = r.choice([(1, 6), (0, 3), (2, 2), (-2, 4), (10, 20)])
            sp = lambda n: r.choice([f'{n}.0', f'{n}.00', f'({n * 2} / 2)', f'({n} * 1.0)', f'({n} + 0.5 - 0.5)', f'int({n}.7 - 0.7)',
                                     f'({n}.5 * 2 - {n})', f'len([1, 2]) * {n} / 2', f'{n}']) if n >= 0 else r.choice([f'(-{-n}.0)', f'(0 - {-n})', f'(-{-n})'])
            src = f'[rand({sp(lo)}, {sp(hi)}), rand(hz, {sp(hi)})]'
        elif k <= 1:
            src = f'rand({a if a >= 0 else "(-" + str(-a) + ")"}, {b if b >= 0 else "(-" + str(-b) + ")"})'
        elif k == 2:
            src = 'rand(ha, hb)'
        elif k == 3:
            src = 'rand()'
        elif k == 4:
            src = 'x = rand(hl); [x, hl]'
        elif k == 5 and r.random() < 0.5:
            src = r.choice(['n = [hl, [1, 2, 3]]; s = shuffle(n[0]); push(s, 99); [s, n, hl]', 'd = {"k": hl}; s = shuffle(get(d, "k")); push(s, 99); [s, hl]',
                            's = shuffle(apply(v => v, hl)); push(s, 99); [s, hl]', 's = shuffle(max(hl, hl)); push(s, 9); [s, hl]', 's = hl | shuffle; push(s, 9); [s, hl]',
                            'push(shuffle(hl), 99); hl', '[shuffle(hl), hl]', 'x = [shuffle(hl), hl, rand(hl)]; hl.push(7); [x, hl]',
                            'shuffle(hl) | push(1); [hl, shuffle([]), shuffle([5])]'])
        else:
            src = 's = shuffle(hl); [s, hl]'
        ent = f'(S:{hx("hz")} {r.choice(["D:0:200:-2:b", "D:0:20:-1:c", "D:0:0:0:b", "I:0"])}) (S:{hx("ha")} I:{a}) (S:{hx("hb")} {r.choice(["I:" + str(b), dec_atom(str(b)) if b >= 0 else "I:" + str(b)])}) ' \
              f'(S:{hx("hl")} (L 1' + ''.join(f' I:{j}' for j in range(r.choice([0, 1, 1, 2, 3, 5, 8]))) + '))'
        cases.append((eval_line(src, ent, rng=r.randrange(1, 2 ** 40), hostfns=False), src))
    return cases


# ------------------------------------------------------------------ regex front end (C05)
RX_PATTERNS = ['a', '[a-z]+', '(\\d+)-(\\d+)', '(a)(b)?', '^x', 'l+', '(', '[', 'a{2,3}', '(?i)ab', '.', '\\s+', '(a|b)*c', '']
RX_SUBJECTS = ['', 'abc', 'hello world', '12-34', 'ABab', 'a\nb', 'xxxxc', 'aab']


def regex_cases(seed, n):
    cases = []
    for i in range(n):
        r = random.Random(f'{seed}/rx/{i}')
        f = r.choice(['match', 'match_groups', 'match_all'])
        pat, sub = r.choice(RX_PATTERNS), r.choice(RX_SUBJECTS)
        fl = r.choice(['', '', ', "i"', ', "ms"', ', "IS"', ', None', ', ""', ', 1', ', "x"', ', [1]', ', 0'])
        ent = f'(S:{hx("p")} S:{hx(pat)}) (S:{hx("s")} S:{hx(sub)})'
        a1, a2 = r.choice([('s', 'p')] * 8 + [('p', 's'), ('1', 'p'), ('s', 'None'), ('[s]', 'p')])
        src = f'{f}({a1}, {a2}{fl})'
        cases.append((eval_line(src, ent, hostfns=False), f'{src}  p={pat!r} s={sub!r}'))
    return cases


# ------------------------------------------------------------------ re-entrant lambdas (C07, C10)
def reentry_cases(seed, n):
    """one lambda active several times at once: recursion, mutual recursion, a lambda handed to itself, recursion inside
    map / sorted callbacks and under try_apply - with every parameter READ AGAIN AFTER the inner call has returned (or raised),
    so that each activation must have kept its own bindings"""
    cases = []
    for i in range(n):
        r = random.Random(f'{seed}/reentry/{i}')
        k = r.randrange(12)
        a, b = r.randrange(2, 7), r.randrange(1, 5)
        if k == 0:
            src = f'f = n => 1 if n < 2 else f(n - 1) * n\nf({a})'
        elif k == 1:
            src = f'f = n => 0 if n < 1 else f(n - 1) + n\n[f({a}), f({b})]'
        elif k == 2:
            src = f'ap = (g, v) => g(v) + v\nap(w => ap(u => u * {b}, w + 1), {a})'
        elif k == 3:
            src = f'fib = n => n if n < 2 else fib(n - 1) + fib(n - 2)\nfib({a + 2})'
        elif k == 4:
            elems = ", ".join(str(r.randrange(9)) for _ in range(a))
            src = f'xs = [{elems}]\nwalk = (l, i) => [] if i >= len(l) else walk(l, i + 1) + [l[i]]\nwalk(xs, 0)'
        elif k == 5:
            src = f'd = n => [n] if n < 1 else map([1, 2], k => len(d(n - 1)) + k + n)\nd({min(a, 3)})'
        elif k == 6:
            src = f'f = n => n if n < 1 else try_apply(f, n - 1) + n\nf({a})'
        elif k == 7:
            src = f'ev = n => True if n == 0 else od(n - 1) and n > 0\nod = n => False if n == 0 else ev(n - 1) or n < 0\n[ev({a}), od({a}), ev({b})]'
        elif k == 8:
            src = f'f = (n, acc) => acc if n < 1 else [f(n - 1, acc + [n]), n, acc][0] + [n]\nf({min(a, 4)}, [])'
        elif k == 9:
            src = f'g = (h, n) => n if n < 1 else h(h, n - 1) + n * {b}\ng(g, {a})'
        elif k == 10:
            src = f'f = n => "" if n < 1 else f(n - 1) + str(n) + f(n - 2)\nf({min(a, 5)})'
        else:
            src = f'boom = n => undefined_name if n < 1 else try_apply(boom, n - 1)\nf = n => [try_apply(boom, n), n]\nf({a})'
        cases.append((eval_line(src, '', hostfns=True, modelparser=True), src))
    return cases


# ------------------------------------------------------------------ slice.indices, exhaustively on small lists (C14, C03)
def slice_exhaustive_cases():
    """the transcription of `slice.indices` (Sq.sliceIndices, the subject of SqProps.C14.slice_* and SqProps.C03.slice_*) against CPython
    on every list length 0..6, every bound pair in -8..8 (and absent), every step in -8..8: the forms the grammar spells,
    `c[a:b]`, `c[a:]`, `c[:b]`, `c[:]`, `c[::k]`; elements are distinct so that order and identity of the selection show"""
    cases = []
    R = list(range(-8, 9))
    for n in range(0, 7):
        ent = f'(S:{hx("c")} (L 1' + ''.join(f' I:{10 + i}' for i in range(n)) + '))'
        for a in R:
            src = '[' + ', '.join(f'c[{a}:{b}]' for b in R) + f', c[{a}:], c[:{a}], c[{a}::], c[:{a}:]]'
            cases.append((eval_line(src, ent, budget=20000), f'slices n={n} a={a}'))
        src = '[' + ', '.join(f'c[::{k}]' for k in R if k != 0) + ', c[:], c[1.5:-0.5], c[-2.5:], c[::2.9], c[::-1.5]]'
        cases.append((eval_line(src, ent, budget=20000), f'steps n={n}'))
        cases.append((eval_line('c[::0]', ent), f'zero step n={n}'))
        cases.append((eval_line('try_apply(w => c[::0], 0)', ent), f'zero step caught n={n}'))
    return cases


# ------------------------------------------------------------------ literals evaluated more than once (C14, C11, C07)
def literal_fresh_cases(seed, n):
    """a list / dict literal inside a lambda body, a map callback or a statement that runs several times builds a NEW container
    every time it is evaluated: what one evaluation's container receives (push, pop, index write, del) is not seen by the
    next one"""
    cases = []
    LITS = ['[1, 2, 3]', '[]', '[0, 0]', '["a", "b"]', '[[1], [2]]', '{"a": 1}', '{}', '[1.5, None, True]', '[[]]', '{"k": [1]}']
    for i in range(n):
        r = random.Random(f'{seed}/litfresh/{i}')
        lit = r.choice(LITS)
        isd = lit.startswith('{')
        mut = r.choice(['v["z"] = 9', 'v["a"] = 5', 'remove(v, "a")'] if isd else ['v.push(9)', 'push(v, 7)', 'insert(v, 0, 4)', 'v[0] = 8', 'pop(v)', 'del v[0]', 'v += [5]'])
        k = r.randrange(8)
        if k == 0:
            src = f'mk = n => {lit}\nv = 0\ntry_apply(w => push(mk(0), 1), 0)\ntry_apply(w => pop(mk(0)), 0)\n[len(mk(0)), mk(0)]'
        elif k == 1:
            src = f'rows = []\nmap([1, 2, 3], i => rows.push({lit}))\ntry_apply(w => push(rows[0], 7), 0)\nrows'
        elif k == 2:
            src = f'mk = n => {lit}\na = mk(0)\nb = mk(1)\nv = a\ntry_apply(w => 0, 0)\n[a, b, mk(2)]'
        elif k == 3:
            src = f'acc = []\nf = x => push(acc, {lit})\nf(1)\nf(2)\ntry_apply(w => push(acc[0], 5), 0)\ntry_apply(w => pop(acc[1]), 0)\nacc'
        elif k == 4:
            src = f'g = x => pop({lit})\n[try_apply(g, 0), try_apply(g, 0), try_apply(g, 0)]' if not isd else f'g = x => len({lit})\n[g(0), g(0)]'
        elif k == 5:
            src = f'h = x => push({lit}, x)\nh(1)\nh(2)\nmk = n => {lit}\nmk(0)' if not isd else f'mk = n => {lit}\nd = mk(0)\ntry_apply(w => 0, 0)\n[mk(0), d]'
        elif k == 6:
            src = f'out = map([1, 2], i => {lit})\ntry_apply(w => push(out[0], 3), 0)\nout'
        else:
            src = f'sorted([2, 1], i => len(push({lit}, i)))\nmk = n => {lit}\nmk(0)' if not isd else f'out = map([1, 2], i => {lit})\nout'
        cases.append((eval_line(src, '', hostfns=True, modelparser=True), src))
    return cases
