"""G-layout (C15) and error-position (C20) generators.

A program is generated as a small Python-side tree and rendered twice: `plain` (single blanks, one
canonical call style, no redundant parentheses beyond those needed to fix the structure) and
`decorated` (extra blanks / tabs, comments, line breaks inside brackets, `;` vs newline, blank statements,
CRLF, trailing commas, redundant parentheses, method / pipe / function call styles).  Every decoration is
one the grammar declares insignificant, applied only where the grammar has the construct."""
import random

NAMES = ['a', 'b', 'c', 'f', 'g', 'x', 'y', 'data', '%m n%', 'len', '%a%', '%q.r%', '%p%']
OPS = ['+', '-', '*', '/', '**', '==', '!=', '<', '>', '<=', '>=', 'and', 'or', 'in', 'not in']


def gen_expr(r, d=0):
    if d >= 4 or r.random() < 0.22:
        k = r.randrange(5)
        if k == 0:
            return ('num', r.choice(['0', '1', '2', '10', '3.5', '007', '12.50']))
        if k == 1:
            return ('str', r.choice(['"s"', "'t'", '""', 'r"\\n"', '"a b"', '"#no comment"', '"semi;colon"', '"f\x0cf"', '"u\u2028u"', '"two  blanks"', '"t\tab"',
                                     '"%in string%"', '"100%"', "'q\x1cs'", '"("', '"a)"', '"[x"', '"}"', '"hi :)"', '"{[("', "')'", '"# ("', '"\\""']))
        if k == 2:
            return ('kw', r.choice(['True', 'False', 'None']))
        return ('name', r.choice(NAMES))
    k = r.randrange(13)
    E = lambda: gen_expr(r, d + 1)
    if k <= 2:
        return ('bin', r.choice(OPS), E(), E())
    if k == 3:
        return ('un', r.choice(['-', 'not']), E())
    if k == 4:
        return ('call', r.choice(NAMES[:8]), [E() for _ in range(r.randint(0, 3))])
    if k == 5:
        x = r.random()
        # receivers whose parentheses are redundant by the operator table: number literals, prefix operators on an atom
        recv = (('num', r.choice(['12345', '7', '3.5', '0'])) if x < 0.15 else
                ('un', r.choice(['-', 'not']), gen_expr(r, 9)) if x < 0.35 else E())
        return ('mcall', recv, r.choice(NAMES[:8]), [E() for _ in range(r.randint(0, 2))])
    if k == 6:
        return ('index', E(), E())
    if k == 7:
        sl = r.choice(['a:', ':b', 'a:b', ':', 'a::', ':b:', '::c'])
        return ('slice', E(), sl, [E(), E()])
    if k == 8:
        return ('list', [E() for _ in range(r.randint(0, 3))])
    if k == 9:
        return ('dict', [(E(), E()) for _ in range(r.randint(0, 3))])
    if k == 10:
        return ('if', E(), E(), E())
    if k == 11:
        ps = r.sample(['p', 'q', 'w'], r.randint(1, 3))
        return ('lam', ps, E())
    return ('name', r.choice(NAMES))


def gen_stmt(r):
    k = r.randrange(9)
    if k == 0:
        return ('assign', r.choice(NAMES[:8]), gen_expr(r))
    if k == 1:
        return ('short', r.choice(NAMES[:8]), r.choice(['+=', '-=', '*=', '/=']), gen_expr(r))
    if k == 2:
        return ('del', gen_expr(r, 2), gen_expr(r, 2))
    if k == 3:
        return ('setitem', gen_expr(r, 2), gen_expr(r, 2), gen_expr(r))
    if k == 4:
        return ('setop', gen_expr(r, 2), gen_expr(r, 2), r.choice(['+=', '-=', '*=', '/=']), gen_expr(r))
    return ('expr', gen_expr(r))


def fill_slice(template, a, b):
    return ''.join({'a': a, 'b': b, 'c': a}.get(ch, ch) for ch in template)


class Plain:
    """canonical rendering: every compound operand is parenthesised (so structure never depends on precedence)"""

    def atomish(self, t):
        return t[0] in ('num', 'str', 'kw', 'name', 'call', 'list', 'dict')

    def operand(self, t):
        s = self.expr(t)
        return s if self.atomish(t) else f'({s})'

    def args(self, ts):
        return ', '.join(self.expr(t) for t in ts)

    def expr(self, t):
        k = t[0]
        if k in ('num', 'str', 'kw', 'name'):
            return t[1]
        if k == 'bin':
            return f'{self.operand(t[2])} {t[1]} {self.operand(t[3])}'
        if k == 'un':
            return f'{t[1]} {self.operand(t[2])}'
        if k == 'call':
            return f'{t[1]}({self.args(t[2])})'
        if k == 'mcall':
            return f'{t[2]}({self.args([t[1]] + t[3])})'
        if k == 'index':
            return f'{self.operand(t[1])}[{self.expr(t[2])}]'
        if k == 'slice':
            a, b = self.operand(t[3][0]), self.operand(t[3][1])
            return f'{self.operand(t[1])}[{fill_slice(t[2], a, b)}]'
        if k == 'list':
            return f'[{self.args(t[1])}]'
        if k == 'dict':
            return '{' + ', '.join(f'{self.operand(a)}: {self.operand(b)}' for a, b in t[1]) + '}'
        if k == 'if':
            return f'{self.operand(t[1])} if {self.operand(t[2])} else {self.operand(t[3])}'
        if k == 'lam':
            ps = t[1][0] if len(t[1]) == 1 else '(' + ', '.join(t[1]) + ')'
            return f'{ps} => {self.operand(t[2])}'
        raise ValueError(k)

    def stmt(self, s):
        k = s[0]
        if k == 'assign':
            return f'{s[1]} = {self.expr(s[2])}'
        if k == 'short':
            return f'{s[1]} {s[2]} {self.expr(s[3])}'
        if k == 'del':
            return f'del {self.operand(s[1])}[{self.expr(s[2])}]'
        if k == 'setitem':
            return f'{self.operand(s[1])}[{self.expr(s[2])}] = {self.expr(s[3])}'
        if k == 'setop':
            return f'{self.operand(s[1])}[{self.expr(s[2])}] {s[3]} {self.expr(s[4])}'
        return self.expr(s[1])

    def program(self, stmts):
        return '\n'.join(self.stmt(s) for s in stmts)


COMMENT_PIECES = ['note', 'x,', ',', '+', '-', '*', '/', '**', 'and', 'or', 'not', 'in', 'if', 'else', '(', ')', '[', ']', '{', '}', '"', "'",
                  '\\', '%', '%a%', '=>', '=', '==', ';', '#', ':', '.', '|', 'del', 'for', '\u03c0', '1', '1.5', 'amount,', 'total +',
                  # characters that str.splitlines() treats as line boundaries but the lexer does not
                  'a\x0cb', 'v\x0bt', 'l\u2028s', 'p\u2029s', 'n\x85l', 'f\x1cs', 'g\x1ds', 'r\x1es']


def comment_text(r):
    """a comment whose text ends / starts with anything at all: operators, commas, keywords, brackets, quotes, backslashes"""
    return '#' + r.choice(['', ' ']) + ' '.join(r.choice(COMMENT_PIECES) for _ in range(r.randint(0, 4)))


class Decorated(Plain):
    def __init__(self, r, kinds=None):
        self.r = r
        self.depth = 0
        self.kinds = kinds if kinds is not None else {}

    def hit(self, k):
        self.kinds[k] = self.kinds.get(k, 0) + 1

    def gap(self):
        """a token gap: blanks/tabs; inside brackets possibly a line break (and a comment before it)"""
        r = self.r
        x = r.random()
        if x < 0.55:
            return ' '
        if x < 0.75:
            self.hit('blanks')
            return r.choice(['  ', '\t', ' \t ', '   '])
        if self.depth > 0:
            if x < 0.9:
                self.hit('newline-in-brackets')
                return r.choice([' \n ', '\n', '\r\n  ', '\n\n'])
            self.hit('comment-in-brackets')
            return ' ' + comment_text(r) + r.choice(['\n', '\r\n'])
        return ' '

    def operand(self, t):
        s = self.expr(t)
        if self.atomish(t):
            if self.r.random() < 0.1:
                self.hit('paren-atom')
                return self.br('(', s, ')')
            return s
        if self.r.random() < 0.15:
            self.hit('double-paren')
            return self.br('(', self.br('(', s, ')'), ')')
        return self.br('(', s, ')')

    def br(self, o, inner, c):
        return o + inner + c

    def inside(self, f):
        self.depth += 1
        try:
            return f()
        finally:
            self.depth -= 1

    def args(self, ts, allow_trailing=True):
        def go():
            parts = []
            for i, t in enumerate(ts):
                if i:
                    parts.append(',' + self.gap())
                e = self.expr(t)
                if self.r.random() < 0.08:
                    self.hit('paren-arg')
                    e = '(' + e + ')'
                parts.append(e)
            if ts and allow_trailing and self.r.random() < 0.3:
                self.hit('trailing-comma')
                parts.append(self.gap().rstrip(' ') + ',' + self.gap())
            return ''.join(parts)
        return self.inside(go)

    def expr(self, t):
        k = t[0]
        r = self.r
        g = self.gap
        if k in ('num', 'str', 'kw', 'name'):
            return t[1]
        if k == 'bin':
            a, b = self.operand(t[2]), self.operand(t[3])
            op = t[1] if t[1] != 'not in' else 'not' + r.choice([' ', '  ', '\t']) + 'in'
            return f'{a}{g()}{op}{g()}{b}'
        if k == 'un':
            return f'{t[1]}{g()}{self.operand(t[2])}'
        if k == 'call':
            return f'{t[1]}{r.choice(["", " "])}({self.args(t[2])})'
        if k == 'mcall':
            style = r.randrange(3)
            recv = self.operand(t[1]) if t[1][0] in ('name', 'str', 'call', 'list', 'dict', 'kw') else '(' + self.expr(t[1]) + ')'
            if t[1][0] == 'num':
                recv = r.choice(['(' + t[1][1] + ')', t[1][1], t[1][1] + ' '])
                if not recv.startswith('('):
                    self.hit('bare-number-receiver')
            if t[1][0] == 'un' and t[1][2][0] in ('name', 'num', 'kw', 'str') and r.random() < 0.6:
                # `-r.f(a)` / `not r | f(a)`: prefix operators bind tighter than the call suffixes
                self.hit('bare-prefix-receiver')
                recv = t[1][1] + (' ' if t[1][1] == 'not' else r.choice(['', ' '])) + t[1][2][1]
            if style == 0:
                self.hit('call-style-fn')
                return f'{t[2]}({self.args([t[1]] + t[3])})'
            if style == 1:
                self.hit('call-style-method')
                return f'{recv}{r.choice(["", " ", ""])}.{r.choice(["", " "])}{t[2]}({self.args(t[3])})'
            self.hit('call-style-pipe')
            if not t[3]:
                return f'({recv} | {t[2]})'
            return f'({recv} |{g()}{t[2]}({self.args(t[3])}))'
        if k == 'index':
            return f'{self.operand(t[1])}[{self.inside(lambda: self.expr(t[2]))}]'
        if k == 'slice':
            a = self.inside(lambda: self.operand(t[3][0]))
            b = self.inside(lambda: self.operand(t[3][1]))
            return f'{self.operand(t[1])}[{fill_slice(t[2], a, b)}]'
        if k == 'list':
            return f'[{self.args(t[1])}]'
        if k == 'dict':
            def go():
                parts = []
                for i, (a, b) in enumerate(t[1]):
                    if i:
                        parts.append(',' + g())
                    parts.append(f'{self.operand(a)}{g()}:{g()}{self.operand(b)}')
                if t[1] and r.random() < 0.3:
                    self.hit('trailing-comma-dict')
                    parts.append(',' + g())
                return ''.join(parts)
            return '{' + self.inside(go) + '}'
        if k == 'if':
            return f'{self.operand(t[1])} if {self.operand(t[2])} else {self.operand(t[3])}'
        if k == 'lam':
            ps = t[1][0] if len(t[1]) == 1 else '(' + self.inside(lambda: (',' + g()).join(t[1])) + ')'
            return f'{ps}{g()}=>{g()}{self.operand(t[2])}'
        raise ValueError(k)

    def program(self, stmts):
        r = self.r
        out = []
        if r.random() < 0.15:
            self.hit('leading-blank-statement')
            out.append(r.choice(['\n', ';', '\r\n', '  \n', comment_text(r) + '\n']))
        for i, s in enumerate(stmts):
            if i:
                sep = r.choice(['\n', ';', '\r\n', ' ; ', '\n\n', ';;', ' ' + comment_text(r) + '\n', '  ' + comment_text(r) + '\r\n', '\n;\n', ';\r\n'])
                self.hit('sep:' + repr(sep))
                out.append(sep)
            out.append(self.stmt(s))
        if r.random() < 0.25:
            self.hit('trailing-blank-statement')
            out.append(r.choice(['\n', ';', ' ' + comment_text(r), '\r\n\r\n', ' ;', '\n' + comment_text(r)]))
        return ''.join(out)


def layout_pair(r, kinds=None):
    stmts = [gen_stmt(r) for _ in range(r.choice([1, 1, 2, 3]))]
    return Plain().program(stmts), Decorated(r, kinds).program(stmts)


# ---------------------------------------------------------------- error positions (C20)
STRAY = [')', ']', '}', '1', 'x', '"s"', ',', ':', '=>', '=', 'else', 'in', '+', '.', 'for', '$', '~', '&&',
         'null', 'true', 'false', 'none', 'nil', 'TRUE', 'NONE', 'True', 'None', 'and', 'not', 'del', 'while', '%p q%', '007', '1.5.2', '"unterminated']


def error_text(r):
    """a valid multi-line program made invalid by one stray token / truncation, with a mixture of separators and
    multi-line bracketed literals before the error"""
    stmts = [gen_stmt(r) for _ in range(r.randint(1, 5))]
    d = Decorated(r)
    text = d.program(stmts)
    k = r.randrange(4)
    if k == 0:
        cut = r.randrange(len(text) + 1)
        return text[:cut]
    pos = r.randrange(len(text) + 1)
    return text[:pos] + ' ' + r.choice(STRAY) + ' ' + text[pos:]
