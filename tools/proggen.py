"""G-prog: type-directed program generator (DESIGN.md §3.2).  Produces source text plus the host
bindings (canonical value syntax) for the EVAL protocol command."""
import random
from sqimpl import hx

T_NUM, T_STR, T_BOOL, T_NONE, T_LNUM, T_LSTR, T_LANY, T_DICT, T_FN1, T_FN2 = range(10)
ALL_T = [T_NUM, T_STR, T_BOOL, T_NONE, T_LNUM, T_LSTR, T_LANY, T_DICT]

NUM_LITS = ['0', '1', '2', '3', '5', '7', '10', '12', '100', '0.5', '1.5', '2.25', '0.1', '0.2', '3.14159',
            '1000000', '0.001', '99.99', '12345678901234567890.123456789', '0.30', '1.0', '007']
STR_LITS = ['""', '"a"', '"ab"', '"abc"', '"Hello World"', '"a,b,c"', '" pad "', '"x1y22z"', "'q'", '"привет"', '"A b"',
            '"12"', '"-3"', '"k"', '"k2"', '"0"', '"1"']
KEYS = ['"k"', '"k2"', '"a"', '1', '0', '2', '1.0', 'True', 'None', '-1', '"1"']


def dec_atom(text, custom=True):
    neg = text.startswith('-')
    t = text.lstrip('-')
    ip, _, fp = t.partition('.')
    return f'D:{1 if neg else 0}:{int(ip + fp)}:{-len(fp)}:{"c" if custom else "b"}'


class HostEnv:
    """host-supplied initial names; returns (names S-expr, {name: type})"""

    def __init__(self, rng):
        self.r = rng
        self.n = 1     # object numbers; 0 is the names mapping itself

    def num(self):
        r = self.r
        k = r.randrange(6)
        if k == 0:
            return 'I:' + str(r.choice([0, 1, 2, 3, -1, 7, 10, 255, 10 ** 12, -5]))
        if k == 1:
            return dec_atom(r.choice(['1', '2.5', '-3', '0.25', '100', '0', '-0.5']), custom=False)
        return dec_atom(r.choice(['1', '2', '3', '4.5', '0', '-2', '10', '0.1', '33.3']))

    def s(self):
        return 'S:' + hx(self.r.choice(['', 'a', 'ab', 'host', 'a b c', 'X', 'k', 'Zz9', 'да']))

    def lnum(self, n=None):
        i = self.n
        self.n += 1
        k = self.r.randint(0, 5) if n is None else n
        return f'(L {i}' + ''.join(' ' + self.num() for _ in range(k)) + ')'

    def lstr(self):
        i = self.n
        self.n += 1
        return f'(L {i}' + ''.join(' ' + self.s() for _ in range(self.r.randint(0, 4))) + ')'

    def dict_(self, depth=0):
        i = self.n
        self.n += 1
        out = f'(M {i}'
        used = set()
        for _ in range(self.r.randint(0, 4)):
            k = self.r.choice(['k', 'k2', 'a', '1', '0', 'x y'])
            if k in used:
                continue
            used.add(k)
            out += f' (S:{hx(k)} {self.anyval(depth + 1)})'
        return out + ')'

    def anyval(self, depth=0):
        k = self.r.randrange(8 if depth < 2 else 5)
        if k <= 1:
            return self.num()
        if k == 2:
            return self.s()
        if k == 3:
            return self.r.choice(['T', 'F', 'N'])
        if k == 4:
            return self.num()
        if k == 5:
            return self.lnum()
        if k == 6:
            return self.dict_(depth)
        i = self.n
        self.n += 1
        return f'(L {i}' + ''.join(' ' + self.anyval(depth + 1) for _ in range(self.r.randint(0, 3))) + ')'

    def build(self, hostfns=True):
        r = self.r
        ent, types = [], {}

        def add(name, val, ty):
            ent.append(f'(S:{hx(name)} {val})')
            types[name] = ty
        if r.random() < 0.8:
            add('hn', self.num(), T_NUM)
        if r.random() < 0.5:
            add('hi', 'I:' + str(r.choice([0, 1, 2, 3, 5])), T_NUM)
        if r.random() < 0.6:
            add('hs', self.s(), T_STR)
        if r.random() < 0.7:
            add('hl', self.lnum(), T_LNUM)
        if r.random() < 0.4:
            add('hls', self.lstr(), T_LSTR)
        if r.random() < 0.6:
            add('hd', self.dict_(), T_DICT)
        if r.random() < 0.3:
            # two names sharing one object
            i = self.n
            v = self.lnum()
            add('sh1', v, T_LNUM)
            add('sh2', f'(R {i})', T_LNUM)
        if r.random() < 0.3:
            add('hany', self.anyval(), T_LANY)
        if r.random() < 0.2:
            add('len', self.num(), T_NUM)          # host binding overriding a builtin
        if hostfns:
            for f in ('probe', 'apply', 'try_apply'):
                ent.append(f'(S:{hx(f)} H:{f})')
        return '(M 0 ' + ' '.join(ent) + ')', types


class ProgGen:
    def __init__(self, rng, maxdepth=4, illtyped=0.03, hostfns=True, rand_ok=True, regex_ok=True):
        self.r = rng
        self.maxdepth = maxdepth
        self.ill = illtyped
        self.hostfns = hostfns
        self.rand_ok = rand_ok
        self.regex_ok = regex_ok
        self.vars = {}
        self.probe_id = 0
        self.kinds = {}

    def hit(self, k):
        self.kinds[k] = self.kinds.get(k, 0) + 1

    def names_of(self, ty):
        return [n for n, t in self.vars.items() if t == ty]

    def pick_type(self):
        return self.r.choice([T_NUM, T_NUM, T_NUM, T_STR, T_STR, T_BOOL, T_LNUM, T_LNUM, T_LSTR, T_DICT, T_LANY, T_NONE])

    def e(self, ty, d=0):
        r = self.r
        if r.random() < self.ill:
            ty = self.pick_type()
            self.hit('illtyped')
        if self.hostfns and d > 0 and r.random() < 0.04:
            self.probe_id += 1
            self.hit('probe')
            inner = self.e(ty, d + 1) if d < self.maxdepth else self.leaf(ty)
            return f'(probe({self.probe_id + 100}) and {inner})' if r.random() < 0.3 else f'apply(v => v, {inner})'
        if d >= self.maxdepth or r.random() < 0.18:
            return self.leaf(ty)
        m = {T_NUM: self.num, T_STR: self.str_, T_BOOL: self.bool_, T_NONE: self.none, T_LNUM: self.lnum,
             T_LSTR: self.lstr, T_LANY: self.lany, T_DICT: self.dict_}[ty]
        return m(d + 1)

    def leaf(self, ty):
        r = self.r
        ns = self.names_of(ty)
        if ns and r.random() < 0.55:
            return r.choice(ns)
        if ty == T_NUM:
            return r.choice(NUM_LITS)
        if ty == T_STR:
            return r.choice(STR_LITS)
        if ty == T_BOOL:
            return r.choice(['True', 'False'])
        if ty == T_NONE:
            return 'None'
        if ty == T_LNUM:
            return '[' + ', '.join(r.choice(NUM_LITS) for _ in range(r.randint(0, 4))) + ']'
        if ty == T_LSTR:
            return '[' + ', '.join(r.choice(STR_LITS) for _ in range(r.randint(0, 3))) + ']'
        if ty == T_LANY:
            return '[' + ', '.join(self.leaf(r.choice([T_NUM, T_STR, T_BOOL, T_NONE, T_LNUM])) for _ in range(r.randint(0, 3))) + ']'
        if ty == T_DICT:
            return '{' + ', '.join(f'{r.choice(KEYS)}: {self.leaf(r.choice([T_NUM, T_STR, T_LNUM]))}' for _ in range(r.randint(0, 3))) + '}'
        return 'None'

    def lam1(self, argty, resty, d):
        v = self.r.choice(['v', 'w', 'x'])
        old = self.vars.get(v)
        self.vars[v] = argty
        body = self.e(resty, d + 1)
        if old is None:
            del self.vars[v]
        else:
            self.vars[v] = old
        self.hit('lambda1')
        return f'({v} => {body})'

    def lam2(self, t1, t2, resty, d):
        a, b = self.r.choice([('a', 'b'), ('p', 'q')])
        o1, o2 = self.vars.get(a), self.vars.get(b)
        self.vars[a], self.vars[b] = t1, t2
        body = self.e(resty, d + 1)
        for n, o in ((a, o1), (b, o2)):
            if o is None:
                del self.vars[n]
            else:
                self.vars[n] = o
        self.hit('lambda2')
        return f'(({a}, {b}) => {body})'

    def num(self, d):
        r = self.r
        k = r.randrange(26)
        E = self.e
        if k <= 4:
            op = r.choice(['+', '-', '*', '/', '+', '-', '*', '**'])
            self.hit('bin' + op)
            if op == '**':
                return f'({E(T_NUM, d)} ** {r.choice(["0", "1", "2", "3"])})'
            return f'({E(T_NUM, d)} {op} {E(T_NUM, d)})'
        if k == 5:
            self.hit('neg')
            return f'(-{E(T_NUM, d)})'
        if k == 6:
            self.hit('len')
            return f'len({E(r.choice([T_STR, T_LNUM, T_LSTR, T_DICT, T_LANY]), d)})'
        if k == 7:
            f = r.choice(['int', 'floor', 'ceil', 'abs', 'round'])
            self.hit(f)
            return f'{f}({E(T_NUM, d)})'
        if k == 8:
            self.hit('round2')
            return f'round({E(T_NUM, d)}, {r.choice(["0", "1", "2", "3", "-1"])})'
        if k == 9:
            f = r.choice(['sum', 'min', 'max'])
            self.hit(f)
            return f'{f}({E(T_LNUM, d)})'
        if k == 10:
            f = r.choice(['min', 'max'])
            self.hit(f + '2')
            return f'{f}({E(T_NUM, d)}, {E(T_NUM, d)})'
        if k == 11:
            self.hit('index')
            return f'{E(T_LNUM, d)}[{r.choice(["0", "1", "-1", "2", "0.9", "1.5"])}]'
        if k == 12:
            self.hit('ifexpr')
            return f'({E(T_NUM, d)} if {E(T_BOOL, d)} else {E(T_NUM, d)})'
        if k == 13:
            self.hit('call-lambda')
            return f'apply({self.lam1(T_NUM, T_NUM, d)}, {E(T_NUM, d)})' if self.hostfns else E(T_NUM, d)
        if k == 14:
            self.hit('reduce')
            return f'reduce({E(T_LNUM, d)}, {self.lam2(T_NUM, T_NUM, T_NUM, d)})'
        if k == 15 and self.rand_ok:
            self.hit('rand')
            return r.choice(['rand(1, 6)', 'rand()', f'rand({E(T_LNUM, d)})', 'rand(0, 0)', 'rand(-3, 3)'])
        if k == 16:
            self.hit('int-str')
            return f'int({r.choice(STR_LITS[11:14])})'
        if k == 17:
            self.hit('get')
            return f'get({E(T_DICT, d)}, {r.choice(KEYS)}, {E(T_NUM, d)})'
        if k == 18:
            self.hit('index_of')
            return f'index_of({E(T_LNUM, d)}, {E(T_NUM, d)})'
        if k == 19:
            self.hit('and-or-num')
            return f'({E(T_NUM, d)} {r.choice(["and", "or"])} {E(T_NUM, d)})'
        if k == 20:
            self.hit('float')
            return f'float({r.choice(["1", "2", "10", "0", "3.0"])})'
        if k == 21:
            self.hit('pop')
            return f'pop({E(T_LNUM, d)})'
        return self.leaf(T_NUM)

    def str_(self, d):
        r = self.r
        k = r.randrange(20)
        E = self.e
        if k <= 1:
            self.hit('str+')
            return f'({E(T_STR, d)} + {E(r.choice([T_STR, T_STR, T_NUM, T_BOOL, T_LNUM, T_NONE]), d)})'
        if k == 2:
            self.hit('str()')
            return f'str({E(r.choice(ALL_T), d)})'
        if k == 3:
            f = r.choice(['upper', 'lower', 'strip'])
            self.hit(f)
            return r.choice([f'{f}({E(T_STR, d)})', f'{E(T_STR, d)}.{f}()', f'({E(T_STR, d)} | {f})'])
        if k == 4:
            self.hit('replace')
            return f'replace({E(T_STR, d)}, {r.choice(STR_LITS)}, {r.choice(STR_LITS)})'
        if k == 5:
            self.hit('join')
            return f'join({E(r.choice([T_LNUM, T_LSTR, T_LANY]), d)}, {r.choice(STR_LITS)})'
        if k == 6:
            self.hit('pretty')
            return f'pretty({E(r.choice([T_NUM, T_LNUM, T_DICT, T_STR]), d)})'
        if k == 7:
            self.hit('str-index')
            return f'{E(T_STR, d)}[{r.choice(["0", "-1", "1", "5"])}]'
        if k == 8:
            self.hit('str-slice')
            return f'{E(T_STR, d)}[{r.choice(["1:", ":2", "1:3", "::2", ":-1:", "0::", ":"])}]'
        if k == 9 and self.regex_ok:
            self.hit('match')
            fl = r.choice(["", ', "i"', ', "ms"'])
            return f'match({E(T_STR, d)}, {r.choice(RX)}{fl})'
        if k == 10:
            self.hit('reversed-str')
            return f'reversed({E(T_STR, d)})'
        if k == 11:
            self.hit('ifexpr')
            return f'({E(T_STR, d)} if {E(T_BOOL, d)} else {E(T_STR, d)})'
        if k == 12:
            self.hit('lstr-index')
            return f'{E(T_LSTR, d)}[{r.choice(["0", "-1", "1"])}]'
        if k == 13:
            self.hit('pretty-sep')
            return f'pretty({E(r.choice([T_NUM, T_LNUM, T_DICT]), d)}, {r.choice(STR_LITS)})'
        return self.leaf(T_STR)

    def bool_(self, d):
        r = self.r
        k = r.randrange(16)
        E = self.e
        if k <= 3:
            op = r.choice(['==', '!=', '<', '>', '<=', '>='])
            self.hit('cmp' + op)
            t = r.choice([T_NUM, T_NUM, T_STR, T_LNUM])
            return f'({E(t, d)} {op} {E(t, d)})'
        if k == 4:
            self.hit('eq-mixed')
            return f'({E(r.choice(ALL_T), d)} {r.choice(["==", "!="])} {E(r.choice(ALL_T), d)})'
        if k == 5:
            op = r.choice(['and', 'or'])
            self.hit(op)
            return f'({E(T_BOOL, d)} {op} {E(T_BOOL, d)})'
        if k == 6:
            self.hit('not')
            return f'(not {E(r.choice([T_BOOL, T_NUM, T_STR, T_LNUM, T_DICT, T_NONE]), d)})'
        if k == 7:
            op = r.choice(['in', 'not in'])
            self.hit(op)
            return r.choice([f'({E(T_NUM, d)} {op} {E(T_LNUM, d)})', f'({E(T_STR, d)} {op} {E(T_STR, d)})',
                             f'({r.choice(KEYS)} {op} {E(T_DICT, d)})', f'({E(T_STR, d)} {op} {E(T_LSTR, d)})'])
        if k == 8:
            f = r.choice(['startswith', 'endswith'])
            self.hit(f)
            return f'{E(T_STR, d)}.{f}({E(T_STR, d)})'
        return self.leaf(T_BOOL)

    def none(self, d):
        r = self.r
        k = r.randrange(6)
        if k == 0:
            self.hit('push-expr')
            return f'push({self.e(T_LNUM, d)}, {self.e(T_NUM, d)})'
        if k == 1 and self.regex_ok:
            self.hit('match-none')
            return f'match({self.e(T_STR, d)}, "zzz")'
        return 'None'

    def lnum(self, d):
        r = self.r
        k = r.randrange(22)
        E = self.e
        if k <= 1:
            self.hit('list-lit')
            return '[' + ', '.join(E(T_NUM, d) for _ in range(r.randint(0, 4))) + (',' if r.random() < 0.1 else '') + ']'
        if k == 2:
            self.hit('map')
            return f'map({E(T_LNUM, d)}, {self.lam1(T_NUM, T_NUM, d)})'
        if k == 3:
            self.hit('filter')
            return f'filter({E(T_LNUM, d)}, {self.lam1(T_NUM, T_BOOL, d)})'
        if k == 4:
            self.hit('sorted')
            return r.choice([f'sorted({E(T_LNUM, d)})', f'sorted({E(T_LNUM, d)}, None, True)',
                             f'sorted({E(T_LNUM, d)}, {self.lam1(T_NUM, T_NUM, d)})',
                             f'sorted({E(T_LNUM, d)}, {self.lam1(T_NUM, T_NUM, d)}, True)'])
        if k == 5:
            self.hit('reversed')
            return f'reversed({E(T_LNUM, d)})'
        if k == 6:
            self.hit('list-slice')
            return f'{E(T_LNUM, d)}[{r.choice(["1:", ":2", "1:3", "::2", "::-1", ":-1:", "0::", ":", "-2:", "5:", ":0.5"])}]'
        if k == 7:
            self.hit('list+')
            return f'({E(T_LNUM, d)} + {E(T_LNUM, d)})'
        if k == 8:
            self.hit('values')
            return f'values({E(T_DICT, d)})'
        if k == 9 and self.rand_ok:
            self.hit('shuffle')
            return f'shuffle({E(T_LNUM, d)})'
        if k == 10:
            self.hit('map-str')
            return f'map({E(T_STR, d)}, {self.lam1(T_STR, T_NUM, d)})'
        if k == 11:
            self.hit('map-dict')
            return f'map({E(T_DICT, d)}, {self.lam2(T_STR, T_NUM, T_NUM, d)})'
        if k == 12:
            self.hit('ifexpr')
            return f'({E(T_LNUM, d)} if {E(T_BOOL, d)} else {E(T_LNUM, d)})'
        if k == 13:
            self.hit('pipe')
            return f'({E(T_LNUM, d)} | sorted | reversed)'
        if k == 14:
            self.hit('method-map')
            return f'{E(T_LNUM, d)}.map({self.lam1(T_NUM, T_NUM, d)})'
        return self.leaf(T_LNUM)

    def lstr(self, d):
        r = self.r
        k = r.randrange(12)
        E = self.e
        if k == 0:
            self.hit('split')
            return r.choice([f'split({E(T_STR, d)})', f'split({E(T_STR, d)}, ",")', f'split({E(T_STR, d)}, "b", 1)'])
        if k == 1:
            self.hit('keys')
            return f'keys({E(T_DICT, d)})'
        if k == 2:
            self.hit('map-str2')
            return f'map({E(T_LNUM, d)}, {self.lam1(T_NUM, T_STR, d)})'
        if k == 3 and self.regex_ok:
            self.hit('match_all')
            return f'match_all({E(T_STR, d)}, {r.choice(RX)})'
        if k == 4 and self.regex_ok:
            self.hit('match_groups')
            return f'match_groups({E(T_STR, d)}, {r.choice(RX)})'
        if k == 5:
            self.hit('sorted-str')
            return f'sorted({E(T_LSTR, d)})'
        if k == 6:
            self.hit('liststr-lit')
            return '[' + ', '.join(E(T_STR, d) for _ in range(r.randint(0, 3))) + ']'
        return self.leaf(T_LSTR)

    def lany(self, d):
        r = self.r
        k = r.randrange(10)
        E = self.e
        if k == 0:
            self.hit('enumerate')
            return f'enumerate({E(r.choice([T_LNUM, T_STR, T_LSTR]), d)})'
        if k == 1:
            self.hit('items')
            return f'items({E(T_DICT, d)})'
        if k == 2:
            self.hit('nested-list')
            return '[' + ', '.join(E(r.choice(ALL_T), d) for _ in range(r.randint(0, 3))) + ']'
        if k == 3:
            self.hit('list()')
            return f'list({E(r.choice(ALL_T), d)}, {E(r.choice(ALL_T), d)})'
        return self.leaf(T_LANY)

    def dict_(self, d):
        r = self.r
        k = r.randrange(10)
        E = self.e
        if k <= 1:
            self.hit('dict-lit')
            return '{' + ', '.join(f'{r.choice(KEYS) if r.random() < 0.7 else E(r.choice([T_NUM, T_STR]), d)}: {E(r.choice([T_NUM, T_STR, T_LNUM, T_BOOL]), d)}'
                                   for _ in range(r.randint(0, 3))) + '}'
        if k == 2:
            self.hit('sorted-dict')
            return r.choice([f'sorted({E(T_DICT, d)})', f'sorted({E(T_DICT, d)}, {self.lam2(T_STR, T_NUM, T_STR, d)})'])
        if k == 3:
            self.hit('dict()')
            return r.choice(['dict()', f'dict({E(T_DICT, d)})'])
        return self.leaf(T_DICT)

    def statement(self):
        r = self.r
        k = r.randrange(24)
        E = self.e
        if k <= 5:
            ty = self.pick_type()
            v = r.choice(['x', 'y', 'z', 't', 'u'])
            src = f'{v} = {E(ty)}'
            self.vars[v] = ty
            self.hit('assign')
            return src
        if k == 6:
            ns = self.names_of(T_NUM)
            if ns:
                self.hit('short-num')
                return f'{r.choice(ns)} {r.choice(["+=", "-=", "*=", "/="])} {E(T_NUM)}'
        if k == 7:
            ns = self.names_of(T_LNUM) + self.names_of(T_STR)
            if ns:
                n = r.choice(ns)
                self.hit('short-seq')
                return f'{n} += {E(self.vars[n])}'
        if k == 8:
            ns = self.names_of(T_LNUM)
            if ns:
                self.hit('setitem-list')
                return f'{r.choice(ns)}[{r.choice(["0", "1", "-1", "1.5", "7"])}] = {E(T_NUM)}'
        if k == 9:
            ns = self.names_of(T_DICT)
            if ns:
                self.hit('setitem-dict')
                return f'{r.choice(ns)}[{r.choice(KEYS)}] = {E(r.choice([T_NUM, T_STR, T_LNUM]))}'
        if k == 10:
            ns = self.names_of(T_LNUM)
            if ns:
                self.hit('setitem-op')
                return f'{r.choice(ns)}[{r.choice(["0", "1", "-1"])}] {r.choice(["+=", "-=", "*=", "/="])} {E(T_NUM)}'
        if k == 11:
            ns = self.names_of(T_DICT) + self.names_of(T_LNUM)
            if ns:
                n = r.choice(ns)
                self.hit('del')
                return f'del {n}[{r.choice(KEYS if self.vars[n] == T_DICT else ["0", "1", "-1", "9"])}]'
        if k == 12:
            ns = self.names_of(T_LNUM)
            if ns:
                f = r.choice(['push', 'insert', 'remove', 'pop'])
                self.hit(f)
                n = r.choice(ns)
                return {'push': f'{n}.push({E(T_NUM)})', 'insert': f'insert({n}, {r.choice(["0", "1", "-1", "99"])}, {E(T_NUM)})',
                        'remove': f'remove({n}, {E(T_NUM)})', 'pop': f'{n}.pop({r.choice(["", "0", "-1", "1.5"])})'}[f]
        if k == 13:
            self.hit('def-lambda')
            v = r.choice(['f', 'g'])
            src = f'{v} = {self.lam1(T_NUM, T_NUM, 1)}'
            self.vars[v] = T_FN1
            return src
        if k == 14:
            fs = self.names_of(T_FN1)
            if fs:
                self.hit('call-named-lambda')
                return f'{r.choice(fs)}({E(T_NUM)})'
        if k == 15:
            ns = self.names_of(T_DICT)
            if ns:
                self.hit('dict-nested-push')
                return f'push({r.choice(ns)}[{r.choice(KEYS)}], {E(T_NUM)})'
        if k == 16 and self.hostfns:
            self.hit('try_apply')
            return f'try_apply(v => {E(self.pick_type(), 2)}, {E(T_NUM, 2)})'
        if k == 17:
            self.hit('empty-stmt')
            return ''
        self.hit('expr-stmt')
        return E(self.pick_type())

    def program(self, hosttypes):
        self.vars = dict(hosttypes)
        n = self.r.choice([1, 1, 2, 3, 4, 6])
        stmts = [self.statement() for _ in range(n)]
        seps = [self.r.choice(['\n', '; ', '\n']) for _ in stmts]
        return ''.join(s + sep for s, sep in zip(stmts, seps)).rstrip('\n; ') or stmts[0]


RX = ['"a"', '"[a-z]+"', '"(\\\\d+)"', '"(a)(b)?"', '"^h"', '"l+"', '"x|y"', '"(?i)A"', '"."', '"\\\\s"', '"("', '"b$"']


def eval_case(rng, budget=None, **kw):
    """one EVAL protocol line (without tree/rx extras, which the implementation adds) + generator stats"""
    he = HostEnv(rng)
    hostfns = kw.pop('hostfns', True)
    names, types = he.build(hostfns)
    g = ProgGen(rng, hostfns=hostfns, **kw)
    src = g.program(types)
    probes = ''
    if g.probe_id:
        ps = []
        for i in range(1, g.probe_id + 1):
            c = rng.randrange(4)
            if c == 0:
                ps.append(f'({i + 100} ret F)')
            elif c == 1:
                ps.append(f'({i + 100} raise {rng.choice(["ValueError", "parser", "KeyError"])})')
        probes = ' '.join(ps)
    if budget is None:
        budget = rng.choice([2000, 2000, 2000, 100, 30, 12, 5])
    return (f'EVAL (src {hx(src)}) (budget {budget}) (rng {rng.randrange(1, 2**32)}) (names {names}) (probes {probes})',
            src, g.kinds)
