"""Correspondence engine: run the same protocol lines through the implementation (scratch copy of
/repo's working tree, in worker processes) and through the compiled Lean model; diff canonical output."""
import multiprocessing as mp, os, sys, time
HERE = os.path.dirname(os.path.abspath(__file__))
sys.path.insert(0, HERE)
import sqimpl, modeldrv

JOBS = int(os.environ.get('VERIF_JOBS', '16'))
_impl = None


def _init(scratch):
    global _impl
    os.environ['SQ_SCRATCH'] = scratch
    sys.setrecursionlimit(20000)
    _impl = None


def get_impl():
    global _impl
    if _impl is None:
        _impl = sqimpl.Impl()
    return _impl


def impl_answer(line):
    im = get_impl()
    cmd, _, rest = line.partition(' ')
    if cmd == 'PARSE':
        return im.parse_out(sqimpl.unhx(rest))
    if cmd == 'NAMES':
        return im.names_out(sqimpl.unhx(rest))
    if cmd == 'LEX':
        return im.lex_out(sqimpl.unhx(rest))
    if cmd in ('EVAL', 'SESSION', 'DEC', 'BUILTIN', 'FRESH'):
        import evalimpl
        return evalimpl.answer(im, cmd, rest)
    if cmd == 'MON':
        import monimpl
        return monimpl.answer(im, rest)
    return 'bad-op'


def _impl_chunk(lines):
    out = []
    for l in lines:
        try:
            out.append(impl_answer(l))
        except RecursionError:
            out.append('X RecursionError')
        except Exception as e:
            out.append('HARNESS-ERROR ' + type(e).__name__ + ' ' + str(e)[:200].replace('\n', ' '))
    return out


_pool = None


def pool():
    global _pool
    if _pool is None:
        scratch = sqimpl.scratch_dir()
        _pool = mp.get_context('fork').Pool(JOBS, initializer=_init, initargs=(scratch,))
    return _pool


def run_impl(lines, chunk=500):
    if lines and lines[0].startswith(('SESSION', 'FRESH', 'MON c11', 'MON c17', 'MON c05', 'MON c03_adders', 'MON c13')):
        chunk = 4
    elif lines and lines[0].startswith('MON'):
        chunk = 100
    if len(lines) <= chunk:
        return _impl_chunk(lines)
    chunks = [lines[i:i + chunk] for i in range(0, len(lines), chunk)]
    res = pool().map(_impl_chunk, chunks)
    return [x for r in res for x in r]


def compare(lines, normal=None):
    """returns (impl_out, model_out, diffs) ; diffs = list of indices where the two differ.
    Model lines starting with 'U ' (unmodelled) are not disagreements."""
    t0 = time.time()
    pool()   # fork the workers BEFORE any driver pipe exists (a forked child would keep the pipe open)
    io = run_impl(lines)
    # two-phase commands: the implementation's answer may carry extras for the model after a TAB
    # (its own parse tree, the regex engine's answers)
    mlines, midx = [], []
    for i, (l, a) in enumerate(zip(lines, io)):
        if '\t' in a:
            a, extra = a.split('\t', 1)
            io[i] = a
            l = l + ' ' + extra
        if a in ('parse-error', 'X RecursionError') :
            continue
        mlines.append(l)
        midx.append(i)
    mres = modeldrv.run_model_parallel(mlines, JOBS)
    mo = ['U skipped'] * len(lines)
    for i, r in zip(midx, mres):
        mo[i] = r
    diffs = []
    for i, (a, b) in enumerate(zip(io, mo)):
        if b.startswith('U '):
            continue
        if normal:
            a, b = normal(a), normal(b)
        if a != b:
            diffs.append(i)
    return io, mo, diffs, time.time() - t0
