"""Correspondence engine: run the same protocol lines through the implementation (scratch copy of
/repo's working tree, in worker processes) and through the compiled Lean model; diff canonical output."""
import multiprocessing as mp, os, re, sys, time
HERE = os.path.dirname(os.path.abspath(__file__))
sys.path.insert(0, HERE)
import sqimpl, modeldrv

JOBS = int(os.environ.get('VERIF_JOBS', '16'))
MODELPARSER = os.environ.get('VERIF_IMPL_TREES', '') != '1'
# `(dencheck)`: the model driver also evaluates every EVAL line with the compositional semantics (lean/Sq/Denote.lean) and
# tags its answer same / nofuel / DIFF; the tags are counted here (DEN_LAST: the last compare() call) and stripped
DENCHECK = os.environ.get('VERIF_NO_DENCHECK', '') != '1'
DEN_LAST = {}
_impl = None


_hist = None
_hist_n = 0
_HIST_DIR = None


def _init(scratch):
    global _impl, _hist, _HIST_DIR
    os.environ['SQ_SCRATCH'] = scratch
    sys.setrecursionlimit(20000)
    _impl = None
    _HIST_DIR = scratch
    _hist = None


def _note(line):
    """a worker's own record of the stateful calls it has made (kept short): when a call never returns, the
    parent reads it to report the history that led to the hang"""
    global _hist, _hist_n
    if _HIST_DIR is None:
        return
    if _hist is None or _hist_n > 4000:
        tail = []
        path = os.path.join(_HIST_DIR, 'hist_%d.log' % os.getpid())
        if _hist is not None:
            _hist.close()
            tail = open(path).read().split('\n')[-400:]
        _hist = open(path, 'w')
        _hist.write('\n'.join(tail))
        _hist_n = 0
    _hist.write(line + '\n')
    _hist.flush()
    _hist_n += 1


def get_impl():
    global _impl
    if _impl is None:
        _impl = sqimpl.Impl()
    return _impl


def impl_answer(line):
    im = get_impl()
    cmd, _, rest = line.partition(' ')
    if cmd == 'PARSE':
        return im.parse_out(sqimpl.unhx(rest))
    if cmd == 'NAMES':
        return im.names_out(sqimpl.unhx(rest))
    if cmd == 'LEX':
        return im.lex_out(sqimpl.unhx(rest))
    if cmd in ('EVAL', 'SESSION', 'DEC', 'BUILTIN', 'FRESH'):
        import evalimpl
        return evalimpl.answer(im, cmd, rest)
    if cmd == 'MON':
        import monimpl
        return monimpl.answer(im, rest)
    return 'bad-op'


def _impl_chunk(lines):
    out = []
    for l in lines:
        noted = not l.startswith(('PARSE', 'LEX', 'NAMES'))
        if noted:
            _note(l)
        try:
            out.append(impl_answer(l))
        except RecursionError:
            out.append('X RecursionError')
        except Exception as e:
            out.append('HARNESS-ERROR ' + type(e).__name__ + ' ' + str(e)[:200].replace('\n', ' '))
        if noted and _hist is not None:
            _hist.write('<\n')
    if _hist is not None:
        _hist.flush()
    return out


_pool = None
STALL = float(os.environ.get('VERIF_STALL', '120'))      # seconds without any chunk finishing = a hang
HANG_BUDGET = float(os.environ.get('VERIF_HANG_BUDGET', '300'))   # seconds spent isolating hangs per call
hang_log = []          # (lines of the smallest hanging segment) for the evidence / replay files


def pool():
    global _pool
    if _pool is None:
        scratch = sqimpl.scratch_dir()
        _pool = mp.get_context('fork').Pool(JOBS, initializer=_init, initargs=(scratch,))
    return _pool


def _kill_pool():
    global _pool
    if _pool is not None:
        try:
            _pool.terminate()
            _pool.join()
        except Exception:
            pass
        _pool = None


stuck_histories = []     # for every hang seen: the recent calls of each worker process at that moment


def _collect_histories():
    import glob
    d = sqimpl.scratch_dir()
    for f in glob.glob(os.path.join(d, 'hist_*.log')):
        try:
            h = [x for x in open(f).read().split('\n') if x][-600:]
        except Exception:
            continue
        if h and h[-1] != '<':           # this worker was inside a call
            pid = int(re.search(r'hist_(\d+)\.log', f).group(1))
            try:
                os.kill(pid, 0)
                dead = False
            except OSError:
                dead = True
            stuck_histories.append((h[-1], [x for x in h if x != '<'][-300:], dead))
        try:
            os.remove(f)
        except OSError:
            pass


def _run_chunks(chunks, stall):
    """run the chunks in the pool; returns (results, unfinished indices).  A call that makes no progress for
    `stall` seconds is abandoned: the pool is killed (hung or dead workers) and the caller isolates the culprit."""
    p = pool()
    asyncs = [p.apply_async(_impl_chunk, (c,)) for c in chunks]
    res = [None] * len(chunks)
    left = set(range(len(chunks)))
    last = time.time()
    while left:
        prog = False
        for i in list(left):
            if asyncs[i].ready():
                try:
                    res[i] = asyncs[i].get(0)
                except Exception as e:          # the worker died with the task
                    res[i] = None
                    continue
                left.discard(i)
                prog = True
        if prog:
            last = time.time()
        elif time.time() - last > stall:
            _collect_histories()
            _kill_pool()
            return res, sorted(left)
        else:
            time.sleep(0.02)
    return res, []


def _isolate(lines, deadline, top=False):
    """answers for a chunk that did not come back: bisect to the smallest segment that hangs (or kills its
    worker) when run from a fresh process; that segment's last line is answered `X worker-hang`."""
    if time.time() > deadline:
        return ['X worker-hang (not isolated)'] * len(lines)
    res, left = _run_chunks([lines], min(STALL, 60))
    if not left:
        return res[0]
    if len(lines) == 1:
        hang_log.append(list(lines))
        dead = any(d for (l, _, d) in stuck_histories[-JOBS:] if l == lines[0])
        return ['X worker-crash' if dead else 'X worker-hang']
    h = len(lines) // 2
    a = _isolate(lines[:h], deadline)
    b = _isolate(lines[h:], deadline)
    if not any(x.startswith(('X worker-hang', 'X worker-crash')) for x in a + b):
        # neither half hangs on its own: the hang needs the history of the whole segment
        hang_log.append(list(lines))
        b = b[:-1] + ['X worker-hang (after %d earlier calls in the same process)' % (len(lines) - 1)]
    return a + b


def run_impl(lines, chunk=500):
    if lines and lines[0].startswith(('SESSION', 'FRESH', 'MON c11', 'MON c17', 'MON c05', 'MON c03_adders', 'MON c13')):
        chunk = 4
    elif lines and lines[0].startswith('MON'):
        chunk = 100
    if not lines:
        return []
    chunks = [lines[i:i + chunk] for i in range(0, len(lines), chunk)]
    # once a hang has been pinned down in this check, later calls do not spend minutes on further ones
    later = len(hang_log) > 0
    res, left = _run_chunks(chunks, 25 if later else STALL)
    if left:
        n_stuck = len(stuck_histories)
        deadline = time.time() + (20 if later else HANG_BUDGET)
        # chunks that were merely queued behind the hung ones finish at once; the others are bisected
        res2, left2 = _run_chunks([chunks[i] for i in left], min(STALL, 60))
        for j, i in enumerate(left):
            if j not in left2:
                res[i] = res2[j]
        for j in left2:
            res[left[j]] = _isolate(chunks[left[j]], deadline, top=True)
        # a call that hung in a long-lived worker but answers from a fresh process: the hang depends on what that
        # worker had evaluated before (module-level state in the implementation) - report it with that history
        for inflight, hist, dead in stuck_histories[n_stuck:]:
            for i in left:
                if inflight in chunks[i]:
                    j = chunks[i].index(inflight)
                    if res[i] is not None and not res[i][j].startswith(('X worker-hang', 'X worker-crash')):
                        res[i][j] = ('X worker-crash' if dead else 'X worker-hang') + ' (history-dependent)'
                        hang_log.append(hist)
                    break
    return [x for r in res for x in r]


def compare(lines, normal=None):
    """returns (impl_out, model_out, diffs) ; diffs = list of indices where the two differ.
    Model lines starting with 'U ' (unmodelled) are not disagreements."""
    t0 = time.time()
    pool()   # fork the workers BEFORE any driver pipe exists (a forked child would keep the pipe open)
    io = run_impl(lines)
    # two-phase commands: the implementation's answer may carry extras for the model after a TAB
    # (its own parse tree, the regex engine's answers)
    mlines, midx = [], []
    for i, (l, a) in enumerate(zip(lines, io)):
        if '\t' in a:
            a, extra = a.split('\t', 1)
            io[i] = a
            l = l + ' ' + extra
        if a == 'X RecursionError' or (a == 'parse-error' and not (MODELPARSER and l.startswith('EVAL '))):
            continue
        # the model reads the source text with ITS OWN parser (the implementation's tree, sent along as an extra, is
        # not used): a parse-time rewrite in the implementation cannot hide from an evaluation property
        if MODELPARSER and l.startswith(('EVAL ', 'SESSION ')) and '(modelparser)' not in l:
            l += ' (modelparser)'
        if DENCHECK and l.startswith('EVAL ') and '(dencheck)' not in l:
            l += ' (dencheck)'
        mlines.append(l)
        midx.append(i)
    mres = modeldrv.run_model_parallel(mlines, JOBS)
    mo = ['U skipped'] * len(lines)
    den = {}
    for i, r in zip(midx, mres):
        j = r.rfind(' ;; den=')
        if j >= 0:
            tag = r[j + 8:]
            den[tag] = den.get(tag, 0) + 1
            if tag != 'DIFF':      # a DIFF stays in the line: it is a disagreement
                r = r[:j]
        mo[i] = r
    DEN_LAST.clear()
    DEN_LAST.update(den)
    diffs = []
    for i, (a, b) in enumerate(zip(io, mo)):
        if b.startswith('U '):
            continue
        if normal:
            a, b = normal(a), normal(b)
        if a != b:
            diffs.append(i)
    return io, mo, diffs, time.time() - t0
