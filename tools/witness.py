"""Re-run the witness of a known finding against the real code."""
def rerun(ctx, entry):
    return None
