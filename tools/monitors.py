"""Model-free property monitors on the real code (DESIGN.md §4, 'search oracle' of each property): parent side.
Each monitor builds cases from the run's seed (plus the disagreeing cases handed over by the correspondence stage and the
witnesses of the known findings), runs them in the worker pool (tools/monimpl.py) and returns
{name, cases, distinct_nontrivial, rule, samples, failing:[{signature, what, input}], wall_s}."""
import json, random, re, time
import corr, gens, gens2, histgen, layoutgen, proggen, sqimpl
from sqimpl import hx


def big(ctx):
    return ctx['tier'] == 'thorough'


def sz(ctx, quick, thorough):
    """case budget: quick tier; 4x quick (capped) when a proof obligation / tie / slice broke and the failing-input
    search is on; the thorough budget in the thorough tier"""
    if ctx['tier'] == 'thorough':
        return thorough
    if ctx.get('escalate'):
        return min(thorough, 4 * quick)
    return quick


def _run(name, mon, payloads, rule, samples=None):
    t0 = time.time()
    # every fifth payload runs on a USED parser (monimpl._dirty): a few earlier calls of the nasty kinds first
    payloads = [dict(p, dirty=i) if i % 5 == 2 and isinstance(p, dict) and 'dirty' not in p else p for i, p in enumerate(payloads)]
    lines = [f'MON {mon} ' + json.dumps(p) for p in payloads]
    outs = corr.run_impl(lines)
    failing, nontriv, crashed, first_err = [], set(), 0, None
    for l, o in zip(lines, outs):
        if o.startswith('X worker-hang'):
            hist = corr.hang_log[-1][-60:] if corr.hang_log and 'history' in o else []
            failing.append({'signature': 'hang', 'what': 'the call never returned (the worker process had to be killed): ' + o[2:],
                            'input': l[:400], 'history': hist})
            continue
        if o.startswith('X worker-crash'):
            failing.append({'signature': 'interpreter-crash', 'what': 'the worker process died on this case', 'input': l[:400]})
            continue
        if o.startswith('HARNESS-ERROR') or o.startswith('X '):
            crashed += 1
            first_err = first_err or o[:300]
            continue
        try:
            r = json.loads(o)
        except Exception:
            crashed += 1
            first_err = first_err or o[:300]
            continue
        for f in r.get('fail', []):
            f.setdefault('monitor', mon)      # tools/replay.py re-runs the input through the monitor that produced it
            failing.append(f)
        if r.get('nontrivial'):
            nontriv.add(l)
    step = max(1, len(payloads) // 4)
    return {'name': name, 'cases': len(payloads), 'distinct_nontrivial': len(nontriv), 'rule': rule,
            'samples': samples or [json.dumps(p)[:300] for p in payloads[::step][:4]], 'failing': failing,
            'harness_errors': crashed, 'harness_error_sample': first_err, 'wall_s': time.time() - t0}


def _merge(name, parts):
    out = {'name': name, 'cases': 0, 'distinct_nontrivial': 0, 'rule': ' | '.join(p['rule'] for p in parts), 'samples': [], 'failing': [],
           'harness_errors': 0, 'wall_s': 0.0}
    for p in parts:
        out['cases'] += p['cases']
        out['distinct_nontrivial'] += p['distinct_nontrivial']
        out['samples'] += p['samples'][:2]
        out['failing'] += p['failing']
        out['harness_errors'] += p.get('harness_errors', 0)
        out['harness_error_sample'] = out.get('harness_error_sample') or p.get('harness_error_sample')
        out['wall_s'] += p['wall_s']
    return out


def _eval_lines_from(ctx):
    """EVAL lines among the disagreements of the correspondence stage (searched first)"""
    return [d['line'] for d in ctx.get('disagreements', []) if d.get('line', '').startswith('EVAL ')][:200]


def rerun_witness(ctx, entry):
    return None      # witnesses are part of the monitors' own case lists (so they are re-run on every check)


# ------------------------------------------------------------------ C01
def monitor_c01(ctx):
    n = sz(ctx, 600, 6000)
    pays = []
    for l in _eval_lines_from(ctx):
        m = re.search(r'\(budget (\d+)\)', l)
        if m:
            pays.append({'line': l, 'budget': int(m.group(1))})
    for i in range(n):
        rng = random.Random(f'{ctx["seed"]}/mon-c01/{i}')
        if i % 3 == 0:
            l = gens2.scope_cases(f'{ctx["seed"]}-m{i}', 1)[0][0]
        else:
            l, _, _ = proggen.eval_case(rng, budget=100000)
        b = rng.choice([1, 2, 3, 5, 8, 13, 21, 34, 60, 100])
        pays.append({'line': l, 'budget': b})
    a = _run('c01', 'c01', pays, 'programs (incl. ast_names lambdas) at budgets 1..100: independent count of node evaluations vs N; '
             're-run at 10N (monotone); probe log of the aborted run is a prefix of the unbounded run')
    cross = [{'define': 'f = n => n + 1 + 1 + 1 + 1 + 1 + 1', 'call': 'f(1)', 'N': 4},
             {'define': 'g = l => map(l, v => v * 2)', 'call': 'g([1, 2, 3, 4, 5])', 'N': 6}]
    b = _run('c01_cross', 'c01_cross', cross, 'a lambda defined by an earlier eval on a shared names mapping, invoked by a later eval with budget N')
    SC = [{'src': 'l | filter(v => v > 2)', 'names': {'l': [1, 2, 3, 4, 5, 6, 7, 8]}},
          {'src': 'filter(l, v => v + 0 > 2) | len', 'names': {'l': [1, 2, 3, 4, 5, 6, 7, 8]}},
          {'src': 'map(l, v => v * 2 + 1)', 'names': {'l': [1, 2, 3, 4, 5, 6]}}, {'src': 'sorted(l, v => 0 - v)', 'names': {'l': [3, 1, 2, 5, 4]}},
          {'src': 'reduce(l, (a, b) => a + b * 2)', 'names': {'l': [1, 2, 3, 4, 5]}},
          {'src': 'try_apply(w => filter(l, v => v > 2), 0); 1 + 1 + 1', 'names': {'l': [1, 2, 3, 4, 5, 6, 7, 8]}},
          {'src': 'f(1) + f(2)', 'astfns': [['f', ['n'], 'a = n + 1\na + n + 1']]},
          {'src': 'map(l, v => f(v))', 'astfns': [['f', ['n'], 'a = n + 1\na * 2']], 'names': {'l': [1, 2, 3, 4, 5, 6, 7, 8, 9, 10]}},
          {'src': 'g = v => v + 1 + 1; [g(1), g(2), g(3)]'}, {'src': 'x = 0; x += 1; x += 1; x += 1; [x, x + 1, x + 2]'},
          {'src': 'a = 1 + 1 + 1 + 1; sub("1"); b = a + 1 + 1 + 1 + 1 + 1 + 1 + 1; [a, b, a + b + 1 + 1 + 1]', 'reenter': True},
          {'src': 'map(l, v => [sub("2 + 2"), v + 1 + 1][1])', 'reenter': True, 'names': {'l': [1, 2, 3, 4, 5, 6]}}]
    c = _run('c01_scen', 'c01_scen', [{'scenarios': [x]} for x in SC],
             'budget exactness by bisection on ONE parser (needs K: below K the ops-limit error, from K on the identical result, repeatedly): '
             'limits striking inside filter / map / sorted / reduce callbacks, re-used ast_names LambdaOp objects, a host callable re-entering eval')
    KINDS = ['tuple', 'set', 'range', 'keys', 'values', 'items', 'gen', 'frozenset', 'str', 'iter', 'list']
    LATE = [{'src': src, 'kinds': KINDS, 'budgets': [3, 6, 10, 25, 1000]} for src in
            ['map(t, v => v + 1 + 1)', 't | map(v => [v, v])', 'filter(t, v => v == v)', 'sorted(t, v => v)', 'reduce(t, (a, b) => [a, b])', 'enumerate(t)',
             'reversed(t)', 'r = map(t, v => v + 1); 1', 'x = [map(t, v => v + 1 + 1)]; 2', 'map(map(t, v => v), w => [w])', 'list(map(t, v => v + 1))', 'try_apply(w => map(t, v => v + 1 + 1), 0)',
             'f = v => v + 1 + 1 + 1; map(t, f)', 'map(t, str)', 'sum(map(t, v => 1 + 1))', 'join(map(t, v => str(v)), ",")', 'max(map(t, v => 1 + 1))', 'len(filter(t, v => True))']]
    d = _run('c01_late', 'c01_late', LATE, 'host iterables of every kind (tuple, set, range, dict views, generators, strings) under the per-element builtins at '
             'several budgets: no operation starts after eval has returned (the result is not a lazy iterator over the lambda), operations started <= N')
    return _merge('c01', [a, b, c, d])


# ------------------------------------------------------------------ C02
def monitor_c02(ctx):
    names = list(sqimpl.load().functions.FUNCTIONS.keys())
    cases = gens2.builtin_cases(ctx['seed'], names, sz(ctx, 300, 3000))
    pays = [{'line': l} for l in _eval_lines_from(ctx)] + [{'line': c[0]} for c in cases]
    for i in range(sz(ctx, 300, 3000)):
        rng = random.Random(f'{ctx["seed"]}/mon-c02/{i}')
        pays.append({'line': proggen.eval_case(rng)[0]})
    # every builtin name rebound to a lambda of the program and then called with 0..2 arguments, directly and piped: whatever the
    # evaluator passes to a callee named like a builtin must be the caller's arguments and nothing else
    for n in names:
        if n.startswith('__'):
            continue
        for src in (f'{n} = v => v; {n}()', f'{n} = v => [v]; r = {n}(1); r', f'{n} = (a, b) => [a, b]; x = {n}(1, 2); x',
                    f'{n} = v => v; [3, 1, 2] | {n}', f'{n} = (a, b) => a; {n}(1)'):
            pays.append({'line': gens2.eval_line(src)})
    pays.append({'line': gens2.eval_line('dict[0]')})
    # %a.b% names whose head is bound to host data: the dot is part of the NAME (no attribute of a host value is ever read)
    ent = f'(S:{hx("%s%")} S:{hx("abc")}) (S:{hx("%l%")} (L 1 I:1 I:2)) (S:{hx("%n%")} I:5) (S:{hx("%d%")} D:0:15:-1:c)'
    for src in ['%s.upper%', '%s.format%', '[%l.append%]', 'x = %l.copy%; x', '%n.real%', '%n.to_bytes%', '%d.as_tuple%', '%s.upper.__self__%', '%l.0%',
                'try_apply(w => %l.pop%, 0)', '%s.join%(["a"])', 'map([1], v => %n.bit_length%)', '%d.quantize%', '%n.numerator.real%']:
        pays.append({'line': gens2.eval_line(src, ent)})
    pays.append({'line': gens2.eval_line('x = dict["a"]; [x]')})
    # error paths of the library itself (regex timeout on a catastrophic pattern, invalid patterns, arithmetic signals, deep
    # recursion): reporting an error must not do I/O either
    for src in ['match("aaaaaaaaaaaaaaaaaaaaaaaaaaaaaaaaaaaa!", "(a+)+$")', 'match_all("aaaaaaaaaaaaaaaaaaaaaaaaaaaaaaaaaaa!", "(a*)*b")',
                'match_groups("aaaaaaaaaaaaaaaaaaaaaaaaaaaaaaaaaaaa!", "(a|aa)+$")', 'match("a", "(")', 'match_all("a", "[")', 'match("a", "a", 5)',
                'try_apply(w => match("aaaaaaaaaaaaaaaaaaaaaaaaaaaaaaaaaaaa!", "(a+)+$"), 0); 1', '1 / 0', '10 ** 999999 * 10 ** 999999',
                'f = n => f(n + 1); f(0)', 'int("x")', 'undefined_name', 'pop([])', '{"a": 1}["b"]', 'round(1, 5000)', 'float("1e400")']:
        pays.append({'line': gens2.eval_line(src, budget=100000)})
    a = _run('c02', 'c02', pays, 'every builtin x argument shapes + random programs: deep type walk of every node result, the result and '
             'the final names; Python audit events (open/os/subprocess/socket/import/exec/compile/ctypes) during eval')
    FAM = [['match(s, "\\d+")', 'match_all(s, "[a-z]")', 'match_groups(s, "(a)(1)")', 'match(s, "a", "i")', 'match(s, "(")'],
           ['1 / 3', '2 ** 0.5', '1e400 * 1e400', '1 / 0', 'round(2.5)', 'floor(2.5)', 'ceil(1.2)', 'abs(-1)', 'int("12")', 'float("1.5")', 'str(1.5)', 'pretty(1234567)'],
           ['shuffle(l)', 'rand()', 'rand(1, 6)', 'rand(l)'], ['sorted(l)', 'reversed(l)', 'enumerate(l)', 'sum(l)', 'max(l)', 'min(l)', 'join(l, ",")', 'index_of(l, 1)'],
           ['split(s, "b")', 'replace(s, "a", "b")', 'strip(" a ")', 'startswith(s, "a")', 'endswith(s, "c")', 'lower("A")', 's.upper()', 'len(s)', '"x" + 1'],
           ['map(l, v => v * 2)', 'filter(l, v => v > 1)', 'reduce(l, (a, b) => a + b)', 'sorted(l, v => 0 - v)', 'apply(v => v, 1)', 'try_apply(v => 1 / 0, 1)'],
           ['{"a": 1}', 'dict()', 'list(1, 2)', 'keys(d)', 'values(d)', 'items(d)', 'get(d, "k")', 'x = {"a": [1]}; x["a"][0] = 2; del x["a"]; x'],
           ['x = [1]; x.push(2); x', 'insert(l, 0, 1)', 'remove(l, 1)', 'pop(l)', 'y = l; y[0] += 1; y'], ['undefined_name', 'nofn(1)', '1 +', '$', 'f = n => f(n + 1); f(0)']]
    b = _run('c02_process', 'c02_process', [{'srcs': f} for f in FAM],
             'each builtin family evaluated FIRST in a pristine interpreter (forked from a process that imported the library and never '
             'evaluated anything) with the audit hook armed around eval only: imports / file reads / compiles deferred to first use')
    return _merge('c02', [a, b])


# ------------------------------------------------------------------ C03
def monitor_c03(ctx):
    n = sz(ctx, 150, 1500)
    pays = [{'line': l} for l in _eval_lines_from(ctx)]
    for c in gens2.ops_cases(ctx['seed'], n, 1, big_every=6):
        pays.append({'line': c[0]})
    big_l = '(L 1' + ' I:0' * 6000 + ')'
    big_s = 'S:' + hx('ab' * 3000)
    for src, ent in [('h + h', f'(S:{hx("h")} {big_l})'), ('h += h; len(h)', f'(S:{hx("h")} {big_l})'),
                     ('x = h + h; len(x)', f'(S:{hx("h")} {big_l})'), ('sum([h, h])', f'(S:{hx("h")} {big_l})'),
                     ('s += s; map(s, v => v) | len', f'(S:{hx("s")} {big_s})'), ('s += s; len(enumerate(s))', f'(S:{hx("s")} {big_s})'),
                     ('s += s; len(sorted(s))', f'(S:{hx("s")} {big_s})'), ('s += s; len(split(s, "a"))', f'(S:{hx("s")} {big_s})'),
                     ('s += s; len(match_all(s, "."))', f'(S:{hx("s")} {big_s})'), ('h *= 2; len(h)', f'(S:{hx("h")} {big_l})')]:
        pays.append({'line': gens2.eval_line(src, ent, budget=100000)})
    a = _run('c03', 'c03', pays, 'container op sequences around the cap + concatenation / str->list witnesses: length of every list / dict '
             'returned by a node or reachable from result / names vs max(10000, longest host container or str, longest literal)')
    b = _run('c03_adders', 'c03_adders', [{'stmts': [['push(c, 1)', ['list']], ['c.push(1)', ['list']], ['insert(c, 0, 1)', ['list']], ['c[0] = 1', ['list', 'dict']],
                                                      ['c["k"] = 1', ['dict']], ['c[5] = 1', ['dict']], ['c[True] = 0', ['dict']], ['c[1.0] = 0', ['dict']], ['c[10000] = 1', []], ['c[9999] = 1', []], ['c[10001] = 1', []], ['c[20000] = 1', []],
                                                      ['c[10000] += 1', []], ['insert(c, 10000, 1)', ['list']], ['c[-10001] = 1', []], ['c[0] += 1', ['list']], ['c["0"] += 1', ['dict']],
                                                      ['push(c, 1, 2, 3)', []], ['c | push(1)', ['list']], ['c.push(1, 2)', []],
                                                      ['insert(c, 0, 1, 2)', []], ['c | push(1, 2, 3, 4, 5)', []],
                                                      # a new key through the compound form; the adders reached under another name, as a value, via a host callback
                                                      ['c["new"] += 1', ['dict']], ['c["new"] -= 1', ['dict']], ['c["new"] *= 2', ['dict']],
                                                      ['p = push; p(c, 1)', ['list']], ['apply(push, c, 1)', ['list']], ['apply(f => f(c, 1), push)', ['list']],
                                                      ['reduce([c, 1], push)', ['list']], ['q = insert; q(c, 0, 1)', ['list']], ['map([c], v => push(v, 1))', ['list']],
                                                      ['s = __setitem__; s(c, 0, 1)', ['list']], ['s = __setitem__; s(c, "k", 1)', ['dict']],
                                                      ['apply(__setitem_with_op__, c, "0", "+=", 1)', ['dict']], ['try_apply(push, c, 1); push(c, 1)', ['list']],
                                                      ['sorted([c], v => push(v, 1))', ['list']], ['filter([c], v => push(v, 1))', ['list']],
                                                      # index assignment through a missing intermediate key / a multi-step target
                                                      ['c["fresh"]["x"] = 1', ['dict']], ['c["fresh"]["x"]["y"] = 1', ['dict']], ['c["fresh"][0] = 1', ['dict']],
                                                      ['c["fresh"]["x"] += 1', ['dict']], ['get(c, "fresh", 0); c["fresh"] = 1', ['dict']],
                                                      # the right-hand side / key of an index assignment itself adds to the container; an element extended by the compound form
                                                      ['c["outer"] = __setitem__(c, "inner", 1)', []], ['c["o"] = try_apply(w => __setitem__(c, "i", 1), 0)', []],
                                                      ['c[__setitem__(c, "i", "j")] = 1', []], ['c["o"] += try_apply(w => __setitem__(c, "i", 1), 0)', []],
                                                      ['c[0] = push(c, 1)', []], ['c["0"] += [3]', ['dict']], ['c[0] += [3]', ['list']], ['c["0"] *= [3]', []],
                                                      # finding D18: a slice object as the index (obtained by rebinding __getitem__) makes
                                                      # an index assignment insert several elements after ONE size check
                                                      ['__getitem__ = (q, k) => k; s = c[0:0]; c[s] = [1, 2, 3]', []]]}],
             'each element-adding operation on lists and dicts of exactly 10000 and 10001 elements: ParserError and container unchanged')
    return _merge('c03', [a, b])


# ------------------------------------------------------------------ C04
def monitor_c04(ctx):
    pays = [{'line': l} for l in _eval_lines_from(ctx)]
    for c in gens2.num_cases(ctx['seed'], sz(ctx, 2000, 20000)):
        pays.append({'line': c[0].replace(' (modelparser)', '')})
    e = lambda src, ent='': gens2.eval_line(src, ent, hostfns=False)
    big30 = f'(S:{hx("a")} I:{10 ** 30}) (S:{hx("b")} I:{10 ** 30})'
    small = f'(S:{hx("a")} I:1) (S:{hx("b")} I:3) (S:{hx("n")} I:7) (S:{hx("t")} T)'
    for src in ['a / b', 'n / b', 'a / (b * n)', '(a + a) / b', 't / b', 'len("a") / len("abc")', 'a / 10 ** 30', '[a / b, n / b]', 'x = a / b; x * 3', 'a / b + 1', 'a / b - n / b',
                'b / n / n', 'index_of([5, 6, 7], 7) / b', 'sum([a, a]) / b', 'max(a, b) / n', 'f = (p, q) => p / q; f(a, b)', 'map([b, n], v => a / v)']:
        pays.append({'line': e(src, small)})
    pays += [{'line': e('a *= b; a', big30)}, {'line': e('s *= 3; s', f'(S:{hx("s")} S:{hx("ab")}) ')}, {'line': e('l = [a]; l[0] *= b; l', big30)},
             {'line': e('int(10 ** 99)')}, {'line': e('int(a)', f'(S:{hx("a")} D:0:1:3000:b)')}, {'line': e('floor(a)', f'(S:{hx("a")} D:0:1:3000:b)')},
             {'line': e('sum(l)', f'(S:{hx("l")} (L 1' + f' I:{10 ** 30 - 1}' * 12 + '))')}, {'line': e('a * b', big30)}, {'line': e('a ** 2', big30)}]
    for prec in (90, 60, 5):
        pays.append({'ctxprec': prec, 'srcs': ['1 / 3', 'a * a', 'a * a * a', '2 ** 0.5', 'a / 7', 'x = a; x *= a; x', 'sum([1 / 3, 1 / 3])', 'round(a / 3, 40)',
                                               'b * b * b * b', '(1 / 3) * 3', 'l = [a]; l[0] *= a; l']})
    for seq in (['sum([1, None])', '1 / 3', '(1 / 7) * (1 / 7)', 'a * a'], ['sum(["x", 1])', 'sum([1, None])', '2 / 3', '2 ** 0.5'],
                ['0 ** 0', '1 / 3', '1.5 * (2 / 7)'], ['10 ** 1000000', '1 / 3'], ['1 / 0', '1 / 3'], ['round(1, 5000)', '1 / 3', 'a * a * a'],
                ['int("x")', '1 / 3'], ['max([])', '1 / 7'], ['float("1e400")', '1 / 3'], ['[1, 2][5]', '1 / 3'], ['2 ** 0.5', '1 / 3']):
        pays.append({'poison_seq': seq})
    # one node, operands of other types each time it is evaluated (cached trees across evaluations, lambda bodies within one)
    # (`*=` is left out: it uses the native operator whatever came before - finding D12)
    for src in ('a * b', 'a ** b', 'f = (x, y) => x * y; f(a, b)', '[a * b, a * b]', 'a * b * b', 'f = (x, y) => x ** y; f(a, b)'):
        for first in ({'a': 'd2', 'b': 'd3'}, {'a': 'f', 'b': 'd3'}, {'a': 't', 'b': 'i3'}):
            for then in ({'a': 's', 'b': 'i3'}, {'a': 'big', 'b': 'big'}, {'a': 'l', 'b': 'i3'}, {'a': 'i3', 'b': 's'}, {'a': 'bigd', 'b': 'bigd'},
                         {'a': 's', 'b': 't'}, {'a': 'big', 'b': 'i3'}):
                pays.append({'typed_seq': [[src, first], [src, first], [src, then]]})
    for body in ('p[0] * p[1]', 'p[0] ** p[1]', '[p[0] * p[1]][0]', 'apply((x, y) => x * y, p[0], p[1])'):
        for rows in ('[[2, 3], [s, i3]]', '[[2, 3], [2.5, 4], [big, big]]', '[[2, 3], [l, i3]]', '[[t, i3], [i3, s]]', '[[2, 3], [bigd, bigd]]'):
            binds = {'s': 's', 'i3': 'i3', 'big': 'big', 'l': 'l', 't': 't', 'bigd': 'bigd'}
            pays.append({'typed_seq': [[f'map({rows}, p => try_apply(w => {body}, 0))', binds], [f'map({rows}, p => {body})', binds],
                                       [f'f = p => {body}; r = []; map({rows}, p => try_apply(w => push(r, f(p)), 0)); r', binds]]})
    return _run('c04', 'c04', pays, 'numeric expression trees / compound assignments / numeric builtins over host ints, bools, Decimals: type of the '
                'result of * ** *=, digit count of every arithmetic node and numeric builtin vs max(28, 1 + widest numeric argument)')


# ------------------------------------------------------------------ C05
ADVERSARIAL = [('(a+)+$', "('a' * 28 + 'b')"), ('(a|aa)+$', "('a' * 40 + 'b')"), ('(.*a){12}', "('a' * 30 + 'b')"), ('(x+x+)+y', "('x' * 30)"),
               ('^(([a-z])+.)+[A-Z]([a-z])+$', "('a' * 40 + '!')"), ('(\\w+)\\1+$', "('ab' * 5000 + 'c')"), ('(a*)*b', "('a' * 30)"),
               ('(?:a|a)+b|a+c', "(('a' * 15 + 'c') * 500)"), ('a{1,30}a{1,30}a{1,30}b', "('a' * 80)"), ('(?r)(a+)+b', "('c' + 'a' * 30)"),
               ('(?:fox){e<=3}', "('the quick brown f0x ' * 2000)"), ('.*.*.*.*x', "('y' * 400)"), ('[a-z]+', "('hello world ' * 8000)"),
               ('\\d+', "('1' * 100000)"), ('^(\\S+\\s+\\S+\\s+\\S+\\s+\\S+\\s+\\S+\\s+\\S+\\s+\\S+\\s+\\S+\\s+\\S+\\s+\\S+\\s+\\S+\\s+\\S+\\s+\\S+)$', "('a b c d e f g h i j k l m')"),
               ('((a{100}){100}){400}', "('a')")]


# patterns that are slow to COMPILE (tens of milliseconds: long keyword alternations) and then backtrack catastrophically:
# whatever the library does with the compile time, the match phase must stay under its timeout
_BIGALT = '|'.join('kw%04d' % i for i in range(3000))
# patterns / subjects aimed at helper code AROUND the engine call (pre-processing of the pattern text, per-line retries)
ADVERSARIAL += [('/' + '\\' * 60, "('abcdefghijklm')"), ('/' + '\\' * 61 + '/!', "('abc')"), ('/' + '\\/' * 40 + '!', "('abc')"),
                ('(' * 40 + 'a' + ')' * 40 + '$', "('a' * 30)"), ('[' + '\\]' * 50 + ']+$', "(']' * 40 + '!')")]
ADVERSARIAL += [('(?:%s)|(a+)+$' % _BIGALT, "('a' * 32 + '!')"), ('(?:%s)x|(a|aa)+$' % _BIGALT, "('a' * 45 + '!')")]


def monitor_c05(ctx):
    pays = []
    for pat, subj in ADVERSARIAL:
        for fn in ('match', 'match_groups', 'match_all'):
            pays.append({'fn': fn, 'pattern': pat, 'subject_expr': subj, 'flags': []})
    # every flag string (long ones, ones with separators or invalid letters) and any extra positional arguments a script
    # may pass: none of them may lengthen or lift the limit
    cat = ('(a|aa)+$', "('a' * 44 + '!')")      # reaches the timeout with the `regex` engine ((a+)+$ does not: it is optimised away)
    for fl in [['ims' * 10 + 'x'], ['i, m, s'], ['imsx' * 8], ['i' * 200 + '?'], ['ims' * 12 + ' ,|' + 'q'], ['', 5], ['i', 5], ['', 4.0], ['', 3, 3], [None, 3], ['', '3'], ['', 2.5, None],
               ['', None], ['', 0], ['', '5'], ['i', 3, 2]]:
        for fn in ('match', 'match_groups', 'match_all'):
            pays.append({'fn': fn, 'pattern': cat[0], 'subject_expr': cat[1], 'flags': fl})
            pays.append({'fn': fn, 'pattern': 'a', 'subject_expr': "('a')", 'flags': fl})
    # many lines, each costing the engine a little: the budget is per CALL, not per line
    for pat, line in (('^(a|a)+$', "a" * 16 + '!'), ('^(.*?,){8}x', ',' * 17 + '!'), ('(a|aa)+$', 'a' * 22 + '!')):
        for fl in (['m'], ['im'], ['ms'], []):
            for fn in ('match_all', 'match', 'match_groups'):
                pays.append({'fn': fn, 'pattern': pat, 'subject_expr': "(%r * 500)" % (line + '\n'), 'flags': fl})
    n = sz(ctx, 40, 400)
    for i in range(n):
        r = random.Random(f'{ctx["seed"]}/mon-c05/{i}')
        atoms = ['a', 'b', '.', '\\w', '[ab]', '(a|b)', '(a|ab)', 'a?', '\\d']
        pat = ''
        for _ in range(r.randint(1, 4)):
            a = r.choice(atoms)
            pat += r.choice(['(%s%s)%s' % (a, r.choice(['+', '*', '']), r.choice(['+', '*', '{2,}', ''])), a + r.choice(['+', '*', '?', ''])])
        pat += r.choice(['$', 'c', '', 'b$'])
        subj = "('%s' * %d + '%s')" % (r.choice(['a', 'ab', 'aab']), r.choice([20, 30, 200, 3000]), r.choice(['', '!', 'c']))
        pays.append({'fn': r.choice(['match', 'match_groups', 'match_all']), 'pattern': pat, 'subject_expr': subj,
                     'flags': r.choice([[], ['i'], ['ms']])})
    return _run('c05', 'c05', pays, 'adversarial corpus (nested / overlapping quantifiers, alternations, counted repeats, back-references, fuzzy and '
                'reverse matching, subjects to 10^5 chars) + seeded random patterns x the three builtins: wall-clock per call in an isolated worker '
                '(regex cache purged); failing = more than 1 s; compile time of the same pattern measured separately')


# ------------------------------------------------------------------ C06
BIN = ['+', '-', '*', '/', '**', '==', '!=', '<', '>', '<=', '>=', 'in', 'not in', 'and', 'or']


def monitor_c06(ctx):
    pays = [{'o1': a, 'o2': b} for a in BIN for b in BIN]
    a = _run('c06', 'c06', pays, 'all 225 ordered pairs of binary operators on atom operands: the tree of `a o1 b o2 c` vs the parenthesisation '
             'dictated by the live lexer.precedence table (model-free)')
    b = _run('c06_derivable', 'c06_derivable', [{}], 'texts the published grammar derives that must be accepted')
    cps = ([0xA0, 0x1680, 0x202F, 0x205F, 0x3000, 0x200B, 0x200C, 0x200D, 0x2060, 0xFEFF, 0x85, 0x2028, 0x2029, 0x0B, 0x0C, 0x1C, 0x1D, 0x1E, 0x1F,
            0x00, 0x01, 0x07, 0x08, 0x1B, 0x7F, 0xAD, 0x180E, 0x061C, 0x200E, 0x200F, 0xFFF9, 0xFFFA, 0xFFFB, 0xE0001, 0x2212, 0xD7, 0xF7, 0x201C, 0x201D,
            0x2018, 0x2019, 0xFF08, 0xFF09, 0x037E, 0xFF0C, 0xFF1B, 0x3001, 0x2044, 0x2215, 0x2217, 0xFE50, 0xFF1D, 0x2260, 0x2264, 0xB7, 0x2022, 0x24, 0x3F,
            0x40, 0x5C, 0x5E, 0x60, 0x7E, 0x26] + list(range(0x2000, 0x200B)) + list(range(0x202A, 0x202F)) + list(range(0x2066, 0x206A)))
    rng = random.Random(f'{ctx["seed"]}/mon-c06-chars')
    cps += [rng.randrange(0x80, 0x3000) for _ in range(sz(ctx, 150, 1500))] + [rng.randrange(0x3000, 0x11000) for _ in range(sz(ctx, 50, 500))]
    c = _run('c06_chars', 'c06_chars', [{'cps': cps[i:i + 40]} for i in range(0, len(cps), 40)],
             'every kind of non-alphabet character (typographic spaces, zero-width and bidi marks, BOM, controls, look-alike punctuation, random '
             'code points; oracle: stdlib \\w): between tokens the text is rejected, inside string literals and %...% names it is kept verbatim')
    return _merge('c06', [a, b, c])


# ------------------------------------------------------------------ C08
def monitor_c08(ctx):
    n = sz(ctx, 3000, 30000)
    pays = []
    for i in range(n):
        r = random.Random(f'{ctx["seed"]}/mon-c08/{i}')

        def ex(d=0):
            if d > 3 or r.random() < 0.3:
                return gens2.tie_literal(r) if r.random() < 0.2 else gens2.num_literal(r)
            k = r.randrange(6)
            if k <= 3:
                return f'({ex(d + 1)} {r.choice("+-*/")} {ex(d + 1)})'
            if k == 4:
                return f'(-{ex(d + 1)})'
            return gens2.num_literal(r)
        src = ex() if r.random() < 0.7 else f'{ex()} {r.choice(["==", "!=", "<", ">", "<=", ">="])} {ex()}'
        pays.append({'src': src})
    # evaluations of any outcome first (every table entry with missing / surplus / ill-typed arguments, option-like strings
    # last), the oracle afterwards
    try:
        fnames = sorted(k for k in sqimpl.load().functions.FUNCTIONS.keys() if isinstance(k, str) and k.isidentifier() and not k.startswith('__'))
    except Exception:
        fnames = ['round', 'floor', 'ceil', 'abs', 'min', 'max', 'sum', 'int', 'float', 'str', 'rand', 'pretty']
    pool = ['"n/a"', '1', '2', '2.5', '0.10000000000000000000000000005', '-3', '29', '60', 'None', '[1, 2]', '"1.5"', '1000000', '{"a": 1}',
            '"half_up"', '"up"', '"down"', '"ceiling"', '"floor"', '"half_down"', '"ROUND_HALF_UP"', '"ROUND_UP"', '"05up"', 'True']
    rr = random.Random(f'{ctx["seed"]}/mon-c08-after')
    OPTS = ['"half_up"', '"up"', '"down"', '"half_down"', '"floor"', '"ceil"', '"ceiling"', '"half_even"', '"ROUND_HALF_UP"', '"ROUND_UP"', '"05up"', 'True', '60']
    FIRST = ['"n/a"', '1', '0.10000000000000000000000000005', '1234567890123456789012345678.55', 'None', '[1, 2]']
    MID = ['2', '1', '29']
    for fn in fnames:
        batch = []
        # option-like last arguments systematically (a rounding mode, a precision), an ill-typed / overlong first one
        for ar in (2, 3, 4):
            for o in OPTS:
                for f0 in FIRST:
                    mids = [rr.choice(MID) for _ in range(ar - 2)]
                    batch.append(f'{fn}({", ".join([f0] + mids + [o])})')
        for ar in (1, 2, 3, 4):
            for _ in range(sz(ctx, 6, 30)):
                batch.append(f'{fn}({", ".join(rr.choice(pool) for _ in range(ar))})')
        pays.append({'after': batch})
    pays.append({'after': ['1 / 0', '10 ** 1000000', 'float("1e400")', 'round(1, 5000)', '2 ** 0.5', 'int("x")', '0 ** 0', 'sum([1, None])', '1 / 3']})
    pays += [{'src': '0.1 + 0.2 == 0.3'}, {'src': '0.1 + 0.2'}, {'src': '100000000000000000000000000001 - 100000000000000000000000000000'},
             {'src': '0.10000000000000000000000000001 == 0.1'}, {'src': '1 / 3 * 3'}, {'src': '2.5 + 2.50 == 5'}]
    return _run('c08', 'c08', pays, 'expression trees over decimal literals (1..40 digits, forced ties at the 28th digit) with + - * / unary minus and '
                'comparisons vs exact fractions.Fraction arithmetic rounded half-even to 28 digits per operation (literal TEXTS read from the source)')


# ------------------------------------------------------------------ C09
def monitor_c09(ctx):
    pays = [{'line': l} for l in _eval_lines_from(ctx)]
    for c in gens2.probe_cases(ctx['seed'], sz(ctx, 3000, 20000)):
        pays.append({'line': c[0].replace(' (modelparser)', '')})
    a = _run('c09', 'c09', pays, 'probe shapes: every probe called at most as often as it occurs in the source (lambda-free programs); in '
             'programs without and/or/if the probes run in source order up to the first failure (source-level oracle)')
    atoms = ['0', '""', '[]', 'None', '"x"', '5', '[1]', 'False', 'True', '{}', '0.0', '"0"']
    srcs = []
    for i in range(sz(ctx, 400, 4000)):
        r = random.Random(f'{ctx["seed"]}/mon-c09-chain/{i}')
        n = r.randint(2, 5)
        op = r.choice(['or', 'and', None])
        parts = [r.choice(atoms) for _ in range(n)]
        src = '{0}'
        for j in range(1, n):
            o = op or r.choice(['or', 'and'])
            q = '{%d}' % j
            src = (f'({src}) {o} {q}' if r.random() < 0.2 else f'{src} {o} ({q})' if r.random() < 0.1 else f'{src} {o} {q}')
        srcs.append([src, parts])
    b = _run('c09_chain', 'c09_chain', [{'srcs': srcs[i:i + 100]} for i in range(0, len(srcs), 100)],
             'chains of 2..5 and / or over falsy and truthy constants of every type, flat and grouped: the value is the deciding operand itself')
    HOF = []
    for nm in ('lower', 'len', 'get', 'min', 'max', 'abs', 'str', 'upper', 'keys', 'sum', 'round', 'int', 'index_of', 'pretty', 'join'):
        HOF += [[f'map([10, 20, 30], x => [x, {nm}(7)])', [nm], '[[10, 1], [20, 2], [30, 3]]'],
                [f'map([1, 2], x => map([5, 6], y => {nm}(0)))', [nm], '[[1, 2], [3, 4]]'],
                [f'filter([10, 20, 30, 40], x => {nm}(1) > 2)', [nm], '[30, 40]'],
                [f'reduce([1, 2, 3, 4], (a, x) => {nm}(a))', [nm], '3'],
                [f'map([1, 2, 3], x => (x if {nm}(0) > 1 else 0))', [nm], '[0, 2, 3]'],
                [f'[sorted([3, 1, 2], x => 0 - {nm}(x))[0]]', [nm], '[2]'],
                [f'f = x => [x, {nm}(7)]; map([10, 20], f)', [nm], '[[10, 1], [20, 2]]']]
    HOF += [['seen = []; add = v => push(seen, v); map([10, 20, 30], x => add(x) or len(seen))', [], '[1, 2, 3]'],
            ['seen = []; add = v => push(seen, v); map([10, 20, 30], x => [add(x), seen[0], len(seen)][2])', [], '[1, 2, 3]'],
            ['c = {"k": 0}; bump = v => __setitem__(c, "k", c["k"] + 1); map([1, 2, 3], x => [bump(x), get(c, "k")][1])', [], '[1, 2, 3]'],
            ['q = [1, 2, 3]; map([0, 0, 0], x => pop(q))', [], '[3, 2, 1]'], ['q = [1, 2, 3]; take = v => pop(q); map([0, 0, 0], x => take(0) + len(q))', [], '[5, 3, 1]'],
            ['n = [0]; inc = v => n.push(v); filter([1, 2, 3, 4], x => [inc(x), len(n) > 3][1])', [], '[3, 4]']]
    c = _run('c09_hof', 'c09_hof', [{'cases': HOF[i:i + 20]} for i in range(0, len(HOF), 20)],
             'callbacks of map / filter / sorted / reduce whose bodies hold parameter-independent but state-dependent sub-expressions (helpers '
             'with state, builtin names bound by the host to a counter): evaluated once per application')
    d = _run('c09_hostops', 'c09_hostops', [{'stride': 8, 'phase': k} for k in range(8)],
             'and / or / if-else over host-supplied operands of every type: the result IS the deciding operand (object identity)')
    return _merge('c09', [a, b, c, d])


# ------------------------------------------------------------------ C10
def monitor_c10(ctx):
    pays = [{'line': l} for l in _eval_lines_from(ctx)]
    for c in gens2.scope_cases(ctx['seed'], sz(ctx, 1500, 10000)):
        pays.append({'line': c[0]})
    for c in gens2.bare_scope_cases(ctx['seed'], 200):
        pays.append({'line': c[0], 'must_bind': c[2]})
    # deep recursion whose failure (any limit on the depth of calls, the interpreter's own included) is caught by a host callback:
    # every parameter scope of the unwound calls is gone, top-level statements afterwards bind in the host mapping again
    for depth in (20, 50, 90, 98, 99, 100, 101, 102, 120, 150, 250):
        for src in (f'f = n => (0 if n < 1 else f(n - 1) + 1)\nr = try_apply(f, {depth})\nn = 7\nafter = n\n[after]',
                    f'f = (n, acc) => (acc if n < 1 else f(n - 1, acc + 1))\nr = try_apply(w => f({depth}, 0), 0)\nacc = 3\nz = [acc, try_apply(w => n, 0)]\nz',
                    f'g = k => (k if k < 1 else try_apply(g, k - 1))\nr = g({depth})\nk = 1\nz = k\nz'):
            pays.append({'line': gens2.eval_line(src, budget=100000), 'must_bind': ['r', 'z'] if 'z =' in src else ['r', 'n', 'after']})
    a = _run('c10', 'c10', pays, 'scope programs: identity and contents of FUNCTIONS before/after; no name that is not assigned at top level '
             'may appear in the host mapping')
    b = _run('c10_noname', 'c10_noname', [{'srcs': ['len = 3', 'zz = 1', 'f = v => v', 'len([1, 2])']}, {'srcs': ['x = 5', 'x']}],
             'eval without a names mapping must not write into the builtin table')
    MISSING_CASES = [['x', 'ok 3'], ['y', 'ParserError'], ['len([1, 2])', 'ok 2'], ['[1, 2]', 'ok [Decimal(\'1\'), Decimal(\'2\')]'], ['nofn(1)', 'ParserError'],
                     ['y += 1', 'ParserError'], ['%u v%', 'ParserError'], ['str(x)', "ok '3'"], ['{"a": 1}["a"]', "ok Decimal('1')"], ['f = v => v + x; f(1)', "ok Decimal('4')"],
                     ['x + 1', "ok Decimal('4')"], ['z = 1; z', "ok Decimal('1')"], ['max([1, 5])', "ok Decimal('5')"], ['try_it', 'ParserError']]
    c = _run('c10_missing', 'c10_missing', [{'cases': MISSING_CASES}],
             'host names mappings that answer for absent keys (Counter / defaultdict / __missing__): lookups still fall through to the builtins, '
             'undefined names stay undefined, a lookup adds no key')
    AZ = lambda body: [['az', [], body], ['ak', ['q'], body]]
    SC = []
    for call in ('az()', 'try_apply(az)', 'try_apply(ak)', 'apply(az)'):
        SC += [{'src': f'{call}; 1', 'astfns': AZ('loc = 1\nloc'), 'absent': ['loc'], 'expect': "1"},
               {'src': f'{call}; loc', 'astfns': AZ('loc = 1\nloc'), 'names': {'loc': 5}, 'keep': {'loc': 5}, 'expect': "5"},
               {'src': f'{call}; loc', 'astfns': AZ('loc += 1\nloc'), 'names': {'loc': 5}, 'keep': {'loc': 5}, 'expect': "5"},
               {'src': f'r = apply(w => [{call}, try_apply(v => loc, 0)], 1); r', 'astfns': AZ('loc = 1\nloc'), 'absent': ['loc'],
                'expect': "[1, None]"},
               {'src': f'r = apply(p => [{call}, p], 5); r', 'astfns': AZ('p = 2\np'), 'absent': ['p'], 'expect': "[2, 5]"},
               {'src': f'r = map([7], p => [{call}, p]); r', 'astfns': AZ('p = 2\np'), 'absent': ['p'], 'expect': "[[2, 7]]"},
               {'src': f'try_apply(w => {call}, 0); try_apply(v => loc, 0)', 'astfns': AZ('loc = 1\n1 / 0'), 'absent': ['loc'], 'expect': 'None'},
               # a name READ through an outer level first and BOUND at the innermost level afterwards (no call in between): the
               # later reads see the new local binding; the outer binding is untouched
               {'src': f'r = {call}; [r, tot]', 'astfns': AZ('before = tot\ntot = before + 2\ntot'), 'names': {'tot': 5}, 'keep': {'tot': 5},
                'expect': "[7, 5]"},
               {'src': f'r = {call}; [r, tot]', 'astfns': AZ('before = tot\ntot += 2\ntot + before'), 'names': {'tot': 5}, 'keep': {'tot': 5},
                'expect': "[12, 5]"}]
    # the parameters of the call in progress are still the innermost bindings after a nested call OF THE SAME LAMBDA returned
    # (recursion, recursion under map / try_apply, two values of one lambda expression): known values
    for n in range(0, 6):
        SC.append({'src': f'f = k => (0 if k < 1 else f(k - 1) + k); f({n})', 'astfns': [], 'expect': str(n * (n + 1) // 2)})
        fib = [0, 1, 1, 2, 3, 5][n]
        SC.append({'src': f'f = n => (n if n < 2 else f(n - 1) + f(n - 2)); f({n})', 'astfns': [], 'expect': str(fib)})
    SC += [{'src': 'f = k => (0 if k < 1 else f(k - 1) + k); map([1, 2, 3], f)', 'astfns': [], 'expect': '[1, 3, 6]'},
           {'src': 'f = x => ([] if x < 1 else [f(x - 1), x]); f(2)', 'astfns': [], 'expect': '[[[], 1], 2]'},
           {'src': 'f = x => ([] if x < 1 else [try_apply(f, x - 1), x]); f(2)', 'astfns': [], 'expect': '[[[], 1], 2]'},
           {'src': 'f = (k, acc) => (acc if k < 1 else [f(k - 1, acc), k]); f(2, 0)', 'astfns': [], 'expect': '[[0, 1], 2]'},
           {'src': 'g = k => k * 2; f = k => g(k + 1) + k; f(5)', 'astfns': [], 'expect': '17'},
           {'src': 'f = k => [map([1], w => f2(k)), k]; f2 = k => k + 1; f(3)', 'astfns': [], 'expect': '[[4], 3]'},
           {'src': 'k = 9; f = k => (0 if k < 1 else f(k - 1) + k); [f(3), k]', 'astfns': [], 'expect': '[6, 9]', 'keep': {}}]
    d = _run('c10_locals', 'c10_locals', [{'scenarios': SC}],
             'ast_names lambdas with statement bodies that bind no parameter at the call (declared without parameters / called with zero '
             'arguments) and assign: the locals are gone after the call, from top level and from inside another lambda call, on return and on raise')
    RE = [{'src': 'x = 1; r = sub("y = 2; y"); [x, r]', 'expect': '[1, 2]', 'outer_after': {'x': 1, 'y': None}, 'inner_after': {'y': 2, 'x': None}},
          {'src': 'r = sub("z"); z2 = 3; [r, h]', 'names': {'h': 7}, 'inner': {'z': 4}, 'expect': '[4, 7]', 'outer_after': {'z2': 3, 'h': 7, 'z': None},
           'inner_after': {'z': 4, 'z2': None}},
          {'src': 'apply(p => [sub("1 + 1"), p], 5)', 'expect': '[2, 5]'},
          {'src': 'map([1, 2], v => [sub("w = 9; w"), v])', 'expect': '[[9, 1], [9, 2]]', 'outer_after': {'w': None}, 'inner_after': {'w': 9}},
          {'src': 'a = 1; sub("a = 2"); sub("a"); a', 'expect': '1', 'outer_after': {'a': 1}, 'inner_after': {'a': 2}},
          {'src': 'try_apply(v => sub("1 / 0"), 0); k = 1; k', 'expect': '1', 'outer_after': {'k': 1}, 'inner_after': {'k': None}},
          {'src': 'f = v => v + n; n = 10; sub("n = 1"); f(1)', 'expect': '11', 'outer_after': {'n': 10}, 'inner_after': {'n': 1}}]
    RE += [{'src': 'a = max(1, 2); max = (x, y) => x; [a, max(1, 2)]', 'expect': '[2, 1]'},
           {'src': 'k = len([1]); len = v => 9; [k, len([1])]', 'expect': '[1, 9]'},
           {'src': 'b = total; total = 7; [b, total]', 'names': {'total': 5}, 'expect': '[5, 7]', 'outer_after': {'total': 7}},
           {'src': 'map([7, 8], secret => subq("secret"))', 'expect': '[ERR, ERR]'},
           {'src': 'map([1], x => subq("token"))', 'names': {'token': 5}, 'expect': '[ERR]'},
           {'src': 'tok2 = 3; subq("tok2")', 'expect': 'ERR', 'outer_after': {'tok2': 3}},
           {'src': 'apply(p => subq("p"), 5)', 'expect': 'ERR'},
           {'src': 'apply(p => [subq("p"), p], 5)', 'inner': {'p': 2}, 'expect': '[2, 5]'},
           {'src': 'f = v => v + 1; subq("f(1)")', 'expect': 'ERR'}]
    HC = [[['eval', 'add_base = v => v + base'], ['set', 'base', 10], ['call', 'add_base', [1], '11'], ['set', 'base', 100], ['call', 'add_base', [1], '101']],
          [['set', 'base', 10], ['eval', 'add_base = v => v + base; add_base(1)'], ['call', 'add_base', [1], '11'],
           ['other', 'base = 5; base', {}], ['call', 'add_base', [1], '11']],
          [['eval', 'measure = v => len(v)'], ['call', 'measure', ['abc'], '3'], ['set', 'len', ['fn', 'host-len']], ['call', 'measure', ['abc'], 'host-len']],
          [['eval', 'k = 3; getk = v => k'], ['other', 'k = 9; k', {'k': 1}], ['call', 'getk', [0], '3'], ['eval', 'k = 4'], ['call', 'getk', [0], '4']],
          [['eval', 'shadow = base => base + 1'], ['set', 'base', 50], ['call', 'shadow', [1], '2']]]
    eh = _run('c10_hostcall', 'c10_hostcall', [{'scenarios': HC}],
              'lambdas stored in the host mapping by an evaluation and called BY THE HOST afterwards (mapping changed in between, '
              'evaluations for other mappings in between): free names resolve in the parameters, then the host mapping as it is now, then the builtins')
    e = _run('c10_reenter', 'c10_reenter', [{'scenarios': RE}],
             'a host callable that evaluates another program on the same SqParser with another mapping while the outer evaluation runs: '
             'separate scope stacks (outer assignments / parameters / host names unaffected, inner ones land in the inner mapping)')
    SQ = []
    for B, arg, val in (('len', '[1, 2]', '2'), ('str', '5', '5'), ('sum', '[1, 2]', '3'), ('max', '[1, 5]', '5'), ('abs', '0 - 3', '3')):
        SQ += [[[f'fz = v => {B}(v); fz({arg})', val], [f'{B} = v => 77', None], [f'fz({arg})', '77'], [f'{B}({arg})', '77'], [f'map([{arg}], fz)', '[77]']],
               [[f'fz = v => {B}(v)', None], [f'{B}({arg})', val], [f'{B} = v => 77', None], [f'fz({arg})', '77']],
               [[f'gz = w => {B}; fz = v => apply(gz(0), v); fz({arg})', val], [f'{B} = v => 77', None], [f'fz({arg})', '77']],
               [[f'fz = v => {B}(v); fz({arg})', val], [f'{B} = 5', None], [f'try_apply(fz, {arg})', 'None'], [f'{B}', '5']],
               [[f'k9 = 1; fz = v => k9; fz(0)', '1'], ['k9 = 2', None], ['fz(0)', '2'], ['k9', '2']]]
    f = _run('c10_seq', 'c10_seq', [{'scenarios': SQ[i:i + 5]} for i in range(0, len(SQ), 5)],
             'a lambda stored in the names mapping by one eval, a builtin name it uses rebound in that mapping by a later eval, the lambda called '
             'again: the name resolves to the NEW binding')
    return _merge('c10', [a, b, c, d, e, eh, f])


# ------------------------------------------------------------------ C11 / C17
def _hist_payloads(ctx, tag, n, caches):
    texts = histgen.pool(ctx['seed'])
    out = []
    for i in range(n):
        rng = random.Random(f'{ctx["seed"]}/{tag}/{i}')
        cache = rng.choice(caches)
        line, calls = histgen.history(rng, texts, cache)
        heap = re.search(r'\(heap (\(U .*?\))\) \(calls', line).group(1)
        out.append({'heap': heap, 'calls': [list(c) for c in calls], 'cache': cache})
    return out


def monitor_c11(ctx):
    pays = _hist_payloads(ctx, 'mon-c11', sz(ctx, 250, 4000), ['none'])
    for i, pp_ in enumerate(pays):
        if i % 3 == 0:
            pp_['also_cached'] = True      # the same history on a parser with a retaining parse cache as well
    # a list_names generator abandoned INSIDE brackets (and kept referenced), then texts whose line breaks matter
    for pre, k in (('total(price, qty)', '1'), ('a + [b, c', '2'), ('f(a, [b, {c: d', '3'), ('x = (a,\nb', '2'), ('g(h(i(j', '4'), ('ok\n(p, q)', '2')):
        for t in ('x = 10\ny = 20\nx + y', 'a = 1\n-1', 'u = [1, 2]\n[0]', 'k = 5\n(k + 1)'):
            pays.append({'heap': '(U (M 1 (S:69 D:0:0:0:c)))', 'cache': 'none', 'also_cached': True,
                         'calls': [['names', pre, k], ['eval', t, 0, 1000, 7], ['parse', t], ['names', pre, k], ['parse', t]]})
    # the same text several times (literals that are mutated, lambdas called repeatedly), for two mappings, plain and cached
    for t in ['pop([10, 20, 30])', '[3, 1, 2] | pop', 'push([1], 2)', 'mk = n => [1, 2]; push(mk(0), 3); mk(0)', 'x = [1, 2]; x.push(3); x',
              'pop(["alice", "bob", "carol"], i)', 'd = {"a": [1]}; push(d["a"], 2); d', 'remove([1, 2, 3], 2)', 'insert([1], 0, 5)', '[[1], [2]][0] | pop']:
        pays.append({'heap': '(U (M 1 (S:69 D:0:0:0:c)) (M 2 (S:69 D:0:1:0:c)))', 'cache': 'none', 'also_cached': True,
                     'calls': [['eval', t, 0, 1000, 7], ['eval', t, 1, 1000, 7], ['eval', t, 0, 1000, 7], ['parse', t], ['eval', t, 0, 1000, 7]]})
    # the same text for a mapping that leaves a builtin name alone and for one that rebinds it (to a host function), back and forth,
    # plain and on a caching parser: what a call site resolved to in an earlier evaluation says nothing about this one
    for nm, t in (('len', 'len([1, 2])'), ('len', '[1, 2] | len'), ('lower', 'map(["A"], v => lower(v))'), ('lower', 'x = "Ab"; x.lower()'), ('str', '[str(5)]'),
                  ('sum', 'f = v => sum(v); f([1, 2])'), ('list', '[1, 2]'), ('dict', '{"a": 1}'), ('__getitem__', '[5, 6][0]'), ('max', 'try_apply(v => max(v), [1, 2])')):
        for hostfn in ('try_apply', 'apply'):
            pays.append({'heap': f'(U (M 1 (S:69 D:0:0:0:c)) (M 2 (S:{hx(nm)} H:{hostfn})))', 'cache': 'none', 'also_cached': True,
                         'calls': [['eval', t, 0, 1000, 7], ['eval', t, 1, 1000, 7], ['eval', t, 0, 1000, 7], ['eval', t, 1, 1000, 7], ['parse', t]]})
            pays.append({'heap': f'(U (M 1 (S:69 D:0:0:0:c)) (M 2 (S:{hx(nm)} H:{hostfn})))', 'cache': 'none', 'also_cached': True,
                         'calls': [['eval', t, 1, 1000, 7], ['eval', t, 0, 1000, 7], ['eval', t, 1, 1000, 7]]})
    # evaluations that bring their own ast_names, then evaluations that do not (or bring others): one call's ast_names are gone with the call
    for astn, first, later in ((['zadd', ['a', 'b'], 'a + b'], 'zadd(1, 2)', ['zadd(1, 2)', 'try_apply(w => zadd(1, 2), 0)', 'zadd']),
                               (['len', ['v'], '0'], 'len([1, 2])', ['len([1, 2])', '[1, 2] | len', 'map([[1]], len)']),
                               (['zk', [], '7'], 'zk() + 1', ['zk()', 'zk', 'x = zk; x']),
                               (['str', ['v'], '"S"'], 'str(5)', ['str(5)', '"" + 5', 'join([1], ",")'])):
        for mapping in (0, 'none'):
            calls = [['evalast', first, mapping, 1000, 7, [astn]]]
            for t in later:
                calls += [['eval', t, mapping, 1000, 7], ['evalast', t, mapping, 1000, 7, [['zother', ['q'], 'q']]]]
            pays.append({'heap': '(U (M 1 (S:69 D:0:0:0:c)))', 'cache': 'none', 'also_cached': True, 'calls': calls})
    # an abandoned generator is discarded WHILE a later list_names call is being consumed (with and without calls in between)
    for pre, k in (('total(price, qty)', '1'), ('a + [b, c', '2'), ('f(a, [b, {c: d', '3'), ('x = (a,\nb', '1')):
        for t in ('alpha + beta * gamma', 'f(a,\n b,\n c)', 'u\nv\nw'):
            for how in ('close', 'del'):
                pays.append({'heap': '(U (M 1 (S:69 D:0:0:0:c)))', 'cache': 'none',
                             'calls': [['names', pre, k], ['names2', t, 1, how], ['names', t, 'all'], ['parse', t]]})
                pays.append({'heap': '(U (M 1 (S:69 D:0:0:0:c)))', 'cache': 'none',
                             'calls': [['eval', '1 + 1', 0, 1000, 7], ['names', pre, k], ['eval', '2 + 2', 0, 1000, 7], ['names2', t, 2, how], ['names', t, 'all']]})
    a = _run('c11', 'c11', pays, 'histories of parse / eval / list_names (partially consumed) / host mutation on one SqParser: every call '
             'repeated on a freshly constructed SqParser with deep-copied equal arguments; result / exception class and message compared')
    b = _run('c11_repeat', 'c11_repeat', [{'define': 'f = n => n + 1 + 1 + 1 + 1 + 1 + 1 + 1 + 1 + 1 + 1', 'call': 'f(1)', 'N': 30, 'times': 9}],
             'the same eval call with equal arguments repeated on one parser')
    pp = []
    texts = histgen.pool(ctx['seed'])
    for i, h in enumerate(_hist_payloads(ctx, 'mon-c11p', sz(ctx, 24, 300), ['none'])):
        rng = random.Random(f'{ctx["seed"]}/mon-c11p-final/{i}')
        used = [c[1] for c in h['calls'] if c[0] in ('parse', 'eval')] or [rng.choice(texts)]
        finals = []
        for _ in range(3):
            t = rng.choice(histgen.near_dups(rng.choice(used)) + [rng.choice(histgen.STATEFUL)])
            finals.append(['eval', t, 0, 'default', rng.randrange(1, 2 ** 31)] if rng.random() < 0.7 else ['parse', t])
        pp.append({'heap': h['heap'], 'calls': h['calls'], 'finals': finals, 'fresh_parser': rng.random() < 0.5})
    # every builtin called with missing / ill-typed / surplus arguments (the failures nobody anticipates), then inexact arithmetic:
    # whatever such a failure leaves behind at thread or module level, the later call answers as in a pristine interpreter
    TIES = [['eval', t, 0, 'default', 7] for t in ('100000000000005 * 100000000000001', '2000000000000000000000000000.5 + 0', '0 - 4000000000000000000000000000.5',
                                                   '30000000000000000000000000025 / 10', '[12345678901234567890123456785 * 10 / 10]', 'round(0.125, 2)', 'round(2.5)', 'round(0 - 0.5)')]
    fnames = [n for n in sqimpl.load().functions.FUNCTIONS.keys() if not n.startswith('__')]
    BADARGS = ['"3.14159", 2', 'None', '[1]', '"x"', '1, "a"', '{}', '', 'None, None', '1, 2, 3, 4', '"1e400"', '[], []', 'x => x']
    for i in range(0, len(fnames), 6):
        calls = [['eval', f'{fn}({a})', 0, 'default', 7] for fn in fnames[i:i + 6] for a in BADARGS]
        pp.append({'heap': '(U (M 1 (S:78 D:0:22:0:c)))', 'calls': calls,
                   'finals': [['eval', '1 / 3', 0, 'default', 7], ['eval', '2 ** 0.5', 0, 'default', 7], ['eval', 'x / 7 + 1', 0, 'default', 7],
                              ['eval', 'round(2 / 3, 30)', 0, 'default', 7], ['eval', '[1.5 * 2.5, 0.1 + 0.2]', 0, 'default', 7]] + TIES,
                   'fresh_parser': i % 12 == 0})
    # ... and after ORDINARY calls of the numeric and formatting builtins: results that are exact ties at the 28th digit
    GOOD = ['round(2.5)', 'round(1.25, 1)', 'round(0.125, 2)', 'round(7)', 'floor(1.5)', 'ceil(1.5)', 'int("3")', 'int(2.5)', 'float("1.5")', 'abs(0 - 1.5)', 'pretty(1234.5)',
            'str(1.5)', 'sum([0.1, 0.2])', 'max(1, 2.5)', 'min([1, 2.5])', '2 ** 0.5', '1 / 3', 'sorted([2.5, 1.5])', 'join([1.5, 2], ",")', 'rand(1, 6)', 'index_of([1.5], 1.5)']
    for i in range(0, len(GOOD), 3):
        pp.append({'heap': '(U (M 1 (S:78 D:0:22:0:c)))', 'calls': [['eval', g, 0, 'default', 7] for g in GOOD[i:i + 3]], 'finals': TIES, 'fresh_parser': i % 2 == 0})
    c = _run('c11_process', 'c11_process', pp, 'after a history in one process, further calls (sources equal / nearly equal to earlier ones: other '
             'blanks, case, quotes, number spellings) with freshly built arguments, on the used or on a new SqParser, compared with the same call '
             'in a pristine interpreter forked from a process that never parsed or evaluated anything')
    return _merge('c11', [a, b, c])


def monitor_c17(ctx):
    pays = _hist_payloads(ctx, 'mon-c17', sz(ctx, 250, 4000), ['dict', 'lru2', 'evict', 'ddict', 'readthrough'])
    # the same text several times (literals that are mutated, lambdas called repeatedly), for two mappings: a retained tree is
    # evaluated again and again and must answer as a newly parsed one does
    for t in ['pop([10, 20, 30])', '[3, 1, 2] | pop', 'push([1], 2)', 'mk = n => [1, 2]; push(mk(0), 3); mk(0)', 'x = [1, 2]; x.push(3); x',
              'pop(["alice", "bob", "carol"], i)', 'd = {"a": [1]}; push(d["a"], 2); d', 'remove([1, 2, 3], 2)', 'insert([1], 0, 5)', '[[1], [2]][0] | pop',
              'f = k => (0 if k < 1 else f(k - 1) + k); f(3)', 'map([[1], [2]], v => push(v, 0))', 'r = reversed([1, 2, 3]); push(r, 4)',
              'insert({"k": [5]}["k"], 0, 6)', 'sorted([3, 1, 2]) | pop', '(w => push([7], w))(i)', 'del {"a": 1, "b": 2}["a"]', 'l = [[0]]; l[0][0] += 1; l']:
        for kind in ('dict', 'lru2', 'readthrough'):
            pays.append({'heap': '(U (M 1 (S:69 D:0:0:0:c)) (M 2 (S:69 D:0:1:0:c)))', 'cache': kind,
                         'calls': [['eval', t, 0, 1000, 7], ['eval', t, 1, 1000, 7], ['eval', t, 0, 1000, 7], ['parse', t], ['eval', t, 0, 1000, 7]]})
    # long and deeply nested (legal) texts, parsed only: whatever the cache does with a tree (copies it, walks it), the outcome is the uncached one
    for t in [' + '.join(['1'] * 250), ' or '.join(['a'] * 250), ' + '.join(['1'] * 150), '(' * 150 + '1' + ')' * 150, '[' * 120 + '1' + ']' * 120, 'f(' * 100 + '1' + ')' * 100,
              '[' + ', '.join(['1'] * 3000) + ']', '\n'.join(f'x{i} = {i}' for i in range(400)), ' | '.join(['x'] + ['str'] * 300), 'a' + '[0]' * 250, '-' * 250 + '1',
              '{' + ', '.join(f'"k{i}": {i}' for i in range(1500)) + '}', ' if 1 else '.join(['1'] * 200)]:
        for kind in ('dict', 'lru2', 'evict'):
            pays.append({'heap': '(U (M 1 (S:69 D:0:0:0:c)))', 'cache': kind, 'default_stack': True, 'calls': [['parse', t], ['parse', t], ['parse', t + ' ']]})
    return _run('c17', 'c17', pays, 'a cached (dict / LRU(2) / always-evicting) and an uncached SqParser driven in lock-step over the same history; '
                'attribute-level snapshot of every cached tree around each call')


# ------------------------------------------------------------------ C12
def monitor_c12(ctx):
    pays = [{'line': l} for l in _eval_lines_from(ctx)]
    for c in gens2.alias_cases(ctx['seed'], sz(ctx, 1500, 10000)):
        pays.append({'line': c[0]})
    for kind in ('lock', 'gen', 'rlock', 'obj'):
        for shape in ('dict', 'list'):
            for src in ['x = h', 'x = [h]', 'x = h; x["cart"].push(9)', 'c = {}; c["k"] = h', 'c = [0]; c[0] = h', 'x = []; x += h',
                        # compound forms whose target does not exist yet (they fail on the unchanged tree; whatever they do, they may not link)
                        'c = {}; c["k"] += h', 'c = {"a": 1}; c["n"] += [h]', 'c = {}; c["k"] -= h', 'c = []; c[0] += h', 'x += h', 'x = None; x += h',
                        'c = [[0]]; c[0] += h', 'x = h or 0', 'x = {"a": h}', 'y = h["cart"]' if shape == 'dict' else 'y = h[0]',
                        'y = h["meta"]' if shape == 'dict' else 'y = h[2]', 'x = [h["cart"], h["meta"]]' if shape == 'dict' else 'x = [h[0], h[2]]']:
                pays.append({'hostobj': kind, 'shape': shape, 'src': src})
    return _run('c12', 'c12', pays, 'all assignment forms from host objects, then non-linking mutations through either side: the mutable objects '
                'reachable from the stored value and from the source (id-sets) must be disjoint')


# ------------------------------------------------------------------ C13
def monitor_c13(ctx):
    names = list(sqimpl.load().functions.FUNCTIONS.keys())
    dec = lambda v: {'$': 'dec', 'v': v}
    fl = lambda v: {'$': 'float', 'v': v}
    fn = lambda v: {'$': 'fn', 'v': v}
    shapes = [[3, 1, 2], [dec('1.5'), dec('2')], [fl(0.1), fl(0.2), fl(2.5)], ['b', 'a'], [[1, 2], [3]], [[3], [1, 2]], {'$': 'dict', 'v': [['a', 1], ['b', [1, 2]]]},
              {'$': 'dict', 'v': [['k', {'$': 'dict', 'v': [['z', 1]]}]]}, 'abc', 'a,b', 5, dec('2.5'), fl(0.2), None, True, [], {'$': 'dict', 'v': []},
              [None, 'a', 1], {'$': 'tuple', 'v': [1, [2]]}, [[fl(1.5)], [fl(0.1)]],
              {'$': 'defaultdict', 'v': [['a', [1]]]}, {'$': 'missingdict', 'v': [['a', 1]]}]
    argsets = [[s] for s in shapes]
    for s in shapes[:9]:
        for t in [fn('ident'), fn('const'), fn('neg'), fn('first'), 0, 1, 'a', ',', fl(0.2), dec('1'), [1], None, True, fn('len')]:
            argsets.append([s, t])
    for s in shapes[:7]:
        argsets += [[s, fn('ident'), True], [s, None, True], [s, 'a', 'b'], [s, 0, 5], [s, fn('first'), False]]
    for s in shapes[-2:]:
        argsets += [[s, 'zz'], [s, 'zz', 5], [s, 'a'], [s, 0], [s, fn('ident')]]
    chunks = [names[i:i + 3] for i in range(0, len(names), 3)]
    pays = [{'names': ch, 'argsets': argsets} for ch in chunks]
    # containers longer than the size cap (host-supplied data may be): non-mutators must leave them alone too
    big = {'$': 'biglist', 'v': 10050}
    bigd = {'$': 'bigdict', 'v': 10050}
    bigsets = [[big], [big, ','], [',', big], [big, 0], [big, fn('ident')], [bigd], [bigd, 'k5'], [big, 5, 7], [big, None, True]]
    pays += [{'names': ch, 'argsets': bigsets} for ch in chunks]
    a = _run('c13', 'c13', pays, 'every non-mutator of FUNCTIONS called directly with lists / dicts / nested / host-float / tuple / str arguments, '
             'key functions and reverse flags: deep type-and-value snapshot of every argument before vs after')
    names = list(sqimpl.load().functions.FUNCTIONS.keys())
    lines = [c[0] for c in gens2.builtin_cases(ctx['seed'], names, 0) if c[1].startswith('ident = v => v; r = ')]
    b = _run('c13_prog', 'c13_prog', [{'lines': lines[i:i + 60]} for i in range(0, len(lines), 60)],
             'whole programs: a non-mutating builtin applied to a host object that reaches it through another call (reduce / apply / max / get / rand / '
             'or / filter / map / a lambda handing its argument through): snapshot of the host object before vs after')
    return _merge('c13', [a, b])


# ------------------------------------------------------------------ C14
def monitor_c14(ctx):
    n = sz(ctx, 2000, 20000)
    pays = []
    D = lambda s: {'d': s}
    for i in range(n):
        r = random.Random(f'{ctx["seed"]}/mon-c14/{i}')
        if r.random() < 0.55:
            init = [r.choice([1, 2, 'a', None]) for _ in range(r.choice([0, 1, 2, 3, 5]))]
            keys = [0, 1, -1, 2, -2, 5, -6, D('1.5'), D('0.9'), D('-0.5'), D('-1.5'), D('2'), D('-2.5'), 7]
            ops = []
            for _ in range(r.randint(1, 12)):
                k = r.choice(keys)
                ops.append(r.choice([['push', r.choice([7, 'z'])], ['pop'], ['popi', k], ['read', k], ['write', k, 9], ['len'], ['in', r.choice([1, 'a', 7])],
                                     ['index_of', r.choice([1, 'a', 7])], ['insert', r.choice([0, 1, -1, 9]), 4], ['read', k], ['read', k],
                                     ['del', k], ['cwrite', k, 3], ['slice2', k, r.choice(keys)], ['slfrom', k], ['slto', k],
                                     ['step', r.choice([1, 2, 3, -1, -2, -3, 7, D('2.5'), D('-1.5')])], ['step', r.choice([1, 2, 3, -1, -2, -3])],
                                     ['slmut', r.choice([1, 2, -1])], ['slmut2', k, r.choice(keys)]]))
            pays.append({'kind': 'list', 'init': init, 'ops': ops})
        else:
            init = [[k, i] for i, k in enumerate(r.sample(['a', 'b', '1', '0', 'None', 'True', '1.0'], r.randint(0, 4)))]
            keys = ['a', 'b', 1, 0, D('1'), D('1.0'), D('1.50'), True, None, -1, 'None', '1', 'True', D('-0')]
            ops = []
            for _ in range(r.randint(1, 12)):
                k = r.choice(keys)
                ops.append(r.choice([['write', k, r.choice([5, 'v'])], ['read', k], ['get', k], ['del', k], ['len'], ['keys'], ['values'], ['read', k]]))
            pays.append({'kind': 'dict', 'init': init, 'ops': ops})
    return _run('c14', 'c14', pays, 'random operation sequences (one op per eval call on a shared names mapping) against a pure-Python list / '
                'string-keyed-dict model written from the property text; keys: ints, negative, out-of-range, decimals incl. negative fractions, '
                'bool, None, str; list ops incl. del, compound write, slices c[a:b] / c[a:] / c[:b] / c[::k] and pushes to their results')


# ------------------------------------------------------------------ C15
def monitor_c15(ctx):
    n = sz(ctx, 3000, 30000)
    pays = []
    for i in range(n):
        r = random.Random(f'{ctx["seed"]}/mon-c15/{i}')
        a, b = layoutgen.layout_pair(r)
        p = {'plain': a, 'decorated': b}
        if i % 10 == 0:
            p['poison'] = [None, r.choice(['f(1', '[1, 2', '{1: 2', 'g(1 +', ['f(a, (b, c), d)', 1], ['f(a, [b, {c: d', 3], ['x = (a $ b', 9], ['a\nb\n(c\nd', 3],
                                             ['[a, b', 9]])]
        if i % 7 == 3:
            p['neighbours'] = True
        pays.append(p)
    # layouts of programs whose string literals / %names% hold runs of blanks and tabs
    for plain, decos in [('pad("id", "|   |")', ['pad("id",\t"|   |")', 'pad("id",  ("|   |"))', 'pad("id",  "|   |",)', 'pad("id",  "|   |");',
                                                   'pad("id",  "|   |") # 3 wide', 'pad(\n"id",  "|   |"\n)', '"id" | pad("|   |")']),
                         ('%first  name% + "!"', ['(%first  name%) + "!"', '%first  name%\t+ "!"', '%first  name% + "!";']),
                         ('x = "a \t b"; [x, "a  b"]', ['x = "a \t b" ;  [x,  "a  b"]', 'x = ("a \t b")\n[x, "a  b",]']),
                         ('{"k  1": 1, "k 1": 2}', ['{"k  1": 1,   "k 1": 2,}', '{\n"k  1": 1,\n"k 1": 2\n}'])]:
        for d in decos:
            pays.append({'plain': plain, 'decorated': d, 'neighbours': True})
    a = _run('c15', 'c15', pays, 'metamorphic: parse(plain) == parse(decorated) for random programs and random combinations of the rewrites at '
                'every applicable position; every 10th pair also after an earlier rejected unbalanced text on the same parser')
    recv = ['hs', 'hl', 'hd', 'hn', 'hb', 'hi', '"s t"', '5', '[2, 1]', 'None', '{"a": 1}', 'True', '1.5', '[]', '""']
    fns = [('lower', []), ('upper', []), ('strip', []), ('startswith', ['"A"']), ('endswith', ['"c"']), ('len', []), ('str', []), ('abs', []), ('keys', []),
           ('sorted', []), ('reversed', []), ('sum', []), ('join', ['","']), ('split', ['" "']), ('replace', ['"a"', '"b"']), ('get', ['"k"']), ('int', []),
           ('float', []), ('round', []), ('pretty', []), ('hstr_upper', []), ('hlist_copy', []), ('index_of', ['1']), ('min', []), ('values', []), ('push', ['1'])]
    triples = [[r0, f, a] for r0 in recv for f, a in fns]
    b = _run('c15_calls', 'c15_calls', [{'triples': triples[i:i + 40]} for i in range(0, len(triples), 40)],
             'the three call spellings r.f(a) / r | f(a) / f(r, a) evaluated for receivers of every type x builtins and host-supplied unbound '
             'methods: same value, same exception class')
    return _merge('c15', [a, b])


# ------------------------------------------------------------------ C16
def monitor_c16(ctx):
    n = sz(ctx, 4000, 30000)
    pays = []
    exotic = ['\x00', '\x07', '\r', '\x0c', '\x7f', '\x85', '', '\ud800', '\U0010ffff', '​', 'é', '€', '　', '\x1b', '²']
    for i in range(n):
        r = random.Random(f'{ctx["seed"]}/mon-c16/{i}')
        k = r.randrange(6)
        if k == 0:
            s = ''.join(r.choice(gens.LEX_ALPHABET + exotic + ['x', '(', ')', '{', ',', '|']) for _ in range(r.randint(0, 12)))
        elif k == 1:
            t = layoutgen.layout_pair(r)[1]
            s = t[:r.randrange(len(t) + 1)]
        elif k == 2:
            s = layoutgen.error_text(r)
        elif k == 3:
            s = r.choice(['(' * r.randint(1, 400), '[' * 300 + '1' + ']' * 299, '-' * 500 + '1', 'not ' * 300 + 'x', 'a' + '[0]' * 300, '"' + 'a' * 5000,
                          '1' * 5000, 'x' * 5000, '%' + 'a' * 3000, '(' * 200 + 'x' + ')' * 200, '{' * 100])
        elif k == 4:
            s = r.choice(exotic) + r.choice(['', ' 1', 'x']) if r.random() < 0.5 else 'x ' + r.choice(exotic)
        else:
            s = ''.join(chr(r.choice([r.randrange(32, 127), r.randrange(0x20, 0x3000), r.randrange(0, 32)])) for _ in range(r.randint(1, 10)))
        pays.append({'src': s, 'apis': ['parse', 'names', 'eval']})
    # string literals with every kind of backslash escape a lexer might decide to decode (well-formed, malformed, out of range)
    for lit in ['"\\U00110000"', '"\\UFFFFFFFF"', '"\\U0010FFFF"', '"\\xZZ"', '"\\x4"', '"\\u12"', '"\\uD800"', '"\\N{bad}"', '"\\N{LATIN SMALL LETTER A}"',
                '"\\777"', '"\\8"', '"\\x00"', '"\\0"', '"\\c"', "'\\U00110000'", 'r"\\U00110000"', '"a\\', '"\\"', '"\\\\U00110000"', '"\\u0041\\U00110000"',
                'x = "\\UFFFFFFFF"; x', '["\\xZZ"]', 'f("\\U99999999")', '%\\U00110000%', '"\\' + 'U' * 50 + '"']:
        pays.append({'src': lit, 'apis': ['parse', 'names', 'eval']})
    planted = ['undefined_var', 'nofn(1)', 'u += 1', '[1,2][5]', '{"a": 1}["b"]', 'pop([])', '"abc"[7]', 'items({"a": 1})[0][2]', 'enumerate([1])[0][5]',
               'for', '1 $ 2', '1 +', 'f(', 'x = [0]\nx[5]', 'd = {}\nd["k"]',
               # every spelling of a name: %...% lexemes (with blanks, dots, operators inside), names next to keywords
               '%undef%', '%a b%', '%x.y%', '%a+b%', '%undef%(1)', '%q% += 1', 'andy', 'not_x', 'None_', '_u', 'x1.y2(3)', '1 | nofn', '2 | nofn(2)',
               'del nodict["k"]', 'nolist[0] = 1', 'nolist[0] += 1', '[][0]', '""[0]', '{}["k"]', 'keys({})[0]', '[1,2,3][1:2][4]',
               # a missing key written as a value that cannot be hashed / as a number in another spelling / as None or a bool
               '{"a": 1}[[1, 2]]', '{"a": 1}[{"x": 1}]', '{"a": 1}[keys({"a": 1})]', '{"a": 1}[None]', '{"a": 1}[True]', '{"1": 1}[1.0]', '{"a": 1}[[]]',
               '{"a": [1]}["a"][3]', '{"a": {"b": 1}}["a"]["c"]', '[[1]][0][1]', 'get({"a": [1]}, "a")[2]']
    ctxs = ['{E}', '[1, {E}]', 'len({E})', '{{"k": {E}}}', '{{{E}: 1}}', '[1,2,3][{E}:]', '[1,2,3][{E}]', 'apply(v => {E}, 1)', '{E} if True else 1',
            '1 if {E} else 2', 'x = {E}', 'x = [0]\nx[0] = {E}', 'x = [0]\nx[0] += {E}', 'x = 1\nx += {E}', '-{E}', 'not {E}', '1 + {E}',
            'map([1], v => {E})', 'str({E})', 'sorted([2, 1], v => {E})']
    for pl in planted:
        for c in ctxs:
            if '\n' in pl and c != '{E}':
                continue
            src = c.replace('{E}', pl).replace('apply(', '(w => w)(') if False else c.replace('{E}', pl)
            if 'apply' in src:
                continue
            pays.append({'src': src, 'apis': ['eval'], 'planted': True})
    # D17 (finding): the READ of a missing key / index that a compound item assignment performs
    for src in ['x = [1]\nx[5] += 1', 'd = {}\nd["k"] += 1', 'd = {"a": 1}\nd["b"] -= 1', 'x = []\nx[0] *= 2']:
        pays.append({'src': src, 'apis': ['eval'], 'planted': True, 'sig': 'D17:compound-item-missing'})
    for b in (1, 2, 3, 7):
        pays.append({'src': 'f = n => f(n + 1)\nf(0)', 'apis': ['eval'], 'planted': True, 'budget': b})
        pays.append({'src': 'map([1, 2, 3], v => v * (2 + 3))', 'apis': ['eval'], 'planted': True, 'budget': b})
        pays.append({'src': 'try_it = [1, 2] | sorted(v => 0 - v)', 'apis': ['eval'], 'planted': True, 'budget': b})
    # exceeding the size cap, through every element-adding form, at every syntactic position a call can stand in
    for add in ['push(c, 1)', 'c.push(1)', 'c | push(1)', 'insert(c, 0, 1)', 'c.insert(5, 1)']:
        for c in ['{E}', '[1, {E}]', 'len({E})', 'x = {E}', '({E}) if True else 1', 'map([1], v => {E})', 'str({E})', '1 + ({E})', 'not ({E})']:
            pays.append({'src': c.replace('{E}', add), 'apis': ['eval'], 'planted': True, 'full': True, 'budget': 1000})
    for st in ['c[0] = 1', 'c[10000] = 1', 'd["new"] = 1', 'd["0"] = 1', 'c[0] += 1', 'd["0"] += 1', 'd["new"] += 1', 'x = c\nx.push(1)', 'x = d\nx["n"] = 1']:
        pays.append({'src': st, 'apis': ['eval'], 'planted': True, 'full': True, 'budget': 100000})
    for src in ['fq(1)', '1 | fq', 'x.fq()', 'map([1, 2], v => fq(v))', '[fq(1), gq(2)]', 'fq(gq(1))', 'apply(v => fq(v), 1)']:
        pays.append({'cached_calls': [src, [{'fq': 1, 'gq': 2, 'x': 3}, {'x': 3}, {'gq': 2, 'x': 3}, {'fq': 1, 'x': 3}, {}]]})
    for seq in [['zz9 = 5', 'zz9'], ['zz9 = 5', 'zz9 + 1'], ['fz = v => v', 'fz(1)'], ['zz9 = [1]', 'zz9 += [2]'], ['zz9 = 1; zz8 = 2', '[zz8]'],
                ['q1 = 1', 'q2 = 2', 'q1 + q2'], ['zz9 = 5', 'zz9 += 1'], ['zz9 = 5', 'x = zz9']]:
        pays.append({'seq': seq})
    OPENERS = ['[1, 2 3]', 'f(1, $)', '{"a": (1 2)}', 'x = )', '(((', '[1, (2, {3: ', 'f(1,\n2 3)', '"abc', '[1, "x]', ['foo(bar, [baz, qux])', 3], ['f(a, (b, c), d)', 1],
               ['{a: [b, (c', 3], '1 +', 'x = [1, 2', '%a b', 'for', ')', ']', '}', 'f(1))', '[1]]', '1 2']
    BROKEN = ['1 +\n2', 'x = 10 *\n3\nx', 'a = 1\nb = a -\na', 'len(\n[1, 2]) +\n1', '1 +;2', 'x = \n1', '[1, 2]\n]', 'f(\n1\n))', '1\n)', 'a = (1\n',
              'not\n1', '1 if 2 else\n3', '1 +\r\n2', 'x.\nf()', '1 |\nlen']
    for i in range(0, len(OPENERS), 4):
        pays.append({'after_failed': [OPENERS[i:i + 4], BROKEN]})
    a = _run('c16', 'c16', pays, 'arbitrary Unicode strings (control characters, unnamed / private-use / surrogate code points), truncations at every '
                'character, deep nesting, erroneous programs through parse / list_names / eval: only ParserError for parse and list_names, only '
                'Exceptions for eval, a dead worker is a crash; each listed failure planted at 20 syntactic positions must be a ParserError')
    b = _run('c10_missing', 'c10_missing', [{'cases': [['y', None], ['nofn(1)', None], ['y += 1', None], ['%u v%', None], ['x', None], ['len([1])', None],
                                                       ['[y]', None], ['1 + y', None], ['f = v => w9; f(1)', None], ['y.push(1)', None], ['del y[0]', None]]}],
             'undefined names / functions under host mappings that answer for absent keys (Counter / defaultdict / __missing__) are still ParserErrors')
    RE = [{'src': 'a = 1 + 1 + 1 + 1; sub("1"); b = a + 1 + 1 + 1 + 1 + 1 + 1 + 1; [a, b, a + b + 1 + 1 + 1]', 'reenter': True},
          {'src': 'map(l, v => [sub("2 + 2"), v + 1 + 1][1])', 'reenter': True, 'names': {'l': [1, 2, 3, 4, 5, 6]}},
          {'src': 'f = n => (0 if n < 1 else [sub("n9 = 1"), f(n - 1)][1]); f(6)', 'reenter': True}]
    c = _run('c01_scen', 'c01_scen', [{'scenarios': [x]} for x in RE],
             'exceeding the op budget is reported (as the ops-limit ParserError) also when a host callable re-enters eval on the same parser midway')
    return _merge('c16', [a, b, c])


# ------------------------------------------------------------------ C18
def monitor_c18(ctx):
    n = sz(ctx, 2500, 20000)
    pays = []
    for i in range(n):
        r = random.Random(f'{ctx["seed"]}/mon-c18/{i}')
        k = r.randrange(4)
        if k == 0:
            src = layoutgen.layout_pair(r)[1]
        elif k == 1:
            src = proggen.eval_case(r, hostfns=False)[1]
        elif k == 2:
            nm = r.choice(['%user.name%', '%a.b%', '%a b%', '%order.0%', '%x+y%', '%a%',
                           # characters a normalising pre-pass could touch: no-break / en / ideographic / zero-width spaces, tabs,
                           # doubled, leading and trailing blanks, case, composed letters
                           '%a\u00a0b%', '%a\tb%', '%a  b%', '% a%', '%a %', '%a\u2003b%', '%\u00e9 \u00fc%', '%a\u200bb%', '%A b%', '%a\u3000b%',
                           '%a b% + %a\u00a0b%', '%x\u00a0%',
                           # decomposed letters (base + combining mark), compatibility characters, Hangul jamo: the name is the text as written
                           '%e\u0301 u\u0308%', '%\u0438\u0306%', '%a\u030a%', '%\ufb01x%', '%\u1100\u1161%', '%e\u0301% + %\u00e9%', '%\u2126%', '%K\u212a%'])
            src = r.choice([nm, f'{nm} + 1', f'x = {nm}', f'f({nm}, y)', f'cfg = {{key: {nm}, "n": count}}\ncfg'])
        else:
            src = r.choice(['cfg = {key: limit, "n": count}\ncfg', 'a.b(c | d(e), f => g)', 'x = [p, q][r:s]', 'del m[k]; m[j] += v', 'list(a, dict())'])
        pay = {'src': src, 'names': {'user': {'name': 'Ann'}, 'a': 1, 'order': [1, 2], 'x': 2, 'y': [1, 2, 3], 'key': 'k', 'limit': 3, 'count': 4}}
        if i % 6 == 1:
            PRE = [['eval', 'zq1 = %zq 4% * zq3\nzq1 +', 0], ['eval', 'zq1 = zq2\nzq6 = zq3 )', 0], ['parse', 'zq1 = zq2; zq7(zq3,\n[zq5', 0], ['names', 'zq1(zq2, [zq3, zq5])', 3],
                   ['eval', 'zq1 = zq2 + zq3; zq1', 0], ['eval', 'zq8 = v => v + zq2\nzq8(1) +', 0], ['parse', 'zq1\nzq2\n$', 0], ['names', 'zq1\n$\nzq2', 9],
                   ['eval', 'zq1 = zq_undefined', 0], ['eval', 'zq5.push(zq2)\nzq5[9]', 0], ['parse', 'zq1 = 1\n\nzq2 zq3', 0]]
            pay['pre'] = [r.choice(PRE) for _ in range(r.randint(1, 3))]
        pays.append(pay)
    return _run('c18', 'c18', pays, 'list_names vs an identifier scanner written from the property text; keys requested from a recording names '
                'mapping during eval (plain and caching parser, list_names repeated after eval) must be listed or implicit')


# ------------------------------------------------------------------ C19
def monitor_c19(ctx):
    n = sz(ctx, 40, 400)
    pays = []
    for i in range(n):
        r = random.Random(f'{ctx["seed"]}/mon-c19/{i}')
        a = r.choice([0, 1, -5, 10, 10 ** 30, 10 ** 30 + 1, -3, 7, -10 ** 29])
        b = a + r.choice([0, 0, 1, 2, 5, 100, 10 ** 20])
        pays.append({'seed': r.randrange(10 ** 9), 'a': a, 'b': b, 'draws': sz(ctx, 40, 200),
                     'lists': [[1], [], [1, 2], [3, 1, 2, 9], ['a', 'b', 'c', 'd', 'e'], [[1], [2]]][:r.randint(2, 6)]})
    for p in pays:
        p['lists'] = [l for l in p['lists'] if l] + [[7]]
    return _run('c19', 'c19', pays, 'the REAL random module, many seeded draws per input: bounds a <= b as ints and Decimals incl. a == b, negative '
                'and 31-digit bounds; rand() in [0,1); rand(list) membership; shuffle is a new permutation, argument unchanged, result not aliased')


# ------------------------------------------------------------------ C20
def monitor_c20(ctx):
    n = sz(ctx, 5000, 40000)
    pays = []
    for i in range(n):
        r = random.Random(f'{ctx["seed"]}/mon-c20/{i}')
        pays.append({'src': layoutgen.error_text(r), 'fresh': False})
    for s in ['1;2 3', '[1,\n2] x', '1 +\n2 2', 'a = 1;\nb = a stray', 'a;\r\nb;\nc d', 'f(1,\n2);\n[3,\n4]; x y', '1 +', 'f(', 'x = [\n1,']:
        pays.append({'src': s, 'fresh': True})
    # earlier calls on the same parser; offending tokens of every length
    for i in range(sz(ctx, 300, 3000)):
        r = random.Random(f'{ctx["seed"]}/mon-c20-pre/{i}')
        pre = r.choice([['names', 'a\nb\nc\nd', 9], ['names', 'f(a,\n(b,\nc', 2], ['names', 'x = 1\ny = 2\nz', 3], ['names', 'a\n$\nb', 9],
                        ['parse', 'a = 1\nb = )', 0], ['parse', '[1,\n2,\n3', 0], ['names', '"s"\n\n\nq', 1]])
        pays.append({'src': layoutgen.error_text(r), 'fresh': r.random() < 0.5, 'pre': pre})
    for base in ['x = 1\ny = 2 z w', 'asd asd', 'a = [1,\n2]\nb c', 'f(1, 2)\n) + 1', 'x = 1\n1 +', 'k = 0 0']:
        vs = [base, '\n\n' + base, '\n\n\n\n' + base, '  ' + base, base + '\n\n', '\t' + base, '\n' + base + ' ', '\r\n' + base, base]
        pays.append({'cached_seq': vs})
        pays.append({'cached_seq': list(reversed(vs))})
    for L in (50, 150, 190, 250, 1000, 5000):
        for tokmk in (lambda n: '"' + 'a' * n + '"', lambda n: 'n' * n, lambda n: '%' + 'p' * n + '%', lambda n: '1' * n, lambda n: '1.' + '5' * n):
            pays.append({'src': 'x = 1\ny = 2 ' + tokmk(L), 'fresh': True})
            pays.append({'src': '[1,\n2]\n3 ' + tokmk(L) + ' 4', 'fresh': True})
    return _run('c20', 'c20', pays, 'valid multi-line programs broken by a stray token / truncation: the physical line of the offending token is '
                'recomputed from its lexpos (count of \\n before it) and must be the line the message names; end of text -> end-of-input message')
