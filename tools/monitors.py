"""Model-free property monitors on the real code (DESIGN.md §4, 'search oracle' of each property).
Each returns {name, cases, distinct_nontrivial, rule, samples, failing:[{signature, input, what}], wall_s}."""
import time


def _empty(name, rule=''):
    return {'name': name, 'cases': 0, 'distinct_nontrivial': 0, 'rule': rule, 'samples': [], 'failing': [], 'wall_s': 0.0}


def rerun_witness(ctx, entry):
    """re-run the recorded witness of a known finding; returns a failing record if it still reproduces"""
    import witness
    return witness.rerun(ctx, entry)
