#!/usr/bin/env python3
"""Run every kept behaviour-preserving rewrite under /verif/seeded/benign through ALL twenty quick checks (a harmless rewrite
must raise no alarm anywhere); write seeded/BENIGN.md.  Usage: benignall.py [b3 b7 ...]  (default: all)"""
import json, os, shutil, subprocess, sys, time
ROOT = os.path.dirname(os.path.dirname(os.path.abspath(__file__)))
PY = '/venv/bin/python'


def sh(cmd, **kw):
    p = subprocess.run(cmd, shell=isinstance(cmd, str), stdout=subprocess.PIPE, stderr=subprocess.STDOUT, text=True, **kw)
    return p.returncode, p.stdout


def main():
    base = os.path.join(ROOT, 'seeded', 'benign')
    want = sys.argv[1:] or sorted(os.listdir(base), key=lambda x: int(x[1:]))
    res_path = os.path.join(base, 'results.json')
    results = json.load(open(res_path)) if os.path.exists(res_path) else {}
    manifest = json.load(open(os.path.join(ROOT, 'MANIFEST.json')))
    keep = os.path.join('/tmp', 'benign_evidence_keep')
    shutil.rmtree(keep, ignore_errors=True)
    shutil.copytree(os.path.join(ROOT, 'evidence'), keep)
    try:
        for b in want:
            assert sh('git -C /repo status --porcelain')[1].strip() == '', 'repo not clean'
            rc, out = sh(['git', '-C', '/repo', 'apply', os.path.join(base, b, 'patch.diff')])
            assert rc == 0, out
            alarms, t0 = {}, time.time()
            try:
                for c in manifest['checks']:
                    rc, out = sh(c['quick_cmd'], cwd=ROOT, env=dict(os.environ, VERIF_SEED='1'))
                    if rc != 0:
                        alarms[c['property_id']] = next((l for l in out.split('\n') if l.startswith('VIOLATION')), f'exit {rc}: ' + out.strip()[-200:])
            finally:
                sh('git -C /repo checkout -- .')
                sh('git -C /repo clean -fdq smartquery')
            results[b] = {'alarms': alarms, 'wall_s': round(time.time() - t0)}
            json.dump(results, open(res_path, 'w'), indent=1)
            print(b, 'alarms:', sorted(alarms) or 'none', results[b]['wall_s'], 's', flush=True)
    finally:
        shutil.rmtree(os.path.join(ROOT, 'evidence'))
        shutil.copytree(keep, os.path.join(ROOT, 'evidence'))
        shutil.rmtree(keep, ignore_errors=True)
    with open(os.path.join(ROOT, 'seeded', 'BENIGN.md'), 'w') as fh:
        fh.write('# Behaviour-preserving rewrites vs ALL twenty quick checks (VERIF_SEED=1)\n\nA harmless rewrite should raise no alarm. '
                 'Written by a fresh sub-agent that saw only the repository; each passes the test-suite and a differential run against the pristine code.\n\n'
                 '| rewrite | files | what it does | alarms |\n|---|---|---|---|\n')
        for b in sorted(results, key=lambda x: int(x[1:])):
            m = json.load(open(os.path.join(base, b, 'meta.json')))
            al = results[b]['alarms']
            fh.write(f'| {b} | {", ".join(m.get("files", []))} | {m.get("summary", "")[:160].replace("|", "/")} | '
                     f'{"none" if not al else "; ".join(k + ": " + v[:80] for k, v in sorted(al.items()))} |\n')


if __name__ == '__main__':
    main()
