import P

/-- the look-ahead `nxt` stops a loop at context (m,a) -/
def stopOk (tb : Tbl) (m : Nat) (a : Assoc) : Option Tok → Prop
  | some (.op k) => takes m a (tb.lvl k) = false ∧ clash m a (tb.lvl k) = false
  | _ => True

mutual
/-- `E m a ts t nxt`: `ts` followed by look-ahead `nxt` is parsed by `expr` at context (m,a) into `t` -/
inductive E (tb : Tbl) : Nat → Assoc → List Tok → T → Option Tok → Prop
  | mk {m a ts0 t0 ts t nxt} : Prim tb ts0 t0 → Spine tb m a t0 ts t nxt → E tb m a (ts0 ++ ts) t nxt
inductive Prim (tb : Tbl) : List Tok → T → Prop
  | atom {s} : Prim tb [.name s] (.atom s)
  | paren {ts t} : E tb 0 .right ts t (some .rp) → Prim tb (.lp :: ts ++ [.rp]) t
inductive Spine (tb : Tbl) : Nat → Assoc → T → List Tok → T → Option Tok → Prop
  | nil {m a l nxt} : stopOk tb m a nxt → Spine tb m a l [] l nxt
  | cons {m a l k tsr r rest t nxt} : takes m a (tb.lvl k) = true →
      E tb (tb.lvl k) (tb.asc k) tsr r ((rest.head?).or nxt) →
      Spine tb m a (.bin k l r) rest t nxt →
      Spine tb m a l (.op k :: tsr ++ rest) t nxt
end

theorem mono_le (tb : Tbl) {f g : Nat} (h : f ≤ g) :
    (∀ m a ts r, expr tb f m a ts = some r → expr tb g m a ts = some r) ∧
    (∀ ts r, pre tb f ts = some r → pre tb g ts = some r) ∧
    (∀ m a l ts r, loop tb f m a l ts = some r → loop tb g m a l ts = some r) := by
  induction h with
  | refl => exact ⟨fun _ _ _ _ h => h, fun _ _ h => h, fun _ _ _ _ _ h => h⟩
  | step _ ih =>
    obtain ⟨a1, a2, a3⟩ := ih
    obtain ⟨b1, b2, b3⟩ := mono tb _
    exact ⟨fun m a ts r h => b1 _ _ _ _ (a1 _ _ _ _ h), fun ts r h => b2 _ _ (a2 _ _ h),
      fun m a l ts r h => b3 _ _ _ _ _ (a3 _ _ _ _ _ h)⟩

theorem head_or (rest tl : List Tok) (nxt : Option Tok) (h : tl.head? = nxt) :
    (rest ++ tl).head? = (rest.head?).or nxt := by
  cases rest <;> simp [h]


mutual
theorem cE (tb : Tbl) : ∀ {m a ts t nxt}, E tb m a ts t nxt →
    ∃ f, ∀ tl, tl.head? = nxt → expr tb f m a (ts ++ tl) = some (t, tl)
  | _, _, _, _, _, .mk (m := m) (a := a) (ts0 := ts0) (t0 := t0) (ts := ts) hp hs => by
    obtain ⟨f1, h1⟩ := cP tb hp
    obtain ⟨f2, h2⟩ := cS tb hs
    refine ⟨max f1 f2 + 1, fun tl htl => ?_⟩
    rw [expr, List.append_assoc]
    have e1 := (mono_le tb (Nat.le_max_left f1 f2)).2.1 _ _ (h1 (ts ++ tl))
    rw [e1]
    exact (mono_le tb (Nat.le_max_right f1 f2)).2.2 _ _ _ _ _ (h2 tl htl)
theorem cP (tb : Tbl) : ∀ {ts t}, Prim tb ts t → ∃ f, ∀ tl, pre tb f (ts ++ tl) = some (t, tl)
  | _, _, .atom => ⟨1, fun tl => by simp [pre]⟩
  | _, _, .paren (ts := ts) he => by
    obtain ⟨f, h⟩ := cE tb he
    refine ⟨f + 1, fun tl => ?_⟩
    have := h (.rp :: tl) rfl
    simp only [List.cons_append, List.append_assoc, List.nil_append] at this ⊢
    rw [pre]; simp only [this]
theorem cS (tb : Tbl) : ∀ {m a l ts t nxt}, Spine tb m a l ts t nxt →
    ∃ f, ∀ tl, tl.head? = nxt → loop tb f m a l (ts ++ tl) = some (t, tl)
  | _, _, _, _, _, _, .nil (m := m) (a := a) (nxt := nxt) hstop => by
    refine ⟨1, fun tl htl => ?_⟩
    rw [List.nil_append]
    match tl, htl with
    | [], _ => simp [loop]
    | .name _ :: _, _ => simp [loop]
    | .lp :: _, _ => simp [loop]
    | .rp :: _, _ => simp [loop]
    | .op k :: r, htl =>
      simp only [List.head?_cons] at htl
      subst htl
      obtain ⟨h1, h2⟩ := hstop
      simp [loop, h1, h2]
  | _, _, _, _, _, _, .cons (m := m) (a := a) (k := k) (tsr := tsr) (rest := rest) ht he hs => by
    obtain ⟨f1, h1⟩ := cE tb he
    obtain ⟨f2, h2⟩ := cS tb hs
    refine ⟨max f1 f2 + 1, fun tl htl => ?_⟩
    simp only [List.cons_append, List.append_assoc]
    rw [loop]
    simp only [ht, if_true]
    have e1 := (mono_le tb (Nat.le_max_left f1 f2)).1 _ _ _ _ (h1 (rest ++ tl) (head_or _ _ _ htl))
    rw [e1]
    exact (mono_le tb (Nat.le_max_right f1 f2)).2.2 _ _ _ _ _ (h2 tl htl)
end
