/-! Calibration only: mini precedence-climbing parser + completeness w.r.t. a levelled derivation relation. -/
inductive Assoc | left | right | non deriving DecidableEq, Repr
inductive Tok | name (s : Nat) | op (k : Nat) | lp | rp deriving DecidableEq, Repr
inductive T | atom (s : Nat) | bin (k : Nat) (l r : T) deriving DecidableEq, Repr

structure Tbl where
  lvl : Nat → Nat
  asc : Nat → Assoc

/-- does the loop at context (m,a) consume an operator of level L ? -/
def takes (m : Nat) (a : Assoc) (L : Nat) : Bool := L > m || (L == m && a == .right)
def clash (m : Nat) (a : Assoc) (L : Nat) : Bool := L == m && a == .non

mutual
def expr (tb : Tbl) : Nat → Nat → Assoc → List Tok → Option (T × List Tok)
  | 0, _, _, _ => none
  | f+1, m, a, ts =>
    match pre tb f ts with
    | some (l, r) => loop tb f m a l r
    | none => none
def pre (tb : Tbl) : Nat → List Tok → Option (T × List Tok)
  | 0, _ => none
  | f+1, ts =>
    match ts with
    | .name s :: r => some (.atom s, r)
    | .lp :: r =>
      match expr tb f 0 .right r with
      | some (t, .rp :: r') => some (t, r')
      | _ => none
    | _ => none
def loop (tb : Tbl) : Nat → Nat → Assoc → T → List Tok → Option (T × List Tok)
  | 0, _, _, _, _ => none
  | f+1, m, a, l, ts =>
    match ts with
    | .op k :: r =>
      if takes m a (tb.lvl k) then
        match expr tb f (tb.lvl k) (tb.asc k) r with
        | some (rhs, r') => loop tb f m a (.bin k l rhs) r'
        | none => none
      else if clash m a (tb.lvl k) then none
      else some (l, .op k :: r)
    | _ => some (l, ts)
end

/-- fuel monotonicity -/
theorem mono (tb : Tbl) : ∀ f, (∀ m a ts r, expr tb f m a ts = some r → expr tb (f+1) m a ts = some r) ∧
    (∀ ts r, pre tb f ts = some r → pre tb (f+1) ts = some r) ∧
    (∀ m a l ts r, loop tb f m a l ts = some r → loop tb (f+1) m a l ts = some r) := by
  intro f
  induction f with
  | zero => simp [expr, pre, loop]
  | succ n ih =>
    obtain ⟨ie, ip, il⟩ := ih
    refine ⟨?_, ?_, ?_⟩
    · intro m a ts r h
      rw [expr] at h ⊢
      split at h
      · rename_i l r' hp
        rw [ip _ _ hp]; exact il _ _ _ _ _ h
      · cases h
    · intro ts r h
      match ts with
      | [] => simp [pre] at h
      | .name s :: r' => simpa [pre] using h
      | .op k :: r' => simp [pre] at h
      | .rp :: r' => simp [pre] at h
      | .lp :: r' =>
        rw [pre] at h ⊢
        split at h
        · rename_i t r'' he
          rw [ie _ _ _ _ he]; exact h
        · cases h
    · intro m a l ts r h
      match ts with
      | [] => simpa [loop] using h
      | .name s :: r' => simpa [loop] using h
      | .lp :: r' => simpa [loop] using h
      | .rp :: r' => simpa [loop] using h
      | .op k :: r' =>
        rw [loop] at h ⊢
        split at h
        · rename_i ht
          simp only [ht, if_true]
          split at h
          · rename_i rhs r'' he
            rw [ie _ _ _ _ he]; exact il _ _ _ _ _ h
          · cases h
        · rename_i ht
          simp only [ht]
          exact h
