"""Design-validation script (NOT part of the machinery): exhaustive diff of notes/parser_model_sketch.py
against the real PLY parser. Usage: /venv/bin/python parser_model_sketch_diff.py <maxlen> [sample]"""
import sys, itertools, shutil, tempfile, os, random, time, atexit
D = tempfile.mkdtemp(); shutil.copytree('/repo/smartquery', D + '/smartquery'); sys.path.insert(0, D)
sys.path.insert(0, os.path.dirname(os.path.abspath(__file__)))
atexit.register(lambda: shutil.rmtree(D, ignore_errors=True))
from smartquery import rules
rec = {}
_orig = rules.p_error
def p_error(p):
    rec['pos'] = None if p is None else p.lexpos
    return _orig(p)
rules.p_error = p_error
from smartquery import SqParser
from smartquery.exceptions import ParserError
from smartquery import ast_ops as A
import parser_model_sketch as pratt
sq = SqParser()

ALPHA = {  # token type -> source text
 'NAME': 'a', 'NUMBER': '1', 'STRING': '"s"', 'EQ': '==', 'LT': '<', 'PLUS': '+', 'MINUS': '-', 'TIMES': '*',
 'POWER': '**', 'DIVIDE': '/', 'LPAREN': '(', 'RPAREN': ')', 'LBRACKET': '[', 'RBRACKET': ']', 'COMMA': ',',
 'DOT': '.', 'PIPE': '|', 'ASSIGN': '=', 'SHORT_OP': '+=', 'LAMBDA': '=>', 'COLON': ':', 'LBRACE': '{', 'RBRACE': '}',
 'NEWLINE': ';', 'AND': 'and', 'OR': 'or', 'IN': 'in', 'NOT': 'not', 'IF': 'if', 'ELSE': 'else', 'TRUE': 'True',
 'NONE': 'None', 'DEL': 'del', 'FOR': 'for',
}
VALS = {'NAME': 'a', 'NUMBER': '1', 'STRING': 's', 'SHORT_OP': '+='}

def neutral(op):
    if op is None: return None
    if isinstance(op, A.CodeOp): return ('Code', [neutral(x) for x in op.lines])
    if isinstance(op, A.ValueOp): return ('Val', str(op.v) if not isinstance(op.v, (bool, type(None))) else op.v)
    if isinstance(op, A.NameOp): return ('Name', op.name)
    if isinstance(op, A.BinOp): return ('Bin', op.op, neutral(op.op1), neutral(op.op2))
    if isinstance(op, A.UnaryOp): return ('Unary', op.op, neutral(op.op1))
    if isinstance(op, A.AssignOp): return ('Assign', op.name, neutral(op.value))
    if isinstance(op, A.ShortOp): return ('Short', op.name, op.op, neutral(op.value))
    if isinstance(op, A.IfExprOp): return ('If', neutral(op.cond), neutral(op.op1), neutral(op.op2))
    if isinstance(op, A.CallOp): return ('Call', op.name, [neutral(x) for x in op.args])
    if isinstance(op, A.DictOp): return ('Dict', [(neutral(k), neutral(v)) for k, v in op.d])
    if isinstance(op, A.LambdaOp): return ('Lambda', [neutral(x) for x in op.args], neutral(op.expr))
    if isinstance(op, A.SliceOp):
        parts = [neutral(op.start), neutral(op.stop), neutral(op.step)]
        return ('SliceFull', parts)
    raise Exception(type(op))

def norm_model(t):
    if isinstance(t, tuple):
        if t[0] == 'Slice':
            parts = [norm_model(x) for x in t[1]] + [('Val', None)] * (3 - len(t[1]))
            return ('SliceFull', parts)
        return tuple(norm_model(x) for x in t)
    if isinstance(t, list): return [norm_model(x) for x in t]
    return t

def real(types):
    text = ' '.join(ALPHA[t] for t in types)
    starts = []; pos = 0
    for t in types:
        starts.append(pos); pos += len(ALPHA[t]) + 1
    rec.clear()
    try:
        return ('ok', neutral(sq.parse(text)))
    except ParserError as e:
        if 'reserved keyword' in str(e): return ('res', None)
        return ('syn', starts.index(rec['pos']))
    except AttributeError:
        return ('syn', len(types))

def model(types):
    toks = [(t, VALS.get(t, ALPHA[t])) for t in types]
    r = pratt.parse(toks)
    if r[0] == 'ok': return ('ok', norm_model(r[1]))
    if r[0] == 'res': return ('res', None)
    return r

def main(maxlen, sample=None, seed=0):
    keys = list(ALPHA)
    n = bad = 0; t0 = time.time(); acc = 0
    rnd = random.Random(seed)
    for L in range(0, maxlen + 1):
        it = itertools.product(keys, repeat=L) if sample is None or L <= 3 else (tuple(rnd.choice(keys) for _ in range(L)) for _ in range(sample))
        for types in it:
            n += 1
            a = real(types); b = model(types)
            if a[0] == 'ok': acc += 1
            if a != b:
                bad += 1
                if bad <= 25: print('DIFF', ' '.join(ALPHA[t] for t in types), '\n   real ', a, '\n   model', b)
    print(f'cases={n} accepted={acc} diffs={bad} {time.time()-t0:.1f}s')
if __name__ == '__main__':
    main(int(sys.argv[1]), int(sys.argv[2]) if len(sys.argv) > 2 else None)
