"""Design-validation prototype (NOT part of the machinery): character-level model of the PLY lexer
built from smartquery/lexer.py — rule order, first-match alternation, lazy string/%name% rules,
bracket-depth-sensitive NEWLINE, lineno bookkeeping as shipped (`;` counts, bracketed newlines do not)."""
import unicodedata
RESERVED = {'and': 'AND', 'or': 'OR', 'in': 'IN', 'not': 'NOT', 'if': 'IF', 'else': 'ELSE', 'True': 'TRUE',
            'False': 'FALSE', 'None': 'NONE', 'del': 'DEL', 'for': 'FOR', 'while': 'WHILE', 'break': 'BREAK',
            'continue': 'CONTINUE', 'def': 'DEF', 'raise': 'RAISE', 'elif': 'ELIF'}
BR = {'(': ('LPAREN', 1), ')': ('RPAREN', -1), '[': ('LBRACKET', 1), ']': ('RBRACKET', -1),
      '{': ('LBRACE', 1), '}': ('RBRACE', -1)}
STR_RULES = [('==', 'EQ'), ('>=', 'GTE'), ('=>', 'LAMBDA'), ('<=', 'LTE'), ('!=', 'NE'), ('|', 'PIPE'), ('+', 'PLUS'),
             ('*', 'TIMES'), ('=', 'ASSIGN'), (':', 'COLON'), (',', 'COMMA'), ('/', 'DIVIDE'), ('>', 'GT'),
             ('<', 'LT'), ('-', 'MINUS')]

def is_word(c): return c == '_' or c.isalnum()      # Python re \w for str patterns
def is_digit(c): return unicodedata.category(c) == 'Nd'   # Python re \d

class LexErr(Exception):
    def __init__(self, pos, ch): self.pos = pos; self.ch = ch

def match_string(s, i):
    j = i
    if j < len(s) and s[j] == 'r': j += 1
    if j >= len(s) or s[j] not in '"\'': return None
    q = s[j]; j += 1
    while True:
        if j >= len(s): return None
        c = s[j]
        if c == q: return j + 1
        if c == '\\':
            if j + 1 >= len(s) or s[j + 1] == '\n': return None
            j += 2
        elif c == '\n': return None
        else: j += 1

def lex(s):
    """returns list of (type, value, lexpos, lineno_reported) ; raises LexErr"""
    out = []; i = 0; line = 1; depth = 0; n = len(s)
    while True:
        while i < n and s[i] in ' \t': i += 1
        if i >= n: return out
        c = s[i]; tokline = line
        if s.startswith('\r\n', i) or c == '\n' or c == ';':
            v = '\r\n' if s.startswith('\r\n', i) else c
            if v == ';' or depth == 0:
                line += 1
                out.append(('NEWLINE', v, i, tokline))
            i += len(v); continue
        if c in BR:
            ty, d = BR[c]; depth += d
            out.append((ty, c, i, tokline)); i += 1; continue
        e = match_string(s, i)
        if e is not None:
            raw = s[i:e]
            if raw[0] != 'r':
                v = raw[1:-1].replace('\\n', '\n').replace('\\t', '\t').replace("\\'", "'").replace('\\"', '"')
            else:
                v = raw[2:-1]
            out.append(('STRING', v, i, tokline)); i = e; continue
        if is_digit(c):
            j = i
            while j < n and is_digit(s[j]): j += 1
            if j + 1 < n and s[j] == '.' and is_digit(s[j + 1]):
                j += 1
                while j < n and is_digit(s[j]): j += 1
            out.append(('NUMBER', s[i:j], i, tokline)); i = j; continue
        if c == '%':
            j = i + 1
            while j < n and s[j] != '%' and s[j] != '\n': j += 1
            if j < n and s[j] == '%':
                v = s[i:j + 1]
                out.append((RESERVED.get(v, 'NAME'), v, i, tokline)); i = j + 1; continue
        if is_word(c) and not is_digit(c):
            j = i
            while j < n and is_word(s[j]): j += 1
            v = s[i:j]
            out.append((RESERVED.get(v, 'NAME'), v, i, tokline)); i = j; continue
        if c == '#':
            j = i
            while j < n and s[j] != '\n': j += 1
            i = j; continue
        if c in '+-*/' and i + 1 < n and s[i + 1] == '=':
            out.append(('SHORT_OP', s[i:i + 2], i, tokline)); i += 2; continue
        if s.startswith('**', i):
            out.append(('POWER', '**', i, tokline)); i += 2; continue
        if c == '.':
            out.append(('DOT', '.', i, tokline)); i += 1; continue
        for lit, ty in STR_RULES:
            if s.startswith(lit, i):
                out.append((ty, lit, i, tokline)); i += len(lit); break
        else:
            raise LexErr(i, c)
