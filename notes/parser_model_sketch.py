"""Design-validation prototype (NOT part of the machinery): a precedence-climbing
parser over PLY token types that is meant to behave exactly like the LALR parser
PLY builds from smartquery/rules.py (accept/reject, tree, offending token index)."""
LEVEL = {}
for i, (assoc, toks) in enumerate([
    ('left', ['ASSIGN']), ('left', ['SHORT_OP']), ('left', ['OR']), ('left', ['AND']),
    ('nonassoc', ['EQ', 'NE', 'GT', 'LT', 'GTE', 'LTE', 'IN']), ('left', ['PLUS', 'MINUS']),
    ('left', ['TIMES', 'DIVIDE']), ('right', ['POWER']), ('left', ['PIPE']), ('left', ['DOT']),
    ('right', ['NOT']), ('right', ['UMINUS']), ('left', ['LBRACKET'])], start=1):
    for t in toks:
        LEVEL[t] = (i, assoc)
BINOPS = {'PLUS': '+', 'MINUS': '-', 'TIMES': '*', 'POWER': '**', 'DIVIDE': '/', 'EQ': '==', 'NE': '!=',
          'GT': '>', 'LT': '<', 'GTE': '>=', 'LTE': '<=', 'IN': 'in', 'AND': 'and', 'OR': 'or'}
RESERVED_UNUSED = {'FOR', 'WHILE', 'ELIF', 'BREAK', 'CONTINUE', 'DEF', 'RAISE'}

EXPR_FOLLOW = set(BINOPS) | {'NOT', 'LBRACKET', 'DOT', 'PIPE', 'IF', 'ELSE', 'RPAREN', 'RBRACKET', 'RBRACE', 'COMMA',
               'COLON', 'NEWLINE', '$end'}

class SynErr(Exception):
    def __init__(self, idx): self.idx = idx          # index of offending token, len(toks) = end of input
class ResErr(Exception):
    def __init__(self, idx): self.idx = idx

class P:
    def __init__(self, toks): self.t = toks; self.i = 0
    def peek(self, k=0):
        j = self.i + k
        return self.t[j][0] if j < len(self.t) else '$end'
    def val(self): return self.t[self.i][1]
    def err(self): raise SynErr(self.i)
    def eat(self, ty):
        if self.peek() != ty: self.err()
        v = self.val(); self.i += 1; return v

    def code(self):
        lines = []
        s = self.statement()
        if s is not None: lines.append(s)
        while self.peek() == 'NEWLINE':
            self.i += 1
            s = self.statement()
            if s is not None: lines.append(s)
        if self.peek() != '$end': self.err()
        return ('Code', lines)

    def statement(self):
        p = self.peek()
        if p in ('NEWLINE', '$end'): return None
        if p == 'NAME' and self.peek(1) == 'ASSIGN':
            n = self.val(); self.i += 2
            return ('Assign', n, self.expr(0, 'right')[0])
        if p == 'NAME' and self.peek(1) == 'SHORT_OP':
            n = self.val(); self.i += 1; op = self.val(); self.i += 1
            return ('Short', n, op, self.expr(0, 'right')[0])
        if p == 'DEL':
            self.i += 1
            e, topidx = self.expr(0, 'right')
            if not topidx: self.err()
            return ('Call', '__delitem__', [e[2][0], e[2][1]])
        e, topidx = self.expr(0, 'right')
        if topidx and self.peek() == 'ASSIGN':
            self.i += 1
            v = self.expr(0, 'right')[0]
            return ('Call', '__setitem__', [e[2][0], e[2][1], v])
        if topidx and self.peek() == 'SHORT_OP':
            op = self.val(); self.i += 1
            v = self.expr(0, 'right')[0]
            return ('Call', '__setitem_with_op__', [e[2][0], e[2][1], ('Val', op), v])
        return e

    def arglist(self, close):
        """expr (COMMA expr)* [COMMA] close ; returns (args, had_trailing_comma)"""
        args = [self.expr(0, 'right')[0]]
        while True:
            if self.peek() == 'COMMA':
                self.i += 1
                if self.peek() == close:
                    self.i += 1; return args, True
                args.append(self.expr(0, 'right')[0])
            elif self.peek() == close:
                self.i += 1; return args, False
            else: self.err()

    def prefix(self):
        p = self.peek()
        if p in RESERVED_UNUSED:
            self.i += 1
            if self.peek() in EXPR_FOLLOW: raise ResErr(self.i - 1)
            self.err()
        if p in ('NUMBER', 'STRING'):
            v = self.val(); self.i += 1; return ('Val', v)
        if p == 'TRUE': self.i += 1; return ('Val', True)
        if p == 'FALSE': self.i += 1; return ('Val', False)
        if p == 'NONE': self.i += 1; return ('Val', None)
        if p == 'NAME':
            n = self.val(); self.i += 1
            if self.peek() == 'LPAREN':
                self.i += 1
                if self.peek() == 'RPAREN':
                    self.i += 1; return ('Call', n, [])
                args, _ = self.arglist('RPAREN')
                return ('Call', n, args)
            if self.peek() == 'LAMBDA':
                self.i += 1
                return ('Lambda', [('Name', n)], self.expr(0, 'right')[0])
            return ('Name', n)
        if p == 'LPAREN':
            self.i += 1
            e = self.expr(0, 'right')[0]
            if self.peek() == 'RPAREN':
                self.i += 1; return e
            if self.peek() != 'COMMA': self.err()
            params = [e]
            while True:
                self.eat('COMMA')
                if self.peek() == 'NAME' and self.peek(1) == 'RPAREN':
                    params.append(('Name', self.val())); self.i += 2; break
                params.append(self.expr(0, 'right')[0])
                if self.peek() != 'COMMA': self.err()
            self.eat('LAMBDA')
            return ('Lambda', params, self.expr(0, 'right')[0])
        if p == 'LBRACKET':
            self.i += 1
            if self.peek() == 'RBRACKET':
                self.i += 1; return ('Call', 'list', [])
            args, _ = self.arglist('RBRACKET')
            return ('Call', 'list', args)
        if p == 'LBRACE':
            self.i += 1
            if self.peek() == 'RBRACE':
                self.i += 1; return ('Call', 'dict', [])
            items = [self.dict_item()]
            first = True
            while True:
                if self.peek() == 'RBRACE':
                    self.i += 1; return ('Dict', items)
                self.eat('COMMA')
                if first and self.peek() == 'RBRACE':
                    self.i += 1; return ('Dict', items)
                first = False
                items.append(self.dict_item())
        if p == 'MINUS':
            self.i += 1
            return ('Unary', '-', self.expr(12, 'right')[0])
        if p == 'NOT':
            self.i += 1
            return ('Unary', 'not', self.expr(11, 'right')[0])
        self.err()

    def dict_item(self):
        k = self.expr(0, 'right')[0]
        self.eat('COLON')
        v = self.expr(0, 'right')[0]
        return (k, v)

    def subscript(self):
        """after LBRACKET; returns ('idx', e) or ('slice', SliceOp)"""
        N = ('Val', None)
        if self.peek() == 'COLON':
            self.i += 1
            if self.peek() == 'RBRACKET':
                self.i += 1; return ('slice', ('Slice', [N]))
            if self.peek() == 'COLON':
                self.i += 1
                e = self.expr(0, 'right')[0]; self.eat('RBRACKET')
                return ('slice', ('Slice', [N, N, e]))
            e = self.expr(0, 'right')[0]
            if self.peek() == 'COLON':
                self.i += 1; self.eat('RBRACKET')
                return ('slice', ('Slice', [N, e]))
            self.eat('RBRACKET')
            return ('slice', ('Slice', [N, e]))
        e = self.expr(0, 'right')[0]
        if self.peek() == 'RBRACKET':
            self.i += 1; return ('idx', e)
        self.eat('COLON')
        if self.peek() == 'RBRACKET':
            self.i += 1; return ('slice', ('Slice', [e]))
        if self.peek() == 'COLON':
            self.i += 1; self.eat('RBRACKET')
            return ('slice', ('Slice', [e, N]))
        e2 = self.expr(0, 'right')[0]; self.eat('RBRACKET')
        return ('slice', ('Slice', [e, e2]))

    def expr(self, m, assoc):
        """returns (tree, last_suffix_was_plain_index_in_this_loop)"""
        lhs = self.prefix()
        topidx = False
        while True:
            p = self.peek()
            if p in BINOPS or p in ('NOT', 'LBRACKET', 'DOT', 'PIPE'):
                L, a = LEVEL[p]
            elif p == 'IF':
                L, a = 0, 'right'
            else:
                return lhs, topidx
            if L > m or (L == m and assoc == 'right'):
                pass
            elif L == m and assoc == 'nonassoc':
                self.err()
            else:
                return lhs, topidx
            topidx = False
            if p in BINOPS:
                self.i += 1
                rhs = self.expr(L, a)[0]
                lhs = ('Bin', BINOPS[p], lhs, rhs)
            elif p == 'NOT':
                self.i += 1
                self.eat('IN')
                rhs = self.expr(5, 'nonassoc')[0]
                lhs = ('Bin', 'not in', lhs, rhs)
            elif p == 'IF':
                self.i += 1
                c = self.expr(0, 'right')[0]
                self.eat('ELSE')
                e2 = self.expr(0, 'right')[0]
                lhs = ('If', c, lhs, e2)
            elif p == 'LBRACKET':
                self.i += 1
                kind, k = self.subscript()
                lhs = ('Call', '__getitem__', [lhs, k])
                topidx = (kind == 'idx')
            elif p == 'DOT':
                self.i += 1
                n = self.eat('NAME'); self.eat('LPAREN')
                if self.peek() == 'RPAREN':
                    self.i += 1; lhs = ('Call', n, [lhs])
                else:
                    args, trailing = self.arglist('RPAREN')
                    lhs = ('Call', n, [lhs] + (args[:-1] if trailing else args))
            elif p == 'PIPE':
                self.i += 1
                n = self.eat('NAME')
                if self.peek() == 'LPAREN':
                    self.i += 1
                    args, trailing = self.arglist('RPAREN')
                    lhs = ('Call', n, [lhs] + (args[:-1] if trailing else args))
                else:
                    lhs = ('Call', n, [lhs])

def parse(toks):
    p = P(toks)
    try:
        return ('ok', p.code())
    except SynErr as e:
        return ('syn', e.idx)
    except ResErr as e:
        return ('res', e.idx)
