"""Design-validation script: exhaustive character-level diff of lexer_model_sketch.py against the real PLY lexer.
Usage: /venv/bin/python lexer_model_sketch_diff.py <maxlen>"""
import sys, itertools, shutil, tempfile, os, time, atexit
D = tempfile.mkdtemp(); shutil.copytree('/repo/smartquery', D + '/smartquery'); sys.path.insert(0, D)
atexit.register(lambda: shutil.rmtree(D, ignore_errors=True))
sys.path.insert(0, os.path.dirname(os.path.abspath(__file__)))
from smartquery import SqParser
from smartquery.exceptions import ParserError
import lexer_model_sketch as M
from decimal import Decimal
sq = SqParser()
def real(s):
    lx = sq.lex; lx.lexpos = 0; lx.lineno = 1; lx.paren_count = 0; lx.input(s)
    out = []
    try:
        while True:
            t = lx.token()
            if t is None: return ('ok', out)
            out.append((t.type, str(t.value), t.lexpos, t.lineno))
    except ParserError as e:
        return ('err', out, str(e))
def model(s):
    try:
        return ('ok', [(a, str(Decimal(b)) if a == 'NUMBER' else b, c, d) for a, b, c, d in M.lex(s)])
    except M.LexErr as e:
        return ('err', None, f'Illegal character {e.ch}')
ALPHA = ['a', 'r', '1', '0', '.', ' ', '\n', '\r', ';', '"', "'", '\\', '%', '#', '(', ']', '=', '*', '>', '-', '!', '_', 'n', 'ж', '٣']
def main(maxlen):
    n = bad = 0; t0 = time.time()
    for L in range(maxlen + 1):
        for cs in itertools.product(ALPHA, repeat=L):
            s = ''.join(cs); n += 1
            a = real(s); b = model(s)
            ok = (a[0] == b[0]) and (a[1] == b[1] if a[0] == 'ok' else a[2] == b[2])
            if not ok:
                bad += 1
                if bad <= 20: print('DIFF', repr(s), '\n  real ', a, '\n  model', b)
    print(f'cases={n} diffs={bad} {time.time()-t0:.1f}s')
main(int(sys.argv[1]))
