"""Design-validation script (NOT part of the machinery): random grammar sentences + one-token mutations.
Usage: /venv/bin/python parser_model_sketch_diff_random.py <n> <seed>"""
import sys, random, time, os
sys.path.insert(0, os.path.dirname(os.path.abspath(__file__)))
from parser_model_sketch_diff import sq, real, model, ALPHA
prods = {}
for p in sq.yacc.productions[1:]:
    prods.setdefault(p.name, []).append(list(p.prod))
TERMS = set(ALPHA)
# map all grammar terminals onto alphabet representatives
REP = {'NE': 'EQ', 'GT': 'LT', 'GTE': 'LT', 'LTE': 'LT', 'FALSE': 'TRUE', 'WHILE': 'FOR', 'ELIF': 'FOR', 'BREAK': 'FOR',
       'CONTINUE': 'FOR', 'DEF': 'FOR', 'RAISE': 'FOR', 'COMMENT': None}
minlen = {}
def compute_min():
    changed = True
    for nt in prods: minlen[nt] = 10**9
    while changed:
        changed = False
        for nt, alts in prods.items():
            for alt in alts:
                if 'COMMENT' in alt: continue
                l = sum(1 if s not in prods else minlen[s] for s in alt)
                if l < minlen[nt]: minlen[nt] = l; changed = True
compute_min()
def gen(sym, depth, rnd):
    if sym not in prods:
        return [REP.get(sym, sym)]
    alts = [a for a in prods[sym] if 'COMMENT' not in a and not (set(a) & {'FOR','WHILE','ELIF','BREAK','CONTINUE','DEF','RAISE'} and rnd.random() < 0.97)]
    if depth <= 0:
        best = min(sum(1 if s not in prods else minlen[s] for s in a) for a in alts)
        alts = [a for a in alts if sum(1 if s not in prods else minlen[s] for s in a) == best]
    alt = rnd.choice(alts)
    out = []
    for s in alt:
        out += gen(s, depth - 1, rnd)
    return out
def main(n, seed):
    rnd = random.Random(seed); keys = list(ALPHA)
    bad = acc = tot = 0; t0 = time.time(); lens = {}
    for i in range(n):
        toks = gen('code', rnd.randint(2, 7), rnd)
        if len(toks) > 60: continue
        variants = [toks]
        for _ in range(4):   # one-token mutations
            v = list(toks); k = rnd.randrange(len(v) + 1) if v else 0
            m = rnd.random()
            if m < 0.33 and v: del v[min(k, len(v) - 1)]
            elif m < 0.66: v.insert(k, rnd.choice(keys))
            elif v: v[min(k, len(v) - 1)] = rnd.choice(keys)
            variants.append(v)
        for v in variants:
            tot += 1
            a = real(tuple(v)); b = model(tuple(v))
            if a[0] == 'ok': acc += 1; lens[len(v)] = lens.get(len(v), 0) + 1
            if a != b:
                bad += 1
                if bad <= 15: print('DIFF', ' '.join(ALPHA[t] for t in v), '\n   real ', a, '\n   model', b)
    print(f'cases={tot} accepted={acc} diffs={bad} {time.time()-t0:.1f}s maxlen_ok={max(lens)}')
main(int(sys.argv[1]), int(sys.argv[2]))
